"""C08 - the order protocol is exact: ledger hand-over step.

Decided: ONE step of the host-visible state machine from an ARBITRARY ledger state -
Interpreter::process_vm_result (every VmResult variant, payloads opaque) and Interpreter::step entered with no active VM -
on a lazily materialised symbolic Interpreter whose pending_orders / cancelled_orders (abstract vectors of symbolic length),
suspended_for_order (symbolic Option) and wait_graph.contexts (abstract map of symbolic size) are arbitrary.
"""
import json
import re
import time
import z3

from emir import driver
from emir.values import *
from emir.symex import State
from . import common, ledger


KF_STRANDED = 'C08/process_vm_result/complete-strands-cancellations'
KF_UNCATCHABLE = 'C08/inject_exception/outer-frames-not-searched'


def harness(F, ex):
    keep = {F[n] for n in ledger.LEDGER}
    ex.havoc(r'^Interpreter::materialize_thrown_error$', framed={'Interpreter': keep})
    ex.havoc(r'^RuntimeValue::from_guarded$')
    ex.havoc(r'^JsError::internal_error$')
    ex.overrides.append(ledger.add_context_stub(F))


def classify(ex, v):
    """-> ('Ok', step variant name, payload dict) | ('Err', None, None)"""
    if v.discr == 1:
        return 'Err', None, None
    sr = v.payload[0][0]
    names = ex.enum_variants('StepResult')
    return 'Ok', names[sr.discr], sr.payload.get(sr.discr, {})


def check_process_vm_result(rep, cross):
    ex = ledger.setup_executor(6)
    F = ledger.InterpFields(ex)
    harness(F, ex)
    fn = common.fn_name(ex, 'Interpreter', 'process_vm_result')
    st = State()
    a, sym = ledger.fresh_interp(ex, st, F)
    res = ex.fresh(st, 'VmResult', '$vmresult')
    pre = ledger.ledger_of(ex, st, a, F)
    ex.call_function(st, fn, [Ref(a), res])
    ends = ex.run(st)
    if not common.require_clean(rep, ends, 'process_vm_result'):
        rep.absorb(ex)
        return
    vm_names = ex.enum_variants('VmResult')
    sfields = ex.src.enum_fields[('StepResult', 'Suspended')]
    pi, ci = sfields.index('pending'), sfields.index('cancelled')
    n_p, n_c, sus, n_ctx = sym['pending_len'], sym['cancelled_len'], sym['suspended'], sym['contexts_len']
    seen_variants = set()
    for k, e in enumerate(ends):
        kind, var, pl = classify(ex, e.value)
        post = ledger.ledger_of(ex, e.st, a, F)
        goals = []
        vm_is = lambda *names: z3.Or([res.discr == vm_names.index(n) for n in names])
        if kind == 'Err':
            goals.append(('Err only for VmResult::Error / Yield / YieldStar', vm_is('Error', 'Yield', 'YieldStar')))
            goals.append(('Err leaves pending and cancelled orders in the ledger',
                          z3.And(ledger.same_contents(post['pending_orders'], pre['pending_orders']),
                                 ledger.same_contents(post['cancelled_orders'], pre['cancelled_orders']))))
            seen_variants.add('Err')
        elif var == 'Complete':
            seen_variants.add('Complete')
            goals.append(('Complete only when nothing is outstanding', z3.And(n_p == 0, sus == 0, n_ctx == 0)))
            goals.append(('Complete only for VmResult::Complete', vm_is('Complete')))
            goals.append(('Complete never strands a cancellation (cancelled list is empty)', n_c == 0))
            goals.append(('Complete leaves the (empty) pending list and the cancelled list alone',
                          z3.And(ledger.same_contents(post['pending_orders'], pre['pending_orders']),
                                 ledger.same_contents(post['cancelled_orders'], pre['cancelled_orders']))))
        elif var == 'Suspended':
            seen_variants.add('Suspended')
            goals.append(('Suspended hands over exactly the pending orders',
                          ledger.same_contents(pl[pi], pre['pending_orders'])))
            goals.append(('Suspended hands over exactly the cancelled orders',
                          ledger.same_contents(pl[ci], pre['cancelled_orders'])))
            goals.append(('after Suspended the pending list is empty (handed over exactly once)', ledger.is_empty_vec(post['pending_orders'])))
            goals.append(('after Suspended the cancelled list is empty (reported exactly once)', ledger.is_empty_vec(post['cancelled_orders'])))
            post_sus = post['suspended_for_order']
            post_sus_some = (post_sus.discr == 1) if not isinstance(post_sus.discr, int) else z3.BoolVal(post_sus.discr == 1)
            goals.append(('Suspended only when the host can still do something',
                          z3.Or(n_p != 0, post_sus_some, z3.Not(ledger.is_empty_vec(post['contexts'])))))
            goals.append(('Suspended for Complete/Suspend/SuspendForOrder only', vm_is('Complete', 'Suspend', 'SuspendForOrder')))
        else:
            goals.append(('process_vm_result returns Complete, Suspended or Err only', z3.BoolVal(False)))
        for label, g in goals:
            t = time.time()
            r, m = ex.check_sat_pc(e.st.pc, [z3.Not(g)])
            what = 'process_vm_result path %d: %s' % (k, label)
            rep.obligation(what, r, 'any ledger state, any VmResult', time.time() - t)
            if r == 'unsat':
                cross.append((what, list(e.st.pc) + [z3.Not(g)], 'unsat'))
            else:
                report(rep, ex, m, sym, res, vm_names, 'process_vm_result', label)
    for v in ('Err', 'Complete', 'Suspended'):
        if v not in seen_variants:
            rep.inconc('process_vm_result: no feasible path returns %s (vacuity)' % v)
    rep.vacuity.append('process_vm_result: %d feasible paths; outcomes seen: %s' % (len(ends), sorted(seen_variants)))
    rep.sample({'kernel': 'Interpreter::process_vm_result', 'paths': len(ends), 'outcomes': sorted(seen_variants)})
    rep.absorb(ex)


def report(rep, ex, m, sym, res, vm_names, kernel, label):
    ev = lambda e: m.eval(e, model_completion=True).as_long()
    state = dict(pending=ev(sym['pending_len']), cancelled=ev(sym['cancelled_len']), suspended_for_order=bool(ev(sym['suspended'])),
                 waiting_contexts=ev(sym['contexts_len']))
    if res is not None:
        state['vm_result'] = vm_names[ev(res.discr)]
    # replay: drive the real interpreter into a matching ledger state through the public API
    progs = replay_programs(state)
    outs = driver.replay(replay_requests())
    rep.validated += len(outs)
    bad = [o for o in outs if o.get('protocol_violation')]
    p = rep.write_replay('%s' % kernel, {'kernel': kernel, 'violated': label, 'ledger_state': state, 'programs': progs, 'observed': outs})
    key = 'C08/%s/%s' % (kernel, re.sub(r'[^a-z]+', '-', label.lower())[:48])
    if label.startswith('Complete never strands a cancellation'):
        key = KF_STRANDED
    if bad or not progs:
        rep.violation(key, '%s from ledger state %r: %s; real interpreter: %r' % (kernel, state, label, (bad or outs)[:1]), p)
    else:
        rep.violation(key, '%s from ledger state %r violates: %s (symbolic counterexample; scripted host programs %r did not expose it)' % (
            kernel, state, label, progs), p)


def replay_requests():
    """scripted programs for the real interpreter (with what the host must see)"""
    base = 'import { order, __cancelOrder__ } from "tsrun:host";\n'
    progs = [
        (base + 'const a = order({k:1}); const b = order({k:2}); const r = await Promise.all([a, b]); r.length', 2, []),
        (base + 'order({k:1}); 7', 1, []),
        (base + 'const x = await order({k:1}); x', 1, []),
        (base + 'const a = await order({k:1}); __cancelOrder__(1); const b = await order({k:2}); b', 2, [1]),
        (base + 'const a = await order({k:1}); __cancelOrder__(1); 5', 1, [1]),
        (base + 'async function f() { return await order({k:1}); } const p = f(); const q = await order({k:2}); __cancelOrder__(2); (await p) + q', 2, [2]),
    ]
    reqs = [{'cmd': 'order_trace', 'src': s, 'expect_issued': n, 'expect_cancelled': c} for s, n, c in progs]
    # the same protocol when the host answers in several fulfill_orders calls / adds an empty call / answers with an error
    two = base + 'const a = order({k:1}); const b = order({k:2}); const r = await Promise.all([a, b]); r[0] * 10 + r[1]'
    reqs.append({'cmd': 'order_trace', 'src': two, 'expect_issued': 2, 'expect_cancelled': [], 'fulfill': 'split', 'expect_value': 12.0})
    reqs.append({'cmd': 'order_trace', 'src': two, 'expect_issued': 2, 'expect_cancelled': [], 'fulfill': 'then_empty', 'expect_value': 12.0})
    reqs.append({'cmd': 'order_trace', 'src': base + 'const x = await order({k:1}); x + 1', 'expect_issued': 1, 'expect_cancelled': [], 'fulfill': 'then_empty', 'expect_value': 2.0})
    reqs.append({'cmd': 'order_trace', 'src': base + 'let r = "none"; try { await order({k:1}) } catch (e) { r = "caught" } r', 'expect_issued': 1, 'expect_cancelled': [],
                 'error_for': [1], 'expect_value': 'caught'})
    reqs.append({'cmd': 'order_trace', 'src': base + 'function g(){ return order({k:1}) } let r = "none"; try { await g() } catch (e) { r = "caught" } r', 'expect_issued': 1,
                 'expect_cancelled': [], 'error_for': [1], 'expect_value': 'caught', 'key': KF_UNCATCHABLE})
    reqs.append({'cmd': 'order_trace', 'src': base + 'const t1 = await order({k:1}); const t2 = await order({k:2}); __cancelOrder__(t2); __cancelOrder__(t1); const t3 = await order({k:3}); t3',
                 'expect_issued': 3, 'expect_cancelled': [1, 2], 'expect_value': 3.0})
    return reqs


def replay_programs(state):
    return [r['src'] for r in replay_requests()]


def check_step_idle(rep, cross):
    """Interpreter::step entered with no active VM, nothing ready, no pending program"""
    ex = ledger.setup_executor(6)
    F = ledger.InterpFields(ex)
    harness(F, ex)
    keep = {F[n] for n in ledger.LEDGER}
    ex.havoc(r'^Interpreter::check_resolved_promises$', framed={'Interpreter': keep | {F[n] for n in ledger.RUNSTATE}})
    fn = common.fn_name(ex, 'Interpreter', 'step')
    st = State()
    a, sym = ledger.fresh_interp(ex, st, F)
    iv = st.store[a]
    iv = iv.with_field(F['active_vm'], EnumV('Option<Box<BytecodeVM>>', 0, {}))
    iv = iv.with_field(F['pending_program'], EnumV('Option<PendingProgram>', 0, {}))
    # nothing ready: take_ready returns None (the ready queue is WaitGraph's own subject)
    st.store[a] = iv
    ex.overrides.append((re.compile(r'^WaitGraph::take_ready$'), lambda e, s, c: (e.havoc_used.add('WaitGraph::take_ready (returns None: nothing ready)'), e.ret(s, c, EnumV('Option', 0, {})))[1]))
    st.assume(sym['suspended'] == 0)     # the order-resume half of step is outside this kernel
    pre = ledger.ledger_of(ex, st, a, F)
    ex.call_function(st, fn, [Ref(a)])
    ends = ex.run(st)
    if not common.require_clean(rep, ends, 'step (idle)'):
        rep.absorb(ex)
        return
    n_ctx = sym['contexts_len']
    sfields = ex.src.enum_fields[('StepResult', 'Suspended')]
    pi, ci = sfields.index('pending'), sfields.index('cancelled')
    outcomes = set()
    for k, e in enumerate(ends):
        kind, var, pl = classify(ex, e.value)
        post = ledger.ledger_of(ex, e.st, a, F)
        goals = []
        outcomes.add(var or 'Err')
        if kind == 'Err':
            goals.append(('idle step never fails', z3.BoolVal(False)))
        elif var == 'Done':
            goals.append(('Done only when nothing is outstanding', n_ctx == 0))
            goals.append(('Done leaves the ledger alone', z3.And(ledger.same_contents(post['pending_orders'], pre['pending_orders']),
                                                                 ledger.same_contents(post['cancelled_orders'], pre['cancelled_orders']))))
        elif var == 'Suspended':
            goals.append(('idle Suspended only while contexts are waiting', n_ctx != 0))
            goals.append(('idle Suspended hands over exactly the pending orders', ledger.same_contents(pl[pi], pre['pending_orders'])))
            goals.append(('idle Suspended hands over exactly the cancelled orders', ledger.same_contents(pl[ci], pre['cancelled_orders'])))
            goals.append(('after idle Suspended both lists are empty', z3.And(ledger.is_empty_vec(post['pending_orders']), ledger.is_empty_vec(post['cancelled_orders']))))
        else:
            goals.append(('idle step returns Done or Suspended only', z3.BoolVal(False)))
        for label, g in goals:
            t = time.time()
            r, m = ex.check_sat_pc(e.st.pc, [z3.Not(g)])
            what = 'step(idle) path %d: %s' % (k, label)
            rep.obligation(what, r, 'any ledger state, no active VM, nothing ready', time.time() - t)
            if r == 'unsat':
                cross.append((what, list(e.st.pc) + [z3.Not(g)], 'unsat'))
            else:
                report(rep, ex, m, sym, None, None, 'step-idle', label)
    if not {'Done', 'Suspended'} <= outcomes:
        rep.inconc('step(idle): outcomes %s do not include both Done and Suspended (vacuity)' % sorted(outcomes))
    rep.vacuity.append('step(idle): %d feasible paths; outcomes: %s' % (len(ends), sorted(outcomes)))
    rep.sample({'kernel': 'Interpreter::step with no active VM', 'paths': len(ends), 'outcomes': sorted(outcomes)})
    rep.absorb(ex)


def validate_against_real(rep):
    """scripted host over the real interpreter: the StepResult traces obey the protocol (validates the replay route)"""
    progs = replay_programs({})
    reqs = replay_requests()
    outs = driver.replay(reqs)
    for p, o, rq in zip(progs, outs, reqs):
        rep.validated += 1
        if not o.get('protocol_violation') and 'expect_value' in rq:
            v = o.get('value') or {}
            got = v.get('v') if v.get('t') == 'string' else (float(v['repr']) if v.get('t') == 'number' else v)
            if got != rq['expect_value']:
                o['protocol_violation'] = 'final value %r, expected %r (host mode %s%s)' % (got, rq['expect_value'], rq.get('fulfill', 'batch'),
                                                                                         ', error responses for %r' % rq['error_for'] if rq.get('error_for') else '')
        if o.get('protocol_violation'):
            pth = rep.write_replay('order-trace', {'cmd': 'order_trace', 'src': p, 'observed': o})
            stranded = o['protocol_violation'].startswith('cancellations reported to the host') and o['trace'] and o['trace'][-1] == 'Complete'
            rep.violation(KF_STRANDED if stranded else rq.get('key', 'C08/order_trace/scripted-host'),
                          'scripted host run violates the protocol: %s (program: %s)' % (o['protocol_violation'], p.split('\n')[-1]), pth)


def check_fulfill_orders(rep, cross):
    """Interpreter::fulfill_orders adds every response it is given to order_responses and removes nothing: answers delivered in several
    calls, or followed by an empty call, all stay available for the resume step"""
    ex = ledger.setup_executor(6)
    F = ledger.InterpFields(ex)
    fn = common.fn_name(ex, 'Interpreter', 'fulfill_orders')
    for n in (0, 1, 2):
        st = State()
        a, sym = ledger.fresh_interp(ex, st, F)
        OR = {nm: i for i, nm in enumerate(ex.src.structs['OrderResponse'])}
        ids = [z3.BitVec('resp%d_id' % i, 64) for i in range(n)]
        rs = [Agg('struct', 'OrderResponse', {OR['id']: Agg('struct', 'OrderId', {0: Int(ids[i], False)}), OR['result']: Opaque('Result<RuntimeValue, JsError>', z3.Int('$res%d' % i))})
              for i in range(n)]
        m0 = ex.load(st, a, (('f', F['order_responses'], F.types['order_responses']),))
        tok0 = m0.tok
        ex.call_function(st, fn, [Ref(a), VecV(rs, 'OrderResponse')])
        ends = ex.run(st)
        if not common.require_clean(rep, ends, 'fulfill_orders(%d responses)' % n):
            continue
        for k, e in enumerate(ends):
            ins = [ev for ev in e.st.events if ev[0] == 'map_insert']
            m1 = ex.load(e.st, a, (('f', F['order_responses'], F.types['order_responses']),))

            def root(t):
                while isinstance(t, tuple):
                    t = t[0]
                return t
            same_map = isinstance(m1, AbsVec) and root(m1.tok) == root(tok0)
            others = [ev for ev in e.st.events if ev[0] in ('map_remove', 'map_clear')]
            ok = same_map and len(ins) == n and not others
            g = z3.BoolVal(ok)
            if ok:
                # the i-th insert carries the i-th response id (order of delivery) and its own result
                conds = []
                for i, ev in enumerate(ins):
                    kk = ev[2][0] if isinstance(ev[2], tuple) else ev[2]
                    kid = kk.fields[0].e if isinstance(kk, Agg) else None
                    conds.append(kid == ids[i] if kid is not None else z3.BoolVal(False))
                g = z3.And(conds) if conds else z3.BoolVal(True)
            r, m = ex.check_sat_pc(e.st.pc, [z3.Not(g)])
            what = 'fulfill_orders(%d responses) path %d: every response is added to the table the resume step reads, nothing already there is dropped' % (n, k)
            rep.obligation(what, r, 'any response ids and results, any table contents', 0.0)
            if r == 'unsat':
                cross.append((what, list(e.st.pc) + [z3.Not(g)], 'unsat'))
            elif not rep.seen('C08/fulfill_orders/responses-lost'):
                outs = driver.replay(replay_requests())
                rep.validated += len(outs)
                bad = [(rq.get('fulfill', 'batch'), o.get('protocol_violation') or o.get('value')) for rq, o in zip(replay_requests(), outs) if o.get('protocol_violation')]
                p = rep.write_replay('fulfill-orders', {'responses': n, 'same_table': same_map, 'inserts': len(ins), 'scripted_host_runs_with_violations': bad})
                rep.violation('C08/fulfill_orders/responses-lost', 'fulfill_orders with %d responses: %d inserted, table %s%s' % (
                    n, len(ins), 'kept' if same_map else 'REPLACED (answers of earlier calls are dropped)', '; scripted host: %r' % (bad[:1],) if bad else ''), p)
    rep.vacuity.append('fulfill_orders: 0, 1, 2 responses')
    rep.sample({'kernel': 'Interpreter::fulfill_orders', 'response_counts': [0, 1, 2]})
    rep.absorb(ex)


def check_cancel_syscall(rep, cross):
    """__cancelOrder__(id): for every id that has been allocated (1 <= id < next_order_id) the id is appended to cancelled_orders exactly once"""
    ex = ledger.setup_executor(6)
    F = ledger.InterpFields(ex)
    cands = [n for n in ex.mir.fn_index if n.endswith('cancel_order_syscall') and '{closure' not in n]
    if len(cands) != 1:
        rep.inconc('cannot locate cancel_order_syscall in the MIR dump (%d candidates)' % len(cands))
        return
    ex.auto_havoc = True
    ex.auto_frames = {'Interpreter': {F[n] for n in ledger.LEDGER}}

    def h_contains(e, s, c):
        from emir.models import deref
        v = deref(e, s, c.args[0])
        if not isinstance(v, AbsVec):
            return None
        b = z3.Bool('already_cancelled')
        s.event('contains', b)
        e.havoc_used.add('[T]::contains on the abstract cancelled list: an arbitrary answer (recorded)')
        return e.ret(s, c, Bool(b))
    ex.overrides.append((re.compile(r'^slice::contains$|^Vec::contains$'), h_contains))
    st = State()
    a, sym = ledger.fresh_interp(ex, st, F)
    nxt = z3.BitVec('next_order_id', 64)
    st.assume(z3.And(z3.UGE(nxt, 1), z3.ULT(nxt, 1 << 52)))
    cell = st.store[a]
    st.store[a] = cell.with_field(F['next_order_id'], Int(nxt, False))
    xbits = z3.BitVec('cancel_arg_bits', 64)
    x = z3.fpBVToFP(xbits, F64)
    argv = st.alloc(VecV([EnumV('JsValue', 3, {3: {0: Float(x)}})], 'JsValue'))
    c0 = ex.load(st, a, (('f', F['cancelled_orders'], F.types['cancelled_orders']),))
    ex.call_function(st, cands[0], [Ref(a), EnumV('JsValue', 0, {}), Ref(argv)])
    ends = ex.run(st, max_paths=2000)
    n = 0
    for k, e in enumerate(ends):
        if e.status != 'return':
            rep.inconc('cancel_order_syscall: %s %s' % (e.status, e.detail[:120]))
            continue
        n += 1
        pushes = [ev for ev in e.st.events if ev[0] == 'abs_push' and str(ev[1] if not isinstance(ev[1], tuple) else ev[1][0]).startswith(str(c0.tok if not isinstance(c0.tok, tuple) else c0.tok[0]))]
        # the id the script passed: the argument converted like the native does (f64 -> u64, saturating)
        idv = None
        for ev in e.st.events:
            if ev[0] == 'f2i':
                idv = ev[3]
        allocated = z3.And(z3.fpGEQ(x, z3.FPVal(1.0, F64)), z3.fpLT(x, z3.fpUnsignedToFP(z3.RNE(), nxt, F64)), z3.fpEQ(x, z3.fpRoundToIntegral(z3.RTZ(), x)))
        conds = [z3.BoolVal(len(pushes) == 1)]
        if len(pushes) == 1:
            pv = pushes[0][2]
            pid = pv.fields[0].e if isinstance(pv, Agg) and 0 in pv.fields else None
            conds.append(z3.fpEQ(z3.fpUnsignedToFP(z3.RNE(), pid, F64), x) if pid is not None else z3.BoolVal(False))
        # ids that were never handed out (0, or >= next_order_id) name no order: nothing may be reported to the host for them
        never = z3.And(z3.fpEQ(x, z3.fpRoundToIntegral(z3.RTZ(), x)), z3.Or(z3.fpEQ(x, z3.FPVal(0.0, F64)), z3.And(z3.fpGEQ(x, z3.fpUnsignedToFP(z3.RNE(), nxt, F64)), z3.fpLT(x, z3.FPVal(2.0 ** 52, F64)))))
        asked = [ev[1] for ev in e.st.events if ev[0] == 'contains']
        dup = asked[0] if asked else z3.BoolVal(False)       # the id is already in the list that will be handed to the host
        g = z3.And(z3.Implies(z3.And(allocated, z3.Not(dup)), z3.And(conds)), z3.Implies(z3.Or(never, dup), z3.BoolVal(len(pushes) == 0)))
        r, m = ex.check_sat_pc(e.st.pc, [z3.Not(g)])
        what = 'cancel_order_syscall path %d: an allocated order id not yet in the list is appended to cancelled_orders exactly once; an id that was never handed out, or is already listed, not at all' % k
        rep.obligation(what, r, 'any number argument, any next_order_id < 2^52, any ledger', 0.0)
        if r == 'unsat':
            cross.append((what, list(e.st.pc) + [z3.Not(g)], 'unsat'))
        else:
            r_s, m_s = ex.check_sat_pc(e.st.pc, [z3.Not(g), z3.ULE(nxt, 8), z3.fpLEQ(x, z3.FPVal(16.0, F64)), z3.fpGEQ(x, z3.FPVal(0.0, F64))])   # a readable counterexample if there is one
            if r_s == 'sat':
                m = m_s
            xv = float(str(m.eval(x, model_completion=True)).replace('*(2**', 'e').replace(')', '')) if False else m.eval(x, model_completion=True)
            nv = m.eval(nxt, model_completion=True).as_long()
            is_never = z3.is_true(m.eval(never, model_completion=True))
            key = 'C08/cancel_order_syscall/never-issued-id-reported' if is_never else 'C08/cancel_order_syscall/cancellation-dropped'
            if not rep.seen(key):
                base = 'import { order, __cancelOrder__ } from "tsrun:host";\n'
                wit = [{'cmd': 'order_trace', 'src': base + '__cancelOrder__(99); const a = await order({k:1}); a'}] if is_never else replay_requests()
                outs = driver.replay(wit)
                rep.validated += len(outs)
                bad = [o.get('protocol_violation') for o in outs if o.get('protocol_violation')]
                p = rep.write_replay('cancel-syscall', {'id': str(xv), 'next_order_id': nv, 'pushes': len(pushes), 'never_issued': is_never, 'scripted_host_runs_with_violations': bad})
                rep.violation(key, '__cancelOrder__(%s) with next_order_id = %d records %d cancellation(s); %s%s' % (
                    xv, nv, len(pushes), 'that id was never handed out, nothing may be reported to the host' if is_never else 'an allocated id must be recorded exactly once',
                    '; scripted host: %r' % (bad[:1],) if bad else ''), p)
    if n == 0:
        rep.inconc('cancel_order_syscall: no path reaches a return (vacuity)')
    rep.vacuity.append('cancel_order_syscall: %d return paths' % n)
    rep.sample({'kernel': 'cancel_order_syscall', 'paths': n})
    rep.absorb(ex)


KF_UNCATCHABLE = 'C08/inject_exception/outer-frames-not-searched'


def check_inject_exception(rep, cross):
    """an error response (or a rejected host promise) re-enters the suspended VM through BytecodeVM::inject_exception; it must be
    catchable by ANY active frame: the function may give up (return false) only after it has unwound the whole trampoline stack"""
    from . import c14
    L = c14.Ledger(rep, ('handle_error_with_trampoline_unwind', 'unwind_frame_scopes'), 3, ('find_exception_handler',))
    ex = L.ex
    try:
        fn = common.fn_name(ex, 'BytecodeVM', 'inject_exception')
    except driver.Inconclusive as err:
        rep.inconc(str(err))
        return
    f = ex.mir.get(fn)
    st = State()
    a_vm, n0, t0 = L.fresh_vm(st)
    args = [Ref(a_vm)] + [ex.fresh(st, t, '$a%d' % i) for i, (a_, t) in enumerate(f.args[1:], 1)]
    ex.call_function(st, fn, args)
    ends = ex.run(st, max_paths=20000)
    n_false = 0
    for k, e in enumerate(ends):
        if e.status in ('bound', 'panic'):
            continue
        if e.status != 'return':
            rep.inconc('inject_exception: %s %s' % (e.status, e.detail[:140]))
            continue
        if not isinstance(e.value, Bool):
            rep.inconc('inject_exception: unexpected return value %r' % (e.value,))
            continue
        tfin = ex.vec_len(ex.load(e.st, a_vm, (('f', L.tidx, L.t_ty),))).e
        g = z3.Implies(z3.Not(e.value.e), tfin == 0)
        r, m = ex.check_sat_pc(e.st.pc, [z3.Not(g)])
        if ex.check_sat_pc(e.st.pc, [z3.Not(e.value.e)])[0] == 'sat':
            n_false += 1
        what = 'inject_exception path %d: "no handler" is reported only after every frame of the trampoline stack has been searched' % k
        rep.obligation(what, r, 'any VM state, trampoline stack of symbolic length (loops unrolled 3 times)', 0.0)
        if r == 'unsat':
            cross.append((what, list(e.st.pc) + [z3.Not(g)], 'unsat'))
        elif not rep.seen(KF_UNCATCHABLE):
            base = 'import { order } from "tsrun:host";\n'
            srcs = [base + 'function g(){ return order({k:1}) } let r = "none"; try { await g() } catch (e) { r = "caught" } r',
                    base + 'async function f(){ return await order({k:1}) } let r = "none"; try { await f() } catch (e) { r = "caught" } r']
            outs = driver.replay([{'cmd': 'order_trace', 'src': s_, 'error_for': [1]} for s_ in srcs])
            rep.validated += len(outs)
            bad = [(s_.split('\n')[1], o.get('trace', [])[-1:]) for s_, o in zip(srcs, outs) if (o.get('value') or {}).get('v') != 'caught']
            p = rep.write_replay('inject-exception', {'frames_left_unsearched': m.eval(tfin, model_completion=True).as_long(), 'programs': srcs, 'observed': outs})
            rep.violation(KF_UNCATCHABLE, 'inject_exception gives up with %d frames of the trampoline stack not searched for a handler%s' % (
                m.eval(tfin, model_completion=True).as_long(),
                ': an error response to an order awaited inside a called function cannot be caught by the caller - %r ends with %r' % bad[0] if bad else ' (symbolic counterexample)'), p)
    if n_false == 0:
        rep.inconc('inject_exception: no path reports "no handler" (vacuity)')
    rep.vacuity.append('inject_exception: %d paths can report "no handler"' % n_false)
    rep.sample({'kernel': 'BytecodeVM::inject_exception', 'paths_reporting_no_handler': n_false})
    rep.absorb(ex)


def run(rep):
    rep.bounds = dict(ledger='any lengths of pending/cancelled orders, any suspended_for_order, any number of waiting contexts',
                      vm_result='any variant, payloads opaque', loops='none')
    rep.assumptions = [
        'materialize_thrown_error, RuntimeValue::from_guarded, check_resolved_promises do not touch the ledger fields (framed havoc)',
        'WaitGraph::add_context adds one waiting context (its own code is a separate kernel)',
        'id counters are below 2^63',
        'step(idle): no order-suspended context, no ready context, no pending program',
    ]
    rep.outside = ['who puts orders into pending_orders (order syscall)', 'check_resolved_promises / promise combinators', 'cancellation semantics',
                   'the resume half of step']
    cross = []
    validate_against_real(rep)
    check_process_vm_result(rep, cross)
    check_step_idle(rep, cross)
    check_fulfill_orders(rep, cross)
    check_cancel_syscall(rep, cross)
    check_inject_exception(rep, cross)
    from . import c08wg
    c08wg.check(rep, cross)
    rep.cross = driver.cross_check(cross, 300, 'ALL', rep.tier, rep.seed)
    rep.extra['cross_checked_obligations'] = len(cross)


def replay_file(path):
    d = json.load(open(path))
    outs = driver.replay(replay_requests())
    print(json.dumps(outs, indent=1))
    return 1 if any(o.get('protocol_violation') for o in outs) else 0
