"""C08 - the order protocol is exact: ledger hand-over step.

Decided: ONE step of the host-visible state machine from an ARBITRARY ledger state -
Interpreter::process_vm_result (every VmResult variant, payloads opaque) and Interpreter::step entered with no active VM -
on a lazily materialised symbolic Interpreter whose pending_orders / cancelled_orders (abstract vectors of symbolic length),
suspended_for_order (symbolic Option) and wait_graph.contexts (abstract map of symbolic size) are arbitrary.
"""
import json
import re
import time
import z3

from emir import driver
from emir.values import *
from emir.symex import State
from . import common, ledger


KF_STRANDED = 'C08/process_vm_result/complete-strands-cancellations'


def harness(F, ex):
    keep = {F[n] for n in ledger.LEDGER}
    ex.havoc(r'^Interpreter::materialize_thrown_error$', framed={'Interpreter': keep})
    ex.havoc(r'^RuntimeValue::from_guarded$')
    ex.havoc(r'^JsError::internal_error$')
    ex.overrides.append(ledger.add_context_stub(F))


def classify(ex, v):
    """-> ('Ok', step variant name, payload dict) | ('Err', None, None)"""
    if v.discr == 1:
        return 'Err', None, None
    sr = v.payload[0][0]
    names = ex.enum_variants('StepResult')
    return 'Ok', names[sr.discr], sr.payload.get(sr.discr, {})


def check_process_vm_result(rep, cross):
    ex = ledger.setup_executor(6)
    F = ledger.InterpFields(ex)
    harness(F, ex)
    fn = common.fn_name(ex, 'Interpreter', 'process_vm_result')
    st = State()
    a, sym = ledger.fresh_interp(ex, st, F)
    res = ex.fresh(st, 'VmResult', '$vmresult')
    pre = ledger.ledger_of(ex, st, a, F)
    ex.call_function(st, fn, [Ref(a), res])
    ends = ex.run(st)
    if not common.require_clean(rep, ends, 'process_vm_result'):
        rep.absorb(ex)
        return
    vm_names = ex.enum_variants('VmResult')
    sfields = ex.src.enum_fields[('StepResult', 'Suspended')]
    pi, ci = sfields.index('pending'), sfields.index('cancelled')
    n_p, n_c, sus, n_ctx = sym['pending_len'], sym['cancelled_len'], sym['suspended'], sym['contexts_len']
    seen_variants = set()
    for k, e in enumerate(ends):
        kind, var, pl = classify(ex, e.value)
        post = ledger.ledger_of(ex, e.st, a, F)
        goals = []
        vm_is = lambda *names: z3.Or([res.discr == vm_names.index(n) for n in names])
        if kind == 'Err':
            goals.append(('Err only for VmResult::Error / Yield / YieldStar', vm_is('Error', 'Yield', 'YieldStar')))
            goals.append(('Err leaves pending and cancelled orders in the ledger',
                          z3.And(ledger.same_contents(post['pending_orders'], pre['pending_orders']),
                                 ledger.same_contents(post['cancelled_orders'], pre['cancelled_orders']))))
            seen_variants.add('Err')
        elif var == 'Complete':
            seen_variants.add('Complete')
            goals.append(('Complete only when nothing is outstanding', z3.And(n_p == 0, sus == 0, n_ctx == 0)))
            goals.append(('Complete only for VmResult::Complete', vm_is('Complete')))
            goals.append(('Complete never strands a cancellation (cancelled list is empty)', n_c == 0))
            goals.append(('Complete leaves the (empty) pending list and the cancelled list alone',
                          z3.And(ledger.same_contents(post['pending_orders'], pre['pending_orders']),
                                 ledger.same_contents(post['cancelled_orders'], pre['cancelled_orders']))))
        elif var == 'Suspended':
            seen_variants.add('Suspended')
            goals.append(('Suspended hands over exactly the pending orders',
                          ledger.same_contents(pl[pi], pre['pending_orders'])))
            goals.append(('Suspended hands over exactly the cancelled orders',
                          ledger.same_contents(pl[ci], pre['cancelled_orders'])))
            goals.append(('after Suspended the pending list is empty (handed over exactly once)', ledger.is_empty_vec(post['pending_orders'])))
            goals.append(('after Suspended the cancelled list is empty (reported exactly once)', ledger.is_empty_vec(post['cancelled_orders'])))
            post_sus = post['suspended_for_order']
            post_sus_some = (post_sus.discr == 1) if not isinstance(post_sus.discr, int) else z3.BoolVal(post_sus.discr == 1)
            goals.append(('Suspended only when the host can still do something',
                          z3.Or(n_p != 0, post_sus_some, z3.Not(ledger.is_empty_vec(post['contexts'])))))
            goals.append(('Suspended for Complete/Suspend/SuspendForOrder only', vm_is('Complete', 'Suspend', 'SuspendForOrder')))
        else:
            goals.append(('process_vm_result returns Complete, Suspended or Err only', z3.BoolVal(False)))
        for label, g in goals:
            t = time.time()
            r, m = ex.check_sat_pc(e.st.pc, [z3.Not(g)])
            what = 'process_vm_result path %d: %s' % (k, label)
            rep.obligation(what, r, 'any ledger state, any VmResult', time.time() - t)
            if r == 'unsat':
                cross.append((what, list(e.st.pc) + [z3.Not(g)], 'unsat'))
            else:
                report(rep, ex, m, sym, res, vm_names, 'process_vm_result', label)
    for v in ('Err', 'Complete', 'Suspended'):
        if v not in seen_variants:
            rep.inconc('process_vm_result: no feasible path returns %s (vacuity)' % v)
    rep.vacuity.append('process_vm_result: %d feasible paths; outcomes seen: %s' % (len(ends), sorted(seen_variants)))
    rep.sample({'kernel': 'Interpreter::process_vm_result', 'paths': len(ends), 'outcomes': sorted(seen_variants)})
    rep.absorb(ex)


def report(rep, ex, m, sym, res, vm_names, kernel, label):
    ev = lambda e: m.eval(e, model_completion=True).as_long()
    state = dict(pending=ev(sym['pending_len']), cancelled=ev(sym['cancelled_len']), suspended_for_order=bool(ev(sym['suspended'])),
                 waiting_contexts=ev(sym['contexts_len']))
    if res is not None:
        state['vm_result'] = vm_names[ev(res.discr)]
    # replay: drive the real interpreter into a matching ledger state through the public API
    progs = replay_programs(state)
    outs = driver.replay(replay_requests())
    rep.validated += len(outs)
    bad = [o for o in outs if o.get('protocol_violation')]
    p = rep.write_replay('%s' % kernel, {'kernel': kernel, 'violated': label, 'ledger_state': state, 'programs': progs, 'observed': outs})
    key = 'C08/%s/%s' % (kernel, re.sub(r'[^a-z]+', '-', label.lower())[:48])
    if label.startswith('Complete never strands a cancellation'):
        key = KF_STRANDED
    if bad or not progs:
        rep.violation(key, '%s from ledger state %r: %s; real interpreter: %r' % (kernel, state, label, (bad or outs)[:1]), p)
    else:
        rep.violation(key, '%s from ledger state %r violates: %s (symbolic counterexample; scripted host programs %r did not expose it)' % (
            kernel, state, label, progs), p)


def replay_requests():
    """scripted programs for the real interpreter (with what the host must see)"""
    base = 'import { order, __cancelOrder__ } from "tsrun:host";\n'
    progs = [
        (base + 'const a = order({k:1}); const b = order({k:2}); const r = await Promise.all([a, b]); r.length', 2, []),
        (base + 'order({k:1}); 7', 1, []),
        (base + 'const x = await order({k:1}); x', 1, []),
        (base + 'const a = await order({k:1}); __cancelOrder__(1); const b = await order({k:2}); b', 2, [1]),
        (base + 'const a = await order({k:1}); __cancelOrder__(1); 5', 1, [1]),
        (base + 'async function f() { return await order({k:1}); } const p = f(); const q = await order({k:2}); __cancelOrder__(2); (await p) + q', 2, [2]),
    ]
    return [{'cmd': 'order_trace', 'src': s, 'expect_issued': n, 'expect_cancelled': c} for s, n, c in progs]


def replay_programs(state):
    return [r['src'] for r in replay_requests()]


def check_step_idle(rep, cross):
    """Interpreter::step entered with no active VM, nothing ready, no pending program"""
    ex = ledger.setup_executor(6)
    F = ledger.InterpFields(ex)
    harness(F, ex)
    keep = {F[n] for n in ledger.LEDGER}
    ex.havoc(r'^Interpreter::check_resolved_promises$', framed={'Interpreter': keep | {F[n] for n in ledger.RUNSTATE}})
    fn = common.fn_name(ex, 'Interpreter', 'step')
    st = State()
    a, sym = ledger.fresh_interp(ex, st, F)
    iv = st.store[a]
    iv = iv.with_field(F['active_vm'], EnumV('Option<Box<BytecodeVM>>', 0, {}))
    iv = iv.with_field(F['pending_program'], EnumV('Option<PendingProgram>', 0, {}))
    # nothing ready: take_ready returns None (the ready queue is WaitGraph's own subject)
    st.store[a] = iv
    ex.overrides.append((re.compile(r'^WaitGraph::take_ready$'), lambda e, s, c: (e.havoc_used.add('WaitGraph::take_ready (returns None: nothing ready)'), e.ret(s, c, EnumV('Option', 0, {})))[1]))
    st.assume(sym['suspended'] == 0)     # the order-resume half of step is outside this kernel
    pre = ledger.ledger_of(ex, st, a, F)
    ex.call_function(st, fn, [Ref(a)])
    ends = ex.run(st)
    if not common.require_clean(rep, ends, 'step (idle)'):
        rep.absorb(ex)
        return
    n_ctx = sym['contexts_len']
    sfields = ex.src.enum_fields[('StepResult', 'Suspended')]
    pi, ci = sfields.index('pending'), sfields.index('cancelled')
    outcomes = set()
    for k, e in enumerate(ends):
        kind, var, pl = classify(ex, e.value)
        post = ledger.ledger_of(ex, e.st, a, F)
        goals = []
        outcomes.add(var or 'Err')
        if kind == 'Err':
            goals.append(('idle step never fails', z3.BoolVal(False)))
        elif var == 'Done':
            goals.append(('Done only when nothing is outstanding', n_ctx == 0))
            goals.append(('Done leaves the ledger alone', z3.And(ledger.same_contents(post['pending_orders'], pre['pending_orders']),
                                                                 ledger.same_contents(post['cancelled_orders'], pre['cancelled_orders']))))
        elif var == 'Suspended':
            goals.append(('idle Suspended only while contexts are waiting', n_ctx != 0))
            goals.append(('idle Suspended hands over exactly the pending orders', ledger.same_contents(pl[pi], pre['pending_orders'])))
            goals.append(('idle Suspended hands over exactly the cancelled orders', ledger.same_contents(pl[ci], pre['cancelled_orders'])))
            goals.append(('after idle Suspended both lists are empty', z3.And(ledger.is_empty_vec(post['pending_orders']), ledger.is_empty_vec(post['cancelled_orders']))))
        else:
            goals.append(('idle step returns Done or Suspended only', z3.BoolVal(False)))
        for label, g in goals:
            t = time.time()
            r, m = ex.check_sat_pc(e.st.pc, [z3.Not(g)])
            what = 'step(idle) path %d: %s' % (k, label)
            rep.obligation(what, r, 'any ledger state, no active VM, nothing ready', time.time() - t)
            if r == 'unsat':
                cross.append((what, list(e.st.pc) + [z3.Not(g)], 'unsat'))
            else:
                report(rep, ex, m, sym, None, None, 'step-idle', label)
    if not {'Done', 'Suspended'} <= outcomes:
        rep.inconc('step(idle): outcomes %s do not include both Done and Suspended (vacuity)' % sorted(outcomes))
    rep.vacuity.append('step(idle): %d feasible paths; outcomes: %s' % (len(ends), sorted(outcomes)))
    rep.sample({'kernel': 'Interpreter::step with no active VM', 'paths': len(ends), 'outcomes': sorted(outcomes)})
    rep.absorb(ex)


def validate_against_real(rep):
    """scripted host over the real interpreter: the StepResult traces obey the protocol (validates the replay route)"""
    progs = replay_programs({})
    outs = driver.replay(replay_requests())
    for p, o in zip(progs, outs):
        rep.validated += 1
        if o.get('protocol_violation'):
            pth = rep.write_replay('order-trace', {'cmd': 'order_trace', 'src': p, 'observed': o})
            stranded = o['protocol_violation'].startswith('cancellations reported to the host') and o['trace'] and o['trace'][-1] == 'Complete'
            rep.violation(KF_STRANDED if stranded else 'C08/order_trace/scripted-host',
                          'scripted host run violates the protocol: %s (program: %s)' % (o['protocol_violation'], p.split('\n')[-1]), pth)


def run(rep):
    rep.bounds = dict(ledger='any lengths of pending/cancelled orders, any suspended_for_order, any number of waiting contexts',
                      vm_result='any variant, payloads opaque', loops='none')
    rep.assumptions = [
        'materialize_thrown_error, RuntimeValue::from_guarded, check_resolved_promises do not touch the ledger fields (framed havoc)',
        'WaitGraph::add_context adds one waiting context (its own code is a separate kernel)',
        'id counters are below 2^63',
        'step(idle): no order-suspended context, no ready context, no pending program',
    ]
    rep.outside = ['who puts orders into pending_orders (order syscall)', 'check_resolved_promises / promise combinators', 'cancellation semantics',
                   'the resume half of step']
    cross = []
    validate_against_real(rep)
    check_process_vm_result(rep, cross)
    check_step_idle(rep, cross)
    from . import c08wg
    c08wg.check(rep, cross)
    rep.cross = driver.cross_check(cross, 300, 'ALL', rep.tier, rep.seed)
    rep.extra['cross_checked_obligations'] = len(cross)


def replay_file(path):
    d = json.load(open(path))
    outs = driver.replay(replay_requests())
    print(json.dumps(outs, indent=1))
    return 1 if any(o.get('protocol_violation') for o in outs) else 0
