"""Speculative parses rewind completely (C03 K5 / C05 d).

Every `try_parse_*` / `peek_*` function of the parser that takes a lexer checkpoint is executed from its MIR with every other Parser
method and every Lexer method abstracted (arbitrary result, arbitrary effect on the parser; calls recorded as events).  On every
feasible path on which the function DECLINES (returns Ok(None) / the "not a function type" Err / any path of a peek_*), the
observable parser position must be what it was at entry:
  (i)   the last lexer-affecting event is `Lexer::restore(cp)` and cp is the value returned by the FIRST `Lexer::checkpoint()` of the path,
        taken before any token was consumed;
  (ii)  `self.current` is the entry token (object identity of the unmaterialised entry value);
  (iii) if the path cloned the entry `self.previous` in order to save it, `self.previous` is the entry value again.
Otherwise a declined speculation has consumed or re-ordered tokens: `a < b` would parse differently from `a < (b)` and an
annotation could shift how its neighbours parse.  What the speculation itself accepts, and its cost, are outside this kernel.
"""
import re
import time
import z3

from emir import driver
from emir.values import *
from emir.symex import State
from . import common, astb

# function -> how a declining path is recognised
FUNCS = {
    'try_parse_angle_bracket_assertion': 'ok_none',
    'try_parse_call_with_type_args': 'ok_none',
    'try_parse_mapped_type': 'ok_none',
    'try_parse_function_type': 'err_after_restore',
    'peek_is': 'always',
    'peek_is_property_name': 'always',
}

PAIRS = [
    # comparison chains that look like generics / assertions: the declined speculation must leave the tokens where they were
    ('let a = 1, b = 2, c = 3; [a < b, a < b > c, (a) < (b), a<b>c].join()', 'true,false,true,false'),
    ('let o = { get: 1, set: 2, async: 3 }; [o.get, o.set, o.async].join()', '1,2,3'),
    ('type M = { [k: string]: number }; type F = (number); let v: M = { a: 1 }; let w: F = 2; v.a + w', '3.0'),
    ('let f = (x: number) => x + 1; let g = (1, 2); f(g)', '3.0'),
]


READ_ONLY = set()   # Parser methods whose receiver is `&self` in the MIR signature (filled per run from the dump)


def fill_read_only(ex):
    for (ty, trait, method), names in ex._fnkeys.items():
        if ty == 'Parser' and trait is None and len(names) == 1:
            a = ex.mir.get(names[0]).args
            if a and a[0][1].startswith('&Parser'):
                READ_ONLY.add('Parser::' + method)


def touches(call_ev, par):
    a = call_ev[2]
    return bool(a) and isinstance(a[0], Ref) and a[0].addr == par


def _is_ok_none(v):
    try:
        if not (isinstance(v, EnumV) and v.discr == 0):
            return False
        inner = v.payload[0][0]
        return isinstance(inner, EnumV) and inner.discr == 0
    except Exception:
        return False


def _is_err(v):
    return isinstance(v, EnumV) and v.discr == 1


def check(rep, cross, pid):
    nobl = 0
    npaths = 0
    for fname, mode in FUNCS.items():
        ex = common.executor(unwind=3)
        astb.install_rc_models(ex)
        ex.havoc(r'^Parser::(?!%s$)' % fname, framed={'Parser': set()}, only_if=lambda e, s, c: True)
        ex.havoc(r'^Lexer::', framed={'Lexer': set()})
        ex.havoc(r'^JsError::')
        fill_read_only(ex)
        P = {n: i for i, n in enumerate(ex.src.structs['Parser'])}
        try:
            fn = common.fn_name(ex, 'Parser', fname)
        except driver.Inconclusive as e:
            rep.inconc(str(e))
            continue
        st = State()
        par = st.alloc(Agg('struct', 'Parser', {}, lazy=True))
        sig = ex.mir.get(fn)
        args = [Ref(par)]
        for k, (loc, ty) in enumerate(sig.args[1:]):
            args.append(ex.fresh(st, ty, '$arg%d' % k))
        ex.call_function(st, fn, args)
        ends = list(ex.run(st))
        cut = [e for e in ends if e.status == 'bound']
        ends = [e for e in ends if e.status != 'bound']
        if cut:
            # loops over abstracted conditions (argument / member lists) never leave the unwinding bound; they lie after the point where the
            # speculation has committed.  A cut path that had already restored the lexer would be a decline we cannot judge: inconclusive.
            if any(any(ev[0] == 'call' and ev[1] == 'Lexer::restore' for ev in e.st.events) for e in cut):
                rep.inconc('Parser::%s: a path that restored the lexer was cut by the unwinding bound' % fname)
            rep.extra.setdefault('parser_rewind_paths_cut_after_commit', {})[fname] = len(cut)
        if not common.require_clean(rep, ends, 'Parser::%s' % fname):
            continue
        ndecl = 0
        for k, e in enumerate(ends):
            npaths += 1
            evs = e.st.events
            calls = [ev for ev in evs if ev[0] == 'call']
            cks = [i for i, ev in enumerate(calls) if ev[1] == 'Lexer::checkpoint']
            rss = [i for i, ev in enumerate(calls) if ev[1] == 'Lexer::restore']
            restored_early = bool(rss)
            if mode == 'ok_none':
                declines = _is_ok_none(e.value)
            elif mode == 'always':
                declines = True
            else:
                # the "not a function type" error is the one returned after a rollback; an Err propagated from a committed parse is not a decline.
                # A path that builds the decline error WITHOUT restoring is caught by the companion obligation below.
                declines = _is_err(e.value) and (restored_early or any(ev[1].endswith('syntax_error_simple') for ev in calls))
            if not declines:
                continue
            ndecl += 1
            lv = e.st.store[par]
            cur = lv.fields.get(P['current'])
            prev = lv.fields.get(P['previous'])
            first_ck = cks[0] if cks else None
            # (i)
            ok_i = False
            why = 'no Lexer::restore on the path'
            if rss and first_ck is not None:
                last_rs = rss[-1]
                arg = calls[last_rs][2][1] if len(calls[last_rs][2]) > 1 else None
                ck_nm = '$hv:Lexer::checkpoint.1'
                consumed_before_ck = any(c[1].startswith('Parser::') and c[1] not in READ_ONLY and touches(c, par) for c in calls[:first_ck])
                # only calls that are handed the parser / lexer itself can move it
                later = [c[1] for c in calls[last_rs + 1:] if (c[1].startswith('Lexer::') or c[1].startswith('Parser::')) and touches(c, par)]
                later = [c for c in later if c not in READ_ONLY]
                if getattr(arg, 'nm', None) != ck_nm:
                    why = 'the checkpoint handed to Lexer::restore is not the one taken at entry'
                elif consumed_before_ck:
                    why = 'tokens were consumed before the checkpoint was taken'
                elif later:
                    why = 'the parser moves on after the restore (%s)' % later[0]
                else:
                    ok_i = True
            goals = [('lexer restored to the entry checkpoint, nothing consumed afterwards', ok_i, why)]
            # (ii)
            ok_ii = cur is None or getattr(cur, 'nm', None) == '$%d.%d' % (par, P['current'])
            if mode == 'always' and cur is None:
                ok_ii = True
            if cur is None and mode != 'always':
                # never touched since the last abstraction of the parser -> it is whatever the abstracted callee left, not the entry token
                ok_ii = not any(c[1].startswith('Parser::') and c[1] not in READ_ONLY and touches(c, par) for c in calls)
            goals.append(('self.current is the entry token again', ok_ii, 'current = %r' % (cur,)))
            # (iii)
            saved_prev = any(ev[0] == 'clone' and getattr(ev[1], 'nm', None) == '$%d.%d' % (par, P['previous']) for ev in evs)
            if saved_prev:
                ok_iii = getattr(prev, 'nm', None) == '$%d.%d' % (par, P['previous'])
                goals.append(('self.previous (saved at entry) is the entry token again', ok_iii, 'previous = %r' % (prev,)))
            for label, ok, detail in goals:
                nobl += 1
                what = 'Parser::%s declining path %d: %s' % (fname, k, label)
                rep.obligation(what, 'unsat' if ok else 'sat', 'every feasible path; callees abstracted', 0.0, detail=None if ok else detail[:200])
                if not ok:
                    report(rep, pid, fname, label, detail, [c[1] for c in calls])
        if ndecl == 0:
            rep.inconc('Parser::%s: no declining path found among %d paths (kernel vacuous - was the function rewritten?)' % (fname, len(ends)))
        rep.vacuity.append('Parser::%s: %d paths, %d declining' % (fname, len(ends), ndecl))
        rep.absorb(ex)
    rep.sample({'kernel': 'speculative parses rewind completely', 'functions': list(FUNCS), 'paths': npaths, 'obligations': nobl})


def report(rep, pid, fname, label, detail, trace):
    key = '%s/parser/%s/incomplete-rewind' % (pid, fname)
    if rep.seen(key):
        return
    bad = None
    outs = driver.replay([{'cmd': 'eval', 'src': a} for a, b in PAIRS])
    for (a, want), o in zip(PAIRS, outs):
        rep.validated += 1
        got = o.get('value', o.get('error', o.get('panic')))
        if isinstance(got, dict):
            got = got.get('v', got.get('repr'))
        if str(got) != want:
            bad = (a, want, got)
            break
    p = rep.write_replay('parser-rewind-%s' % fname, {'cmd': 'eval', 'src': bad[0] if bad else PAIRS[0][0], 'expected': bad[1] if bad else None,
                                                      'observed': str(bad[2]) if bad else None, 'function': fname, 'obligation': label, 'path': trace[:12]})
    if bad:
        rep.violation(key, 'Parser::%s declines without rewinding completely (%s; %s): %r evaluates to %r, expected %r' % (fname, label, detail[:80], bad[0], bad[2], bad[1]), p)
    else:
        rep.violation(key, 'Parser::%s declines without rewinding completely: %s (%s) on the path %s - a parser STATE counterexample; the witness programs do not show it' % (
            fname, label, detail[:100], ' > '.join(trace[:8])), p)
