"""C19 - all ways of running a program agree: the duplicated result mapping.

Decided (relational): Interpreter::run_vm_to_completion (after its `vm.run(self)` call, whose result is the shared symbolic
VmResult) and Interpreter::process_vm_result are executed from the SAME lazily materialised interpreter state on the SAME
symbolic VmResult; on every pair of jointly feasible paths they must return the same Result<StepResult,_> shape, leave the
same ledger, and make the same calls with the same arguments in the same order (havoc'd callees are one uninterpreted
function in both runs).
"""
import json
import re
import time
import z3

from emir import driver
from emir.values import *
from emir.symex import State
from . import common, ledger, c08


def run_one(which, ex, F, st0, a, res):
    st = st0.clone()
    if which == 'process_vm_result':
        fn = common.fn_name(ex, 'Interpreter', 'process_vm_result')
        ex.call_function(st, fn, [Ref(a), res])
    else:
        fn = common.fn_name(ex, 'Interpreter', 'run_vm_to_completion')
        ex.call_function(st, fn, [Ref(a), Opaque('BytecodeVM', z3.Int('$the_vm'))])
    return ex.run(st)


def shape(ex, v):
    """comparable rendering of Result<StepResult, JsError>"""
    return ledger.render(v)


def run(rep):
    rep.bounds = dict(state='any ledger state', vm_result='any variant, payloads opaque', loops='none')
    rep.assumptions = [
        'BytecodeVM::run returns the shared symbolic VmResult and does not touch the ledger (its effect is the same in both entry points by construction of the comparison)',
        'havoc\'d callees (materialize_thrown_error, RuntimeValue::from_guarded, JsError::internal_error) are the same uninterpreted function in both runs',
        'id counters are below 2^63',
    ]
    rep.outside = ['export finalisation triplication (finalize_module_exports / execute_pending_module / create_source_module_object)',
                   'the C API wrappers', 'vm.run versus repeated vm.step']
    cross = []
    ex = ledger.setup_executor(6)
    F = ledger.InterpFields(ex)
    c08.harness(F, ex)
    st0 = State()
    a, sym = ledger.fresh_interp(ex, st0, F)
    res = ex.fresh(st0, 'VmResult', '$vmresult')
    keep = {F[n] for n in ledger.LEDGER} | {F[n] for n in ledger.RUNSTATE}
    ex.havoc(r'^BytecodeVM::run$', framed={'Interpreter': set(range(len(F.idx)))}, ret=lambda e, s, c: res)
    ends1 = run_one('run_vm_to_completion', ex, F, st0, a, res)
    ends2 = run_one('process_vm_result', ex, F, st0, a, res)
    ok1 = common.require_clean(rep, ends1, 'run_vm_to_completion')
    ok2 = common.require_clean(rep, ends2, 'process_vm_result')
    if not (ok1 and ok2):
        rep.absorb(ex)
        return
    npairs = 0
    base = len(st0.pc)
    vm_names = ex.enum_variants('VmResult')
    for i, e1 in enumerate(ends1):
        for j, e2 in enumerate(ends2):
            pc = list(e1.st.pc) + list(e2.st.pc[base:])
            if not ex.feasible_pc(pc):
                continue
            npairs += 1
            m = ex.last_model
            diffs = []
            s1, s2 = shape(ex, e1.value), shape(ex, e2.value)
            # the returned values are compared structurally after rendering symbolic parts by their (stable) names
            if s1 != s2:
                diffs.append(('returned value', s1, s2))
            ev1 = [e for e in ledger.events_key(ex, e1.st.events) if not (e[0] == 'call' and e[1] == 'BytecodeVM::run')]
            ev2 = ledger.events_key(ex, e2.st.events)
            if ev1 != ev2:
                diffs.append(('calls made', ev1, ev2))
            l1 = {k: ledger.render(v) for k, v in ledger.ledger_of(ex, e1.st, a, F).items()}
            l2 = {k: ledger.render(v) for k, v in ledger.ledger_of(ex, e2.st, a, F).items()}
            if l1 != l2:
                diffs.append(('final ledger', l1, l2))
            for cnt in ('next_context_id', 'next_promise_id'):
                c1 = e1.st.store[a].fields[F[cnt]].e
                c2 = e2.st.store[a].fields[F[cnt]].e
                r, _ = ex.check_sat_pc(pc, [c1 != c2])
                if r == 'sat':
                    diffs.append((cnt, str(z3.simplify(c1)), str(z3.simplify(c2))))
                else:
                    cross.append(('pair %d/%d: %s equal' % (i, j, cnt), pc + [c1 != c2], 'unsat'))
            what = 'pair (run_vm_to_completion path %d, process_vm_result path %d): same result, same calls, same ledger' % (i, j)
            if diffs:
                rep.obligation(what, 'sat', 'any ledger state, any VmResult', 0.0, detail=[d[0] for d in diffs])
                ev = lambda e: m.eval(e, model_completion=True).as_long()
                state = dict(pending=ev(sym['pending_len']), cancelled=ev(sym['cancelled_len']),
                             suspended_for_order=bool(ev(sym['suspended'])), waiting_contexts=ev(sym['contexts_len']),
                             vm_result=vm_names[ev(res.discr)])
                outs = driver.replay([{'cmd': 'eval_vs_step', 'src': p} for p in PROGRAMS])
                rep.validated += len(outs)
                bad = [o for o in outs if o.get('differ')]
                p = rep.write_replay('pair-%d-%d' % (i, j), {'state': state, 'differences': [[d[0], str(d[1])[:600], str(d[2])[:600]] for d in diffs],
                                                              'programs': PROGRAMS, 'observed': outs})
                rep.violation('C19/result-mapping/%s' % re.sub(r'[^a-z]+', '-', diffs[0][0]),
                              'run_vm_to_completion and process_vm_result disagree (%s) for %r%s' % (
                                  ', '.join(d[0] for d in diffs), state, '; real interpreter eval() vs step(): %r' % bad[:1] if bad else ''), p)
            else:
                rep.obligation(what, 'unsat', 'any ledger state, any VmResult', 0.0)
    if npairs == 0:
        rep.inconc('no jointly feasible path pair (vacuity)')
    rep.vacuity.append('%d x %d paths, %d jointly feasible pairs compared' % (len(ends1), len(ends2), npairs))
    rep.sample({'kernel': 'run_vm_to_completion vs process_vm_result', 'paths': [len(ends1), len(ends2)], 'feasible_pairs': npairs})
    rep.absorb(ex)
    # the two public entry points on concrete programs (validates the replay route; also exercises vm.run vs vm.step)
    outs = driver.replay([{'cmd': 'eval_vs_step', 'src': p} for p in PROGRAMS])
    for p_, o in zip(PROGRAMS, outs):
        rep.validated += 1
        if o.get('differ'):
            pth = rep.write_replay('eval-vs-step', {'cmd': 'eval_vs_step', 'src': p_, 'observed': o})
            rep.violation('C19/eval-vs-step/concrete', 'eval() and prepare()+step() disagree on %r: %r' % (p_, o), pth)
    # eval() must leave the interpreter in the same environment as the step route does (which C11 decides for step):
    # on every return path of eval - Ok or Err - the caller's environment is current again
    check_roles(rep)
    check_request_lists(rep, cross)
    from . import c11
    c11.check_env_restoring_functions(rep, cross, specs=[('Interpreter', 'eval', False)], pid='C19')
    rep.cross = driver.cross_check(cross, 300, 'ALL', rep.tier, rep.seed)
    rep.extra['cross_checked_obligations'] = len(cross)


PROGRAMS = [
    '1 + 2',
    'throw new Error("x")',
    'import { order } from "tsrun:host"; const x = await order({k:1}); x',
    'import { order } from "tsrun:host"; order({k:1}); 7',
    'import { order, __cancelOrder__ } from "tsrun:host"; const a = await order({k:1}); __cancelOrder__(1); const b = await order({k:2}); b',
    'const p = new Promise(() => {}); await p',
    'function* g() { yield 1; } const it = g(); it.next().value',
    # the import-request list itself is compared: one file under two spellings, a type-only import next to a value import
    'import { a } from "./utils"; import { b } from "./lib/../utils"; a + b',
    'import type { T } from "./types"; import { v } from "./values"; v',
    # a module that suspends and goes on using its own scope afterwards (eval hands over to step at the first suspension)
    'import { order } from "tsrun:host"; const k = 5; function f(x) { return x + k } const r = await order({a:1}); const s = await order({a:2}); f(r) + s',
]

COUNTER = 'let n = 0; export function bump() { n = n + 1; return n } export { n as count }; export let plain = 1; export function touch() { plain = plain + 1 } export default "counter";'
CONSUMER = 'import d, { bump, count, plain, touch } from "./counter"; bump(); bump(); touch(); [d, count, plain].join(":")'


def check_request_lists(rep, cross):
    """the three copies of the start-up sequence (prepare, eval, setup_vm_from_program) hand the host the SAME kind of request list: what
    dedupe_import_requests returned (or, in setup_vm_from_program, what process_pending_modules collected, which is duplicate-free by
    construction).  The fallback return of setup_vm_from_program after process_pending_modules (modules that are pending but cannot be
    loaded: import cycles, where the list is empty) is outside."""
    from . import ledger
    for meth, allowed in (('prepare', {'deduped'}), ('eval', {'deduped'}), ('setup_vm_from_program', {'deduped', 'ppm'})):
        ex = common.executor(unwind=3)
        ex.auto_havoc = True

        def mk(tag):
            def h(e, s, c):
                k = sum(1 for x in s.events if x[0] == 'listsrc')
                s.event('listsrc', tag)
                n = z3.BitVec('%s_len_%d' % (tag, k), 64)
                s.assume(z3.ULE(n, 1 << 20))
                e.havoc_used.add('Interpreter::%s (returns a tagged abstract list)' % c.norm.split('::')[-1])
                return e.ret(s, c, AbsVec(n, '%s#%d' % (tag, k), 'ImportRequest'))
            return h
        ex.overrides.append((re.compile(r'^Interpreter::dedupe_import_requests$'), mk('deduped')))
        ex.overrides.append((re.compile(r'^Interpreter::filter_missing_imports$'), mk('missing')))
        ex.overrides.append((re.compile(r'^Interpreter::filter_unprovided_imports$'), mk('unprovided')))
        ex.overrides.append((re.compile(r'^Interpreter::collect_import_requests_internal$'), mk('collected')))

        def ppm(e, s, c):
            s.event('listsrc', 'ppm')
            n = z3.BitVec('ppm_len', 64)
            s.assume(z3.ULE(n, 1 << 20))
            return e.ret(s, c, EnumV('Result', z3.BitVec('ppm_res', 64), {0: {0: AbsVec(n, 'ppm#0', 'ImportRequest')}, 1: {0: Opaque('JsError')}}))
        ex.overrides.append((re.compile(r'^Interpreter::process_pending_modules$'), ppm))
        try:
            fn = common.fn_name(ex, 'Interpreter', meth)
        except driver.Inconclusive as err:
            rep.inconc(str(err))
            continue
        f = ex.mir.get(fn)
        st = State()
        st.assume(z3.ULT(z3.BitVec('ppm_res', 64), 2))
        a = st.alloc(Agg('struct', 'Interpreter', {}, lazy=True))
        args = [Ref(a)] + [ex.fresh(st, t, '$a%d' % i) for i, (n_, t) in enumerate(f.args) if i > 0]
        ex.call_function(st, fn, args)
        ends = ex.run(st, max_paths=20000)
        vs = ex.enum_variants('StepResult')
        n_need = 0
        bad = None
        for e in ends:
            if e.status in ('bound', 'panic'):
                continue
            if e.status != 'return':
                rep.inconc('%s: %s %s' % (meth, e.status, e.detail[:140]))
                continue
            v = e.value
            if not (isinstance(v, EnumV) and v.discr == 0):
                continue
            sr = v.payload[0][0]
            if not (isinstance(sr.discr, int) and vs[sr.discr] == 'NeedImports'):
                continue
            lst = sr.payload[sr.discr][0]
            tag = str(getattr(lst, 'tok', '?')).split('#')[0]
            srcs = [x[1] for x in e.st.events if x[0] == 'listsrc']
            if meth == 'setup_vm_from_program' and tag == 'unprovided' and 'ppm' in srcs:
                continue          # the fallback after process_pending_modules (outside, see docstring)
            n_need += 1
            if tag not in allowed and bad is None:
                bad = tag
        what = 'Interpreter::%s: the request list handed to the host went through dedupe_import_requests' % meth
        rep.obligation(what, 'sat' if bad else 'unsat', '%d NeedImports return paths' % n_need, 0.0)
        if bad and not rep.seen('C19/%s/request-list-not-deduplicated' % meth):
            outs = driver.replay([{'cmd': 'eval_vs_step', 'src': PROGRAMS[7]}])
            rep.validated += 1
            p = rep.write_replay('request-list-%s' % meth, {'function': meth, 'list_comes_from': bad, 'observed': outs[0]})
            rep.violation('C19/%s/request-list-not-deduplicated' % meth, '%s returns NeedImports with the list of %s, not the deduplicated one; %r: eval %r, prepare %r' % (
                meth, bad, PROGRAMS[7], outs[0].get('eval'), outs[0].get('step')), p)
        if n_need == 0:
            rep.inconc('%s: no path returns NeedImports (vacuity)' % meth)
        rep.vacuity.append('%s: %d NeedImports paths' % (meth, n_need))
        rep.sample({'kernel': '%s request list' % meth, 'need_imports_paths': n_need})
        rep.absorb(ex)


def check_roles(rep):
    """replay route: a module behaves the same as the entry program and as a host-supplied dependency - the consumer of its exports
    (renamed export, live `let`, default) sees the same values in both roles"""
    dep = driver.replay([{'cmd': 'module_graph', 'entry': '/d/main.ts', 'modules': {'/d/main.ts': CONSUMER, '/d/counter': COUNTER}, 'order': 'forward', 'batch': 'all'}])[0]
    ent = driver.replay([{'cmd': 'seq_graph', 'programs': [{'src': COUNTER, 'path': '/d/counter'}, {'src': CONSUMER, 'path': '/d/main.ts', 'modules': {}}]}])[0]
    rep.validated += 2
    a = (dep.get('outcome') or {}).get('complete', dep.get('outcome'))
    b = (ent['outs'][-1]['shared'].get('outcome') or {}).get('complete', ent['outs'][-1]['shared'].get('outcome'))
    want = {'t': 'string', 'v': 'counter:2:2'}
    if a != want or b != want:
        p = rep.write_replay('roles', {'module': COUNTER, 'consumer': CONSUMER, 'as_dependency': a, 'as_entry_program': b, 'expected': want})
        rep.violation('C19/roles/entry-vs-dependency', 'a consumer of the module sees %r when the module is a host-supplied dependency and %r when it was the entry program (expected %r both times)' % (a, b, want), p)


def replay_file(path):
    d = json.load(open(path))
    outs = driver.replay([{'cmd': 'eval_vs_step', 'src': p} for p in d.get('programs', PROGRAMS)])
    print(json.dumps(outs, indent=1))
    return 1 if any(o.get('differ') for o in outs) else 0
