"""Narrowing casts and size arithmetic in the compiler (C10 c / C05 a).

Every function of src/compiler (outside builder.rs) whose MIR contains an IntToInt cast to u8/u16 is executed symbolically
from its entry with lazily materialised AST arguments: Vec lengths are unconstrained symbolic usize, loops over AST vectors
are abstracted to one arbitrary iteration (index < len), every other Compiler method is havoc'd, BytecodeBuilder is recorded
as events with reserve_registers obeying its C10(a) contract.  Obligations: no feasible arithmetic panic, and on every path
that returns Ok every narrowing cast preserved its value.
"""
import json
import re
import time
import z3

from emir import driver
from emir.values import *
from emir.symex import State, Abort
from . import common, astb, vmarms

REQUIRED = ['compile_array_expression', 'compile_arguments', 'compile_template_literal', 'compile_tagged_template',
            'compile_arrow_expression_body', 'compile_function_body', 'compile_constructor_body',
            'compile_array_pattern_binding', 'compile_array_pattern_assignment']


def gen_program(fn, n):
    """a self-checking program with a construct of size n -> (source, expected value) ; expected None = only 'no panic, no wrong value'"""
    if fn == 'compile_array_expression':
        return ('var live = 7; var a = [' + ','.join(str(i) for i in range(n)) + ']; [a.length, a[%d], live].join()' % (n - 1), '%d,%d,7' % (n, n - 1))
    if fn == 'compile_arguments':
        return ('var live = 7; function f(){ return arguments.length + "," + arguments[%d] } f(%s) + "," + live' % (n - 1, ','.join(str(i) for i in range(n))), '%d,%d,7' % (n, n - 1))
    if fn == 'compile_template_literal':
        return ('var live = 7; var x = 1; var s = `' + ''.join('${x}' for _ in range(n)) + '`; s.length + "," + live', '%d,7' % n)
    if fn == 'compile_tagged_template':
        return ('var live = 7; function t(s, ...v){ return v.length + "," + v[%d] } t`' % (n - 1) + ''.join('${%d}' % i for i in range(n)) + '` + "," + live', '%d,%d,7' % (n, n - 1))
    if fn == 'compile_arrow_expression_body':
        return ('var live = 7; var g = (' + ','.join('p%d' % i for i in range(n)) + ') => p0 + "," + typeof p%d; g(5) + "," + live' % (n - 1), '5,undefined,7')
    if fn == 'compile_function_body':
        return ('var live = 7; function g(' + ','.join('p%d' % i for i in range(n)) + '){ return p0 + "," + typeof p%d } g(5) + "," + live' % (n - 1), '5,undefined,7')
    if fn == 'compile_constructor_body':
        return ('var live = 7; class C { constructor(' + ','.join('p%d' % i for i in range(n)) + '){ this.v = p0 + "," + typeof p%d } } new C(5).v + "," + live' % (n - 1), '5,undefined,7')
    if fn in ('compile_array_pattern_binding', 'compile_array_pattern_assignment'):
        decl = 'var ' if fn.endswith('binding') else 'var r; var ' + ','.join('a%d' % i for i in range(n)) + '; '
        return ('var live = 7; var src = []; for (var i = 0; i < %d; i++) src.push(i); %s[' % (n + 3, decl) + ','.join('a%d' % i for i in range(n)) +
                ', ...r] = src; a%d + "," + r.length + "," + live' % (n - 1), '%d,3,7' % (n - 1))
    if fn.startswith('add_break_jump') or fn.startswith('add_continue_jump'):
        kw = 'break' if 'break' in fn else 'continue'
        src = ("let log = ''; " + "try { " * n + "for (let i = 0; i < 2; i++) { try { %s; } finally { log += 'f'; } } throw 1; " % kw +
               ''.join("} catch (e) { log += 'c%d'; } " % i for i in range(n)) + "log")
        return (src, 'fc0' if kw == 'break' else 'ffc0')
    return None


def targets(ex):
    out = []
    mir = ex.mir
    for name, (s, e) in mir.fn_index.items():
        if 'src/compiler/' not in name or 'builder.rs' in name:
            continue       # closures are included: `.map(|ctx| ctx.try_depth as u8)` narrows inside one
        sites = [ln.strip() for ln in mir.lines[s:e] if re.search(r'= (copy|move) (_\d+) as (u8|u16) \(IntToInt\)', ln)]
        if sites:
            out.append((name, name.split('>::')[-1].replace('::{closure#', '{closure#'), len(sites)))
    return out


def run_function(name, short, unwind=6):
    ex = common.executor(unwind=unwind)
    astb.install_rc_models(ex)
    astb.BuilderStub(ex)
    def is_method(e, s, c):
        # associated functions without a receiver (pure helpers such as register_span) are executed, not havoc'd
        a0 = c.args[0] if c.args else None
        if isinstance(a0, Ref):
            tgt = s.store.get(a0.addr)
            if isinstance(tgt, Lazy):
                return strip_path(tgt.ty).startswith('Compiler')
            return isinstance(tgt, Agg) and tgt.ty.startswith('Compiler')
        if isinstance(a0, Agg) and a0.ty.startswith('Compiler'):
            return True
        # constructors of nested compilers are havoc'd as well
        return c.norm in ('Compiler::new', 'Compiler::default')
    ex.havoc(r'^Compiler::(?!%s$)' % re.escape(short), only_if=is_method)
    ex.havoc(r'^JsError::')
    # shape inspection helpers of the AST: an arbitrary expression comes back (their loops are over the nesting depth of wrappers)
    ex.havoc(r'^Expression::without_type_wrappers$')
    ex.havoc(r'^count_function_bindings$|^hoist::|^collect_|^BytecodeBuilder::')
    # anything else without a model (slice::get_mut on an abstract vector, ...) returns an arbitrary value
    ex.auto_havoc = True
    ex.execute_real = [re.compile(r'.')]       # ...but crate functions that are not abstracted above are still executed for real
    st = State()
    fn = ex.mir.get(name)
    args = [ex.fresh(st, ty, '$arg%d' % i) for i, (a, ty) in enumerate(fn.args)]
    ex.call_function(st, name, args)
    ends = ex.run(st, max_paths=4000)
    return ex, ends


def sizes_in_model(m):
    vals = set()
    for d in m.decls():
        nm = d.name()
        if nm.endswith('_len') or 'len' in nm:
            v = m[d]
            if z3.is_bv_value(v):
                x = v.as_long()
                if 1 <= x <= 70000:
                    vals.add(x)
    return sorted(vals)


def check(rep, cross, pid):
    ex0 = common.executor()
    tl = targets(ex0)
    covered, skipped = [], []
    for name, short, nsites in tl:
        try:
            ex, ends = run_function(name, short)
        except Exception as e:   # Inconclusive from the solver etc.
            skipped.append((short, repr(e)[:120]))
            if short in REQUIRED:
                rep.inconc('narrowing-cast kernel %s: %r' % (short, e))
            continue
        bad = [e for e in ends if e.status not in ('return', 'panic')]
        if bad:
            skipped.append((short, '%s: %s' % (bad[0].status, bad[0].detail[:160])))
            if short in REQUIRED:
                rep.inconc('narrowing-cast kernel %s is not fully encoded: %s %s' % (short, bad[0].status, bad[0].detail[:200]))
            rep.absorb(ex)
            continue
        covered.append(short)
        reported = False
        ncast = 0
        for k, e in enumerate(ends):
            what0 = '%s path %d' % (short, k)
            cex = None
            if e.status == 'panic':
                r, m = ex.check_sat_pc(e.st.pc, [])
                rep.obligation(what0 + ': no arithmetic panic in size computations', 'sat', 'any construct size', 0.0, detail=e.detail[:100])
                cex = (m, 'arithmetic panic: ' + e.detail[:80])
            elif not isinstance(e.value, EnumV) or e.value.discr == 0:
                for ev in e.st.events:
                    if ev[0] != 'cast':
                        continue
                    _, aw, asg, w, s, expr = ev
                    if w >= aw or w > 16:
                        continue
                    ncast += 1
                    trunc = z3.Extract(w - 1, 0, expr)
                    back = z3.SignExt(aw - w, trunc) if (asg and s) else z3.ZeroExt(aw - w, trunc)
                    t = time.time()
                    r, m = ex.check_sat_pc(e.st.pc, [back != expr])
                    what = what0 + ': %s%d -> %s%d cast preserves the value' % ('i' if asg else 'u', aw, 'i' if s else 'u', w)
                    rep.obligation(what, r, 'any construct size', time.time() - t)
                    if r == 'unsat':
                        cross.append((what, list(e.st.pc) + [back != expr], 'unsat'))
                    elif cex is None:
                        cex = (m, 'a size is silently truncated by a narrowing cast (%d -> %d bits)' % (aw, w))
            if cex is not None and not reported:
                reported = report(rep, pid, short, cex[0], cex[1])
        rep.sample({'kernel': 'compiler size arithmetic: ' + short, 'paths': len(ends), 'narrowing_casts_checked': ncast})
        rep.vacuity.append('%s: %d paths' % (short, len(ends)))
        rep.absorb(ex)
    rep.extra['cast_kernels_covered'] = covered
    rep.extra['cast_kernels_not_encoded'] = skipped
    for r_ in REQUIRED:
        if r_ not in [t[1] for t in tl]:
            rep.extra.setdefault('required_kernels_without_casts', []).append(r_)


def report(rep, pid, short, m, label):
    sizes = sizes_in_model(m)
    cands = sorted(set([s for s in sizes if 200 <= s <= 300] + [256, 257, 300]))
    key = '%s/%s/size-arithmetic' % (pid, short)
    tried = []
    for n in cands[:4]:
        g = gen_program(short, n)
        if g is None:
            break
        src, want = g
        outs = [driver.replay([{'cmd': 'eval', 'src': src}], prof, timeout=300)[0] for prof in ('dev', 'release')]
        rep.validated += 2
        obs = []
        bad = False
        for o in outs:
            if 'panic' in o:
                obs.append('panic: ' + o['panic'])
                bad = True
            elif o.get('ok'):
                v = o['value'].get('v', o['value'].get('repr'))
                obs.append(v)
                if v != want:
                    bad = True
            else:
                obs.append('refused: ' + o.get('error', '')[:80])     # an explicit error is an acceptable outcome
        tried.append((n, obs))
        if bad:
            p = rep.write_replay('size-%s' % short, {'cmd': 'eval', 'src': src, 'size': n, 'expected': want, 'observed_dev': obs[0], 'observed_release': obs[1]})
            rep.violation(key, '%s: a %s construct with %d elements gives %r (dev) / %r (release); expected %r or an explicit limit error' % (
                label, short.replace('compile_', ''), n, obs[0], obs[1], want), p)
            return True
    if gen_program(short, 2) is None:
        p = rep.write_replay('size-%s' % short, {'function': short, 'violated': label, 'sizes_in_model': sizes})
        rep.violation(key, '%s in %s (symbolic counterexample, sizes %r; no program generator for this function)' % (label, short, sizes), p)
        return True
    rep.inconc('%s: %s - counterexample sizes %r do not reproduce through the public API (tried %r)' % (short, label, sizes, tried))
    return True
