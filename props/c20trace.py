"""C20(c): BytecodeVM::build_stack_trace - frame order and ip-1 lookups (get_source_location havoc'd per call)."""
import re
import time
import z3

from emir import driver
from emir.values import *
from emir.symex import State
from . import common

BOUNDS = {'quick': 2, 'thorough': 3}


def check(rep, cross):
    nmax = BOUNDS[rep.tier]
    for nframes in range(nmax + 1):
        ex = common.executor(unwind=nmax + 4)
        lookups = []

        def h_lookup(e, s, c):
            e.havoc_used.add('BytecodeChunk::get_source_location (arbitrary Option<Span>; recorded with its chunk and offset)')
            k = sum(1 for ev in s.events if ev[0] == 'lookup')
            found = z3.Bool('found_%d_%d' % (nframes, k))
            line = z3.BitVec('line_%d_%d' % (nframes, k), 32)
            col = z3.BitVec('col_%d_%d' % (nframes, k), 32)
            names = e.src.structs['Span']
            sp = Agg('struct', 'Span', {names.index('line'): Int(line, False), names.index('column'): Int(col, False),
                                        names.index('start'): Int(z3.BitVecVal(0, 64), False), names.index('end'): Int(z3.BitVecVal(0, 64), False)})
            s.event('lookup', c.args[0], c.args[1], found, line, col)
            return e.ret(s, c, e.option_ite(found, sp))
        ex.overrides.append((re.compile(r'^BytecodeChunk::get_source_location$'), h_lookup))
        ex.havoc(r'^<JsString as ToString>::to_string$', ret=lambda e, s, c: e.fresh_str(s, 3, 'fname'))
        fn = common.fn_name(ex, 'BytecodeVM', 'build_stack_trace')
        V = ex.src.structs['BytecodeVM']
        vi = {n: i for i, n in enumerate(V)}
        T = ex.src.structs['TrampolineFrame']
        ti = {n: i for i, n in enumerate(T)}
        st = State()
        ip0 = z3.BitVec('ip_cur', 64)
        frames = []
        fips = []
        chunks = [Opaque('Rc<BytecodeChunk>', z3.Int('$chunk_cur'))]
        for j in range(nframes):
            ipj = z3.BitVec('ip_frame%d' % j, 64)
            fips.append(ipj)
            ch = Opaque('Rc<BytecodeChunk>', z3.Int('$chunk_frame%d' % j))
            chunks.append(ch)
            frames.append(Agg('struct', 'TrampolineFrame', {ti['ip']: Int(ipj, False), ti['chunk']: ch}, lazy=True))
        vm = Agg('struct', 'BytecodeVM', {vi['ip']: Int(ip0, False), vi['chunk']: chunks[0], vi['trampoline_stack']: VecV(frames, 'TrampolineFrame')}, lazy=True)
        a = st.alloc(vm)
        ex.call_function(st, fn, [Ref(a)])
        ends = ex.run(st)
        if not common.require_clean(rep, ends, 'build_stack_trace (%d outer frames)' % nframes):
            rep.absorb(ex)
            continue
        SF = ex.src.structs['StackFrame']
        for k, e in enumerate(ends):
            evs = [ev for ev in e.st.events if ev[0] == 'lookup']
            out = e.value
            goals = []
            # expected lookups: current frame first (ip-1 or 0), then trampoline frames innermost (last pushed) first
            want_ips = [ip0] + list(reversed(fips))
            want_chunks = [chunks[0]] + list(reversed(chunks[1:]))
            ok_n = len(evs) == nframes + 1
            goals.append(('one lookup per active frame, innermost first', z3.BoolVal(ok_n)))
            if ok_n:
                for ev, wip, wch in zip(evs, want_ips, want_chunks):
                    off = ev[2].e
                    goals.append(('lookup uses ip-1 (0 when ip is 0)', off == z3.If(wip == 0, z3.BitVecVal(0, 64), wip - 1)))
                    tgt = ex.load(e.st, ev[1].addr, ev[1].path) if isinstance(ev[1], Ref) else ev[1]
                    # the chunk looked up is the frame's own chunk (identity of the Rc token via the models' rc cache)
                    key = ('rc_target', str(wch.id))
                    goals.append(('lookup goes to the frame\'s own chunk', z3.BoolVal(isinstance(ev[1], Ref) and e.st.extra.get(key) == ev[1].addr)))
                # frames emitted: exactly those whose lookup succeeded, in lookup order, with that lookup's line/column
                if isinstance(out, VecV):
                    found_flags = [ev[3] for ev in evs]
                    items = out.items
                    # on this path each found flag has a definite truth value
                    chosen = []
                    for ev in evs:
                        r, _ = ex.check_sat_pc(e.st.pc, [z3.Not(ev[3])])
                        chosen.append(r == 'unsat')
                    exp = [ev for ev, c in zip(evs, chosen) if c]
                    goals.append(('one stack frame per successful lookup', z3.BoolVal(len(items) == len(exp))))
                    if len(items) == len(exp):
                        for it, ev in zip(items, exp):
                            goals.append(('frame carries the line/column of its own lookup, in innermost-first order',
                                          z3.And(it.fields[SF.index('line')].e == ev[4], it.fields[SF.index('column')].e == ev[5])))
                else:
                    goals.append(('result is a vector of frames', z3.BoolVal(False)))
            for label, g in goals:
                t = time.time()
                r, m = ex.check_sat_pc(e.st.pc, [z3.Not(g)])
                what = 'build_stack_trace (%d outer frames) path %d: %s' % (nframes, k, label)
                rep.obligation(what, r, '<= %d trampoline frames, any ip' % nmax, time.time() - t)
                if r == 'unsat':
                    cross.append((what, list(e.st.pc) + [z3.Not(g)], 'unsat'))
                else:
                    src = 'function a(){ null.x }\nfunction b(){\n  a()\n}\nfunction c(){\n\n  b()\n}\nc()'
                    o = driver.replay([{'cmd': 'eval', 'src': src}])[0]
                    rep.validated += 1
                    p = rep.write_replay('stack-trace', {'cmd': 'eval', 'src': src, 'violated': label, 'observed': o})
                    rep.violation('C20/build_stack_trace/%s' % re.sub(r'[^a-z]+', '-', label.lower())[:40],
                                  'build_stack_trace with %d outer frames: %s fails; a 3-deep failing call prints: %s' % (nframes, label, str(o.get('error'))[:200]), p)
        rep.sample({'kernel': 'BytecodeVM::build_stack_trace', 'outer_frames': nframes, 'paths': len(ends)})
        rep.absorb(ex)
