"""C07 - suspending and resuming is transparent: the save/restore round trip.

Decided: BytecodeVM::save_state followed by BytecodeVM::from_saved_state on a lazily materialised VM (registers, call frames,
scope stack and up to one trampoline frame present; every scalar/handle symbolic): for each field of the VM and of the
trampoline frame, does the value after the round trip equal the value before?  Fields that carry program-visible state must
survive; register_guard / the frame guards are new objects by design; the register and argument pools are caches.
The five fields the current code drops are known findings, each with a program that shows the loss through the public API.
"""
import json
import re
import time
import z3

from emir import driver
from emir.values import *
from emir.symex import State
from . import common, ledger, vmarms

BASE = 'import { order } from "tsrun:host";\n'
# field -> (program that loses it across a host suspension, expected completion value as the replay prints it)
WITNESS = {
    'this_value': (BASE + 'class A { constructor(){ this.x = 5 } async m(){ const v = await order({k:1}); return this.x + v } }\nawait new A().m()', 6.0),
    'pending_completion': (BASE + 'async function f(){ try { return 10 } finally { await order({k:1}) } }\nawait f()', 10.0),
    'exception_value': (BASE + 'async function f(){ try { try { throw new Error("boom") } finally { await order({k:1}) } } catch (e) { return e.message } return "lost" }\nawait f()', 'boom'),
    'saved_env_stack': (BASE + 'async function f(){ let a = 1; { let a = 7; await order({k:1}); } return a }\nawait f()', 1.0),
    'current_constructor': (BASE + 'class B { constructor(){ this.b = 1 } }\nclass A extends B { constructor(){ const v = order({k:1}); super(); this.v = v } }\nconst a = new A(); a.b', 1.0),
    'trampoline_stack.pending_completion': (BASE + 'function g(){ return order({k:1}) }\nfunction f(){ try { return 10 } finally { g() } }\nf()', 10.0),
    'trampoline_stack.exception_value': (BASE + 'function g(){ return order({k:1}) }\nfunction f(){ try { try { throw new Error("boom") } finally { g() } } catch (e) { return e.message } return "lost" }\nf()', 'boom'),
}
MUST_SURVIVE = ['ip', 'chunk', 'registers', 'call_stack', 'try_stack', 'this_value', 'exception_value', 'saved_env_stack', 'arguments',
                'new_target', 'current_constructor', 'pending_completion']
FRAME_MUST_SURVIVE = ['ip', 'chunk', 'registers', 'this_value', 'vm_call_stack', 'try_stack', 'exception_value', 'saved_env_stack', 'arguments',
                      'new_target', 'current_constructor', 'pending_completion', 'return_register', 'saved_interp_env', 'construct_new_obj', 'is_async']
BY_DESIGN = ['register_guard', 'register_pool', 'arguments_pool']


def same(ex, st, a, b):
    """z3 Bool: value a (before) equals value b (after); lazily materialised parts are equal iff they are the same object/name"""
    if a is b:
        return z3.BoolVal(True)
    if isinstance(a, Lazy) or isinstance(b, Lazy):
        a = ex._force(st, a, '$cmp') if isinstance(a, Lazy) else a
        b = ex._force(st, b, '$cmp') if isinstance(b, Lazy) else b
    if isinstance(a, Int) and isinstance(b, Int):
        return a.e == b.e
    if isinstance(a, Bool) and isinstance(b, Bool):
        return a.e == b.e
    if isinstance(a, Float) and isinstance(b, Float):
        return a.e == b.e
    if isinstance(a, Opaque) and isinstance(b, Opaque):
        return a.id == b.id
    if isinstance(a, Unit) and isinstance(b, Unit):
        return z3.BoolVal(True)
    if isinstance(a, VecV) and isinstance(b, VecV):
        if len(a.items) != len(b.items):
            return z3.BoolVal(False)
        return z3.And([same(ex, st, x, y) for x, y in zip(a.items, b.items)] + [z3.BoolVal(True)])
    if isinstance(a, AbsVec) and isinstance(b, AbsVec):
        return z3.BoolVal(a.tok == b.tok)
    if isinstance(a, AbsVec) and isinstance(b, VecV):
        return z3.And(a.n == 0, z3.BoolVal(len(b.items) == 0))
    if isinstance(a, EnumV) and isinstance(b, EnumV):
        if a.lazy and b.lazy and a.nm is not None and b.nm is not None and a.nm != b.nm:
            return z3.BoolVal(False)
        da, db = a.discr_expr(), b.discr_expr()
        cs = [da == db]
        for vi in set(a.payload) | set(b.payload):
            pa, pb = a.payload.get(vi, {}), b.payload.get(vi, {})
            for fi in set(pa) | set(pb):
                if fi in pa and fi in pb:
                    cs.append(z3.Implies(da == vi, same(ex, st, pa[fi], pb[fi])))
                elif a.nm is not None and a.nm == b.nm:
                    pass      # same lazily materialised value, field not read on one side
                else:
                    cs.append(z3.Implies(da == vi, z3.BoolVal(False)))
        return z3.And(cs)
    if isinstance(a, Agg) and isinstance(b, Agg):
        if a.lazy and b.lazy and a.nm is not None and b.nm is not None and a.nm != b.nm:
            return z3.BoolVal(False)      # two different lazily materialised values: nothing makes them equal
        cs = []
        for fi in set(a.fields) | set(b.fields):
            if fi in a.fields and fi in b.fields:
                cs.append(same(ex, st, a.fields[fi], b.fields[fi]))
            elif a.nm is not None and a.nm == b.nm:
                pass
            else:
                return z3.BoolVal(False)
        return z3.And(cs + [z3.BoolVal(True)])
    return z3.BoolVal(False)


def run(rep):
    nframes_list = [0, 1] if rep.tier == 'quick' else [0, 1, 2]
    rep.bounds = dict(registers=1, call_frames=1, scope_stack=1, trampoline_frames='0 and 1 (thorough: also 2)', values='symbolic numbers / object handles')
    rep.assumptions = ['Heap::create_guard returns a fresh guard token; Guard::guard is recorded as an event',
                       'one register, one call frame, one saved scope, at most one trampoline frame (loops over longer vectors repeat the same body)']
    rep.outside = ['host schedules, batching of responses, order of settling independent promises', 'promise combinators', 'generator resumption paths']
    cross = []
    # witnesses through the public API (also the replay route): which losses are observable today
    names = list(WITNESS)
    outs = driver.replay([{'cmd': 'order_trace', 'src': WITNESS[n][0]} for n in names])
    observed_loss = {}
    for n, o in zip(names, outs):
        rep.validated += 1
        v = o.get('value')
        got = None
        if isinstance(v, dict):
            got = vmarms.bits_f64(int(v['bits'], 16)) if v.get('t') == 'number' else v.get('v', v.get('t'))
        if o.get('trace') and isinstance(o['trace'][-1], dict) and 'error' in o['trace'][-1]:
            got = 'error: ' + o['trace'][-1]['error'][:80]
        observed_loss[n] = (got != WITNESS[n][1], got)
    rep.extra['witness_programs'] = {n: dict(expected=WITNESS[n][1], observed=repr(observed_loss[n][1]), lost=observed_loss[n][0]) for n in names}

    for nframes in nframes_list:
        ex = common.executor(unwind=8)
        ex.havoc(r'^Heap::create_guard$', ret=lambda e, s, c: Opaque('Guard<JsObject>'))

        def guard_ev(e, s, c):
            s.event('guard', c.args[0], c.args[1])
            e.havoc_used.add('Guard::guard (event)')
            return e.ret(s, c, UNIT)
        ex.overrides.append((re.compile(r'^Guard::guard$'), guard_ev))
        f_save = common.fn_name(ex, 'BytecodeVM', 'save_state')
        f_rest = common.fn_name(ex, 'BytecodeVM', 'from_saved_state')
        V = {n: i for i, n in enumerate(ex.src.structs['BytecodeVM'])}
        T = {n: i for i, n in enumerate(ex.src.structs['TrampolineFrame'])}
        CF = {n: i for i, n in enumerate(ex.src.structs['CallFrame'])}
        st = State()

        def jsv(name):
            d = z3.BitVec(name + '_k', 64)
            st.assume(z3.Or(d == 0, d == 3, d == 6))
            return EnumV('JsValue', d, {3: {0: Float(z3.FP(name + '_x', F64))}, 6: {0: Opaque('Gc<JsObject>', z3.Int('$' + name + '_obj'))}})

        def gc(name):
            return Opaque('Gc<JsObject>', z3.Int('$' + name))

        def opt(name, ty, payload):
            d = z3.BitVec(name + '_some', 64)
            st.assume(z3.ULT(d, 2))
            return EnumV('Option<%s>' % ty, d, {1: {0: payload}})
        frames = []
        for j in range(nframes):
            frames.append(Agg('struct', 'TrampolineFrame', {
                T['registers']: VecV([jsv('f%d_r0' % j)], 'JsValue'), T['this_value']: jsv('f%d_this' % j), T['saved_env_stack']: VecV([gc('f%d_env' % j)]),
                T['saved_interp_env']: gc('f%d_ienv' % j), T['current_constructor']: opt('f%d_ctor' % j, 'Gc<JsObject>', gc('f%d_ctorobj' % j)),
                T['construct_new_obj']: opt('f%d_new' % j, 'Gc<JsObject>', gc('f%d_newobj' % j)),
                T['vm_call_stack']: VecV([Agg('struct', 'CallFrame', {CF['saved_env']: EnumV('Option<Gc<JsObject>>', 0, {})}, lazy=True, nm='$f%d_cf' % j)]),
                T['try_stack']: VecV([Agg('struct', 'TryHandler', {}, lazy=True, nm='$f%d_try' % j)]),
                T['arguments']: VecV([jsv('f%d_arg' % j)], 'JsValue'), T['new_target']: jsv('f%d_nt' % j),
                T['exception_value']: opt('f%d_exc' % j, 'Guarded', Opaque('Guarded', z3.Int('$f%d_excval' % j))),
                T['pending_completion']: opt('f%d_pc' % j, 'PendingCompletion', Opaque('PendingCompletion', z3.Int('$f%d_pcval' % j))),
            }, lazy=True, nm='$frame%d' % j))
        cframe = Agg('struct', 'CallFrame', {CF['saved_env']: opt('cf_env', 'Gc<JsObject>', gc('cf_envobj'))}, lazy=True, nm='$callframe')
        exc_guarded = Agg('struct', 'Guarded', {0: jsv('exc'), 1: EnumV('Option<Guard<JsObject>>', 0, {})})
        vm = Agg('struct', 'BytecodeVM', {
            V['registers']: VecV([jsv('r0')], 'JsValue'), V['call_stack']: VecV([cframe], 'CallFrame'), V['saved_env_stack']: VecV([gc('scope0')]),
            V['trampoline_stack']: VecV(frames, 'TrampolineFrame'), V['this_value']: jsv('this'), V['arguments']: VecV([jsv('arg0')], 'JsValue'),
            V['try_stack']: VecV([Agg('struct', 'TryHandler', {}, lazy=True, nm='$try0')]), V['new_target']: jsv('nt'), V['exception_value']: opt('exc', 'Guarded', exc_guarded),
            V['current_constructor']: opt('ctor', 'Gc<JsObject>', gc('ctorobj')),
            V['pending_completion']: opt('pc', 'PendingCompletion', Opaque('PendingCompletion', z3.Int('$pcval'))),
        }, lazy=True, nm='$vm')
        a = st.alloc(vm)
        interp = st.alloc(Agg('struct', 'Interpreter', {}, lazy=True))
        ex.call_function(st, f_save, [Ref(a), Ref(interp)])
        ends = ex.run(st)
        if not common.require_clean(rep, ends, 'save_state'):
            rep.absorb(ex)
            continue
        this_arg = jsv('caller_this')      # step() passes the global object here
        npaths = 0
        verdicts = {}
        for e in ends:
            s2 = e.st
            s2.frames = []
            before = s2.store[a]
            heap = s2.alloc(Opaque('Heap<JsObject>'))
            ex.call_function(s2, f_rest, [e.value, this_arg, Opaque('Guard<JsObject>', z3.Int('$resume_guard')), Ref(heap)])
            for e2 in ex.run(s2):
                if e2.status != 'return':
                    rep.inconc('from_saved_state: %s %s' % (e2.status, e2.detail[:160]))
                    continue
                npaths += 1
                after = e2.value
                checks = [(n, before.fields.get(V[n]), after.fields.get(V[n])) for n in MUST_SURVIVE]
                if nframes:
                    fb = before.fields[V['trampoline_stack']].items
                    fa = after.fields[V['trampoline_stack']]
                    if not isinstance(fa, VecV) or len(fa.items) != len(fb):
                        checks.append(('trampoline_stack', VecV(fb), fa))
                    else:
                        for fi_ in range(len(fb)):
                            for n in FRAME_MUST_SURVIVE:
                                checks.append(('trampoline_stack.' + n, fb[fi_].fields.get(T[n]), fa.items[fi_].fields.get(T[n])))
                for n, x, y in checks:
                    if x is None and y is None:
                        continue
                    if x is None or y is None:
                        # never read by either function: identical lazily materialised value unless the constructor set it
                        g = z3.BoolVal(y is None)
                        if y is not None and x is None:
                            x = ex.load(e2.st, a, (('f', V[n], None),)) if '.' not in n else None
                            g = same(ex, e2.st, x, y) if x is not None else z3.BoolVal(False)
                    else:
                        g = same(ex, e2.st, x, y)
                    r, m = ex.check_sat_pc(e2.st.pc, [z3.Not(g)])
                    verdicts.setdefault(n, set()).add(r)
                    if r == 'unsat':
                        cross.append(('round trip preserves %s' % n, list(e2.st.pc) + [z3.Not(g)], 'unsat'))
        for n, vs in sorted(verdicts.items()):
            lost = 'sat' in vs
            what = 'save_state ∘ from_saved_state preserves %s (%d trampoline frame%s)' % (n, nframes, '' if nframes == 1 else 's')
            rep.obligation(what, 'sat' if lost else 'unsat', '%d paths' % npaths, 0.0)
            if lost:
                key = 'C07/save_state/field=%s' % n
                w = WITNESS.get(n)
                if w is not None:
                    is_lost, got = observed_loss[n]
                    p = rep.write_replay('field-%s' % n.replace('.', '-'), {'cmd': 'order_trace', 'src': w[0], 'expected': w[1], 'observed': repr(got)})
                    if is_lost:
                        rep.violation(key, '%s is not restored after a suspension: program gives %r, without suspension %r' % (n, got, w[1]), p)
                    else:
                        rep.violation(key, '%s is not restored by the save/restore round trip (symbolic counterexample; the witness program still gives %r)' % (n, got), p)
                else:
                    p = rep.write_replay('field-%s' % n.replace('.', '-'), {'field': n})
                    rep.violation(key, '%s is not restored by the save/restore round trip (symbolic counterexample on save_state/from_saved_state)' % n, p)
        rep.vacuity.append('round trip with %d trampoline frames: %d path pairs' % (nframes, npaths))
        rep.sample({'kernel': 'save_state -> from_saved_state', 'trampoline_frames': nframes, 'path_pairs': npaths, 'fields_compared': sorted(verdicts)})
        rep.absorb(ex)
    # a witness program that fails although the symbolic round trip found nothing is a violation in its own right
    for n in names:
        if observed_loss[n][0] and ('C07/save_state/field=%s' % n) not in rep.known and not rep.seen('C07/save_state/field=%s' % n) \
                and not any(k == 'C07/save_state/field=%s' % n for k, _ in rep.known_hits):
            p = rep.write_replay('witness-%s' % n.replace('.', '-'), {'cmd': 'order_trace', 'src': WITNESS[n][0], 'expected': WITNESS[n][1], 'observed': repr(observed_loss[n][1])})
            rep.violation('C07/witness/%s' % n, 'program loses state across a host suspension: gives %r, expected %r' % (observed_loss[n][1], WITNESS[n][1]), p)
    rep.cross = driver.cross_check(cross, 300, 'ALL', rep.tier, rep.seed)
    rep.extra['cross_checked_obligations'] = len(cross)


def replay_file(path):
    d = json.load(open(path))
    o = driver.replay([{'cmd': 'order_trace', 'src': d['src']}])[0]
    print(json.dumps(o)[:600])
    return 0
