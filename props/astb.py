"""helpers to build AST-shaped symbolic inputs and to stub BytecodeBuilder for compiler kernels"""
import re
import z3

from emir import driver
from emir.values import *
from emir.models import deref


class AB:
    def __init__(self, ex, st):
        self.ex = ex
        self.st = st

    def struct(self, sname, **fields):
        name = sname
        names = self.ex.src.structs.get(name)
        if names is None:
            raise driver.Inconclusive('struct %s not found in the current source' % name)
        d = {}
        for k, v in fields.items():
            if k not in names:
                raise driver.Inconclusive('struct %s has no field %s (renamed?)' % (name, k))
            d[names.index(k)] = v
        return Agg('struct', name, d, lazy=True)

    def enum(self, ty, variant, *payload, **named):
        vs = self.ex.enum_variants(ty)
        if vs is None or variant not in vs:
            raise driver.Inconclusive('enum %s has no variant %s' % (ty, variant))
        i = vs.index(variant)
        if named:
            fn = self.ex.src.enum_fields[(ty, variant)]
            pl = {fn.index(k): v for k, v in named.items()}
        else:
            pl = {k: v for k, v in enumerate(payload)}
        return EnumV(ty, i, {i: pl})

    def some(self, v):
        return EnumV('Option', 1, {1: {0: v}})

    def none(self):
        return EnumV('Option', 0, {})

    def box(self, v):
        return self.ex.mk_box(Ref(self.st.alloc(v)))

    def rc(self, v):
        return Agg('rc', 'Rc', {0: Ref(self.st.alloc(v))})

    def ref(self, v):
        return Ref(self.st.alloc(v))

    def jsstring(self, tag):
        return Opaque('JsString', z3.Int('$str_' + tag), tag)

    def ident(self, tag):
        return self.struct('Identifier', name=self.jsstring(tag))

    def number_literal(self, x):
        lit = self.struct('Literal', value=self.enum('LiteralValue', 'Number', Float(x)))
        return self.enum('Expression', 'Literal', self.box(lit))


def install_rc_models(ex):
    def rc_deref(e, s, c):
        v = deref(e, s, c.args[0])
        if isinstance(v, Agg) and v.kind == 'rc':
            e.models_used.add('<Rc<T> as Deref>::deref')
            return e.ret(s, c, v.fields[0])
        return None
    ex.overrides.append((re.compile(r'^<Rc<.*> as Deref>::deref$|^<Rc<.*> as AsRef<.*>>::as_ref$'), rc_deref))


class BuilderStub:
    """BytecodeBuilder's methods recorded as events (the builder itself is checked in C10/C20)"""

    def __init__(self, ex, alloc_can_fail=False):
        self.ex = ex
        o = ex.overrides
        o.append((re.compile(r'^BytecodeBuilder::emit$'), self.emit))
        o.append((re.compile(r'^BytecodeBuilder::alloc_register$'), self.alloc))
        o.append((re.compile(r'^BytecodeBuilder::reserve_registers$'), self.reserve))
        o.append((re.compile(r'^BytecodeBuilder::free_register$'), self.ev_unit('free_register')))
        o.append((re.compile(r'^BytecodeBuilder::set_span$'), self.ev_unit('set_span')))
        o.append((re.compile(r'^BytecodeBuilder::clear_span$'), self.ev_unit('clear_span')))
        o.append((re.compile(r'^BytecodeBuilder::add_string$'), self.add_const('add_string')))
        o.append((re.compile(r'^BytecodeBuilder::add_number$'), self.add_const('add_number')))
        o.append((re.compile(r'^BytecodeBuilder::add_constant$'), self.add_const('add_constant')))
        o.append((re.compile(r'^BytecodeBuilder::emit_load_string$'), self.ev_ok('emit_load_string')))
        o.append((re.compile(r'^BytecodeBuilder::emit_load_number$'), self.ev_ok('emit_load_number')))

    def note(self, name):
        self.ex.havoc_used.add('BytecodeBuilder::%s (recorded as an event)' % name)

    def emit(self, ex, st, call):
        self.note('emit')
        k = sum(1 for e in st.events if e[0] == 'emit')
        st.event('emit', call.args[1])
        return ex.ret(st, call, Int(z3.BitVecVal(k, 64), False))

    def alloc(self, ex, st, call):
        self.note('alloc_register')
        k = st.extra.get('next_reg', 0)
        st.extra['next_reg'] = k + 1
        st.event('alloc_register', k)
        return ex.ret(st, call, EnumV('Result', 0, {0: {0: Int(z3.BitVecVal(k, 8), False)}}))

    def reserve(self, ex, st, call):
        self.note('reserve_registers')
        cnt = call.args[1]
        st.event('reserve_registers', cnt)
        start = z3.BitVec(fresh_name('range_start'), 8)
        # contract of reserve_range (C10a): Ok(start) with start + count <= 255, or Err
        ok = z3.Bool(fresh_name('reserve_ok'))
        d = z3.If(ok, z3.BitVecVal(0, 64), z3.BitVecVal(1, 64))
        st.assume(z3.Implies(ok, z3.ULE(z3.ZeroExt(1, start) + z3.ZeroExt(1, cnt.e), 255)))
        return ex.ret(st, call, EnumV('Result', d, {0: {0: Int(start, False)}, 1: {0: Opaque('JsError')}}))

    def ev_unit(self, name):
        def h(ex, st, call):
            self.note(name)
            st.event(name, tuple(call.args[1:]))
            return ex.ret(st, call, UNIT)
        return h

    def ev_ok(self, name):
        def h(ex, st, call):
            self.note(name)
            st.event(name, tuple(call.args[1:]))
            return ex.ret(st, call, EnumV('Result', 0, {0: {0: UNIT}}))
        return h

    def add_const(self, name):
        def h(ex, st, call):
            self.note(name)
            st.event(name, tuple(call.args[1:]))
            k = sum(1 for e in st.events if e[0] in ('add_string', 'add_number', 'add_constant'))
            return ex.ret(st, call, EnumV('Result', 0, {0: {0: Int(z3.BitVecVal(1000 + k, 16), False)}}))
        return h
