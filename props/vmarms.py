"""Shared harness: one arm of BytecodeVM::execute_op executed from the function's entry with a concrete Op
variant and symbolic primitive operands; ECMAScript oracles in SMT and their concrete twins."""
import math
import re
import struct
import z3

from emir import driver
from emir.values import *
from emir.symex import State, Abort, PathEnd
from . import common

PRIMS = ['Undefined', 'Null', 'Boolean', 'Number']   # JsValue variants 0..3


# ------------------------------------------------------------------------------------------------
# SMT oracles (written over the IEEE-754 bit fields, independent of fpToSBV)
# ------------------------------------------------------------------------------------------------
def to_uint32_bits(bits):
    """ECMAScript ToUint32 of the double with IEEE-754 bit pattern `bits` (BitVec 64) -> BitVec 32
    (ToInt32 is the same bits read as signed)"""
    sign = z3.Extract(63, 63, bits)
    e = z3.Extract(62, 52, bits)
    m = z3.Extract(51, 0, bits)
    E = z3.ZeroExt(53, e) - z3.BitVecVal(1023, 64)                # unbiased exponent (only used when e >= 1023)
    M = z3.Concat(z3.BitVecVal(1, 12), m)                          # 1.m as a 64-bit integer (53 significant bits)
    small = z3.ULT(e, z3.BitVecVal(1023, 11))                      # |x| < 1  (includes zeros and subnormals)
    special = e == z3.BitVecVal(0x7FF, 11)                         # NaN, +-Infinity
    right = z3.LShR(M, z3.BitVecVal(52, 64) - E)                   # E <= 52: integer part
    left = z3.Extract(31, 0, M) << z3.Extract(31, 0, E - z3.BitVecVal(52, 64))   # 52 < E < 84: only low 32 bits matter
    mag = z3.If(z3.ULE(E, z3.BitVecVal(52, 64)), z3.Extract(31, 0, right),
                z3.If(z3.ULT(E, z3.BitVecVal(84, 64)), left, z3.BitVecVal(0, 32)))
    val = z3.If(sign == 1, -mag, mag)
    return z3.If(z3.Or(small, special), z3.BitVecVal(0, 32), val)


def to_number(v_kind, b, x):
    """ToNumber on the primitive kinds: kind index (python int), boolean payload, number payload"""
    if v_kind == 0:
        return z3.fpNaN(F64)
    if v_kind == 1:
        return z3.FPVal(0.0, F64)
    if v_kind == 2:
        return z3.If(b, z3.FPVal(1.0, F64), z3.FPVal(0.0, F64))
    return x


def i32_to_f64(bv):
    return z3.fpSignedToFP(RNE, bv, F64)


def u32_to_f64(bv):
    return z3.fpUnsignedToFP(RNE, bv, F64)


# concrete twins ---------------------------------------------------------------------------------
def py_to_uint32(x):
    if math.isnan(x) or math.isinf(x):
        return 0
    return int(math.trunc(x)) % (1 << 32)


def py_to_int32(x):
    u = py_to_uint32(x)
    return u - (1 << 32) if u >= (1 << 31) else u


def f64_bits(x):
    return struct.unpack('<Q', struct.pack('<d', x))[0]


def bits_f64(b):
    return struct.unpack('<d', struct.pack('<Q', b))[0]


def oracle_selftest():
    """fixed vectors from the specification text (ToInt32 / ToUint32 examples and boundaries)"""
    vecs = [0.0, -0.0, 1.0, -1.0, 1.5, -1.5, 2147483647.0, 2147483648.0, -2147483648.0, -2147483649.0, 4294967295.0,
            4294967296.0, 4294967297.0, 1e21, -1e21, 2.0 ** 52, 2.0 ** 53 + 2, 2.0 ** 83, 2.0 ** 84, 2.0 ** 63, 3e300, 5e-324,
            0.9999999, float('nan'), float('inf'), float('-inf'), 6442450944.0, -4294967297.5, 2.04e65]
    for v in vecs:
        got = z3.simplify(to_uint32_bits(z3.BitVecVal(f64_bits(v), 64))).as_long()
        if got != py_to_uint32(v):
            raise driver.Inconclusive('oracle self-test: ToUint32(%r) SMT %d, arithmetic %d' % (v, got, py_to_uint32(v)))
    return len(vecs)


def js_literal(kind, b, xbits):
    if kind == 0:
        return 'undefined'
    if kind == 1:
        return 'null'
    if kind == 2:
        return 'true' if b else 'false'
    x = bits_f64(xbits)
    if math.isnan(x):
        return 'NaN'
    if math.isinf(x):
        return 'Infinity' if x > 0 else '(-Infinity)'
    if x == 0 and math.copysign(1, x) < 0:
        return '(-0)'
    r = repr(x)
    if r.startswith('-'):
        return '(' + r + ')'
    return r


# ------------------------------------------------------------------------------------------------
# harness
# ------------------------------------------------------------------------------------------------
class ArmHarness:
    def __init__(self, ex, rep):
        self.ex = ex
        self.rep = rep
        self.fn = common.fn_name(ex, 'BytecodeVM', 'execute_op')
        # guard bookkeeping of set_reg is C02's subject; here it is recorded as events only
        ex.overrides.append((re.compile(r'^Guard::guard$|^Guard::unguard$'), self._guard_event))

    def _guard_event(self, ex, st, call):
        st.event(call.norm, call.args[1:])
        ex.havoc_used.add(call.norm + ' (event only)')
        return ex.ret(st, call, Bool(z3.Bool(fresh_name('unguard'))) if call.norm.endswith('unguard') else UNIT)

    def operand(self, st, name):
        """a symbolic primitive JsValue: (EnumV, kind discr expr, bool payload, f64 payload)"""
        d = z3.BitVec(fresh_name(name + '_kind'), 64)
        st.assume(z3.ULT(d, 4))
        b = z3.Bool(fresh_name(name + '_b'))
        xbits = z3.BitVec(fresh_name(name + '_bits'), 64)      # every IEEE-754 bit pattern, NaN payloads included
        x = z3.fpBVToFP(xbits, F64)
        v = EnumV('JsValue', d, {2: {0: Bool(b)}, 3: {0: Float(x)}})
        return v, d, b, xbits

    def run_arm(self, opname, nops, extra_fields=None):
        """execute the arm for Op::<opname>{dst:0, left/src:1, right:2}; -> (ends, operands, state0)"""
        ex = self.ex
        st = State()
        fields = ex.src.enum_fields[('Op', opname)]
        ops = [self.operand(st, 'r%d' % (i + 1)) for i in range(nops)]
        regs = [EnumV('JsValue', 0, {})] + [o[0] for o in ops]
        while len(regs) < 4:
            regs.append(EnumV('JsValue', 0, {}))
        vm = Agg('struct', 'BytecodeVM', {2: VecV(regs, 'JsValue')}, lazy=True)
        a_vm = st.alloc(vm)
        a_in = st.alloc(Agg('struct', 'Interpreter', {}, lazy=True))
        pl = {}
        for i, f in enumerate(fields):
            pl[i] = Int(z3.BitVecVal(i, 8), False)
        if extra_fields:
            pl.update(extra_fields)
        op = EnumV('Op', ex.variant_index('Op', opname), {ex.variant_index('Op', opname): pl})
        ex.call_function(st, self.fn, [Ref(a_vm), Ref(a_in), op])
        ends = ex.run(st)
        return ends, ops, a_vm

    def result_reg(self, e, a_vm, r=0):
        vm = e.st.store[a_vm]
        return vm.fields[2].items[r]


# ------------------------------------------------------------------------------------------------
# generic arm obligation
# ------------------------------------------------------------------------------------------------
NAN_BITS = z3.BitVecVal(0x7ff8000000000000, 64)
ONE_BITS = z3.BitVecVal(0x3ff0000000000000, 64)
ZERO_BITS = z3.BitVecVal(0, 64)


def sym_to_number_bits(d, b, xbits):
    """ToNumber of a primitive operand, as an IEEE bit pattern"""
    return z3.If(d == 0, NAN_BITS, z3.If(d == 1, ZERO_BITS, z3.If(d == 2, z3.If(b, ONE_BITS, ZERO_BITS), xbits)))


def sym_to_number_fp(d, b, xbits):
    return z3.If(d == 0, z3.fpNaN(F64), z3.If(d == 1, z3.FPVal(0.0, F64),
                 z3.If(d == 2, z3.If(b, z3.FPVal(1.0, F64), z3.FPVal(0.0, F64)), z3.fpBVToFP(xbits, F64))))


def py_to_number(kind, b, x):
    return [float('nan'), 0.0, 1.0 if b else 0.0, x][kind]


def model_operand(m, o):
    _, d, b, xbits = o
    kind = m.eval(d, model_completion=True).as_long()
    bv = z3.is_true(m.eval(b, model_completion=True))
    bits = m.eval(xbits, model_completion=True).as_long()
    return kind, bv, bits


def same_js(a, b):
    """concrete comparison of two results (floats: NaN == NaN, +0 != -0; bools)"""
    if isinstance(a, float) and isinstance(b, float):
        if math.isnan(a) or math.isnan(b):
            return math.isnan(a) and math.isnan(b)
        return a == b and math.copysign(1, a) == math.copysign(1, b)
    return a == b and type(a) == type(b)


def reply_value(o):
    if 'panic' in o:
        return 'panic: ' + o['panic']
    if o.get('ok') and 'value' in o:
        v = o['value']
        if v['t'] == 'number':
            return bits_f64(int(v['bits'], 16))
        if v['t'] == 'boolean':
            return bool(v['v'])
        return v['t']
    return repr(o)


def check_arm(rep, ex, h, pid, name, nops, oracle, js_src, py_oracle, cross, domain_txt):
    """oracle(ops) -> ('int', bv32, signed) | ('fp', fp term) | ('bool', z3 Bool)   over operands ops=[(v,d,b,xbits)]
    js_src(literals) -> program text;  py_oracle(py operand values (kind,b,float)) -> float|bool"""
    ends, ops, a_vm = h.run_arm(name, nops)
    key = '%s/execute_op/%s/wrong-result' % (pid, name)
    state = {'reported': False}

    def concrete_cex(m, what):
        mo = [model_operand(m, o) for o in ops]
        lits = [js_literal(*x) for x in mo]
        src = js_src(lits)
        want = py_oracle([(kd, bb, bits_f64(xb)) for kd, bb, xb in mo])
        outs = [driver.replay([{'cmd': 'eval', 'src': src}], prof)[0] for prof in ('dev', 'release')]
        rep.validated += 2
        gots = [reply_value(o) for o in outs]
        if same_js(gots[0], want) and same_js(gots[1], want):
            rep.inconc('%s: counterexample %s does not reproduce on the real build (got %r)' % (what, src, gots))
            return
        p = rep.write_replay('arm-%s' % name, {'cmd': 'eval', 'src': src, 'expected': repr(want), 'observed_dev': repr(gots[0]),
                                               'observed_release': repr(gots[1])})
        rep.violation(key, '%s evaluates to %r (dev) / %r (release), ECMAScript says %r' % (src, gots[0], gots[1], want), p)

    panics = [e for e in ends if e.status == 'panic']
    for e in panics[:1]:
        r, m = ex.check_sat_pc(e.st.pc, [])
        rep.obligation('arm %s: no arithmetic panic (%s)' % (name, e.detail[:80]), 'sat', domain_txt, 0.0)
        concrete_cex(m, 'arm %s panic path' % name)
        state['reported'] = True
    ends = [e for e in ends if e.status != 'panic']
    if not common.require_clean(rep, ends, 'arm ' + name):
        return
    rep.vacuity.append('arm %s: %d feasible paths reach the assertion' % (name, len(ends)))
    for k, e in enumerate(ends):
        res = h.result_reg(e, a_vm)
        exp = oracle(ops)
        okret = isinstance(e.value, EnumV) and e.value.discr == 0 and e.value.payload[0][0].discr == 0
        if not okret or not isinstance(res.discr, int):
            rep.inconc('arm %s path %d: unexpected result shape %r / %r' % (name, k, e.value, res))
            continue
        if exp[0] == 'bool':
            if res.discr != 2:
                neq = z3.BoolVal(True)
            else:
                neq = res.payload[2][0].e != exp[1]
        else:
            if res.discr != 3:
                neq = z3.BoolVal(True)
            else:
                gotv = res.payload[3][0]
                if exp[0] == 'int':
                    ebv, esigned = exp[1], exp[2]
                    if gotv.src is not None and gotv.src[1] == esigned and gotv.src[0].size() == 32:
                        neq = gotv.src[0] != ebv       # i32/u32 -> f64 is exact and injective
                    else:
                        neq = z3.Not(gotv.e == (i32_to_f64(ebv) if esigned else u32_to_f64(ebv)))
                else:
                    neq = z3.Not(gotv.e == exp[1])
        import time as _t
        t = _t.time()
        r, m = ex.check_sat_pc(e.st.pc, [neq])
        what = 'arm %s path %d: result register == ECMAScript' % (name, k)
        rep.obligation(what, r, domain_txt, _t.time() - t)
        if r == 'unsat':
            cross.append((what, list(e.st.pc) + [neq], 'unsat'))
        elif not state['reported']:
            state['reported'] = True
            concrete_cex(m, what)
    rep.sample({'kernel': 'execute_op arm ' + name, 'paths': len(ends), 'operands': domain_txt})
