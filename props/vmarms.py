"""Shared harness: one arm of BytecodeVM::execute_op executed from the function's entry with a concrete Op
variant and symbolic primitive operands; ECMAScript oracles in SMT and their concrete twins."""
import math
import re
import struct
import z3

from emir import driver
from emir.values import *
from emir.symex import State, Abort, PathEnd
from . import common

PRIMS = ['Undefined', 'Null', 'Boolean', 'Number']   # JsValue variants 0..3


# ------------------------------------------------------------------------------------------------
# SMT oracles (written over the IEEE-754 bit fields, independent of fpToSBV)
# ------------------------------------------------------------------------------------------------
def to_uint32_bits(bits):
    """ECMAScript ToUint32 of the double with IEEE-754 bit pattern `bits` (BitVec 64) -> BitVec 32
    (ToInt32 is the same bits read as signed)"""
    sign = z3.Extract(63, 63, bits)
    e = z3.Extract(62, 52, bits)
    m = z3.Extract(51, 0, bits)
    E = z3.ZeroExt(53, e) - z3.BitVecVal(1023, 64)                # unbiased exponent (only used when e >= 1023)
    M = z3.Concat(z3.BitVecVal(1, 12), m)                          # 1.m as a 64-bit integer (53 significant bits)
    small = z3.ULT(e, z3.BitVecVal(1023, 11))                      # |x| < 1  (includes zeros and subnormals)
    special = e == z3.BitVecVal(0x7FF, 11)                         # NaN, +-Infinity
    right = z3.LShR(M, z3.BitVecVal(52, 64) - E)                   # E <= 52: integer part
    left = z3.Extract(31, 0, M) << z3.Extract(31, 0, E - z3.BitVecVal(52, 64))   # 52 < E < 84: only low 32 bits matter
    mag = z3.If(z3.ULE(E, z3.BitVecVal(52, 64)), z3.Extract(31, 0, right),
                z3.If(z3.ULT(E, z3.BitVecVal(84, 64)), left, z3.BitVecVal(0, 32)))
    val = z3.If(sign == 1, -mag, mag)
    return z3.If(z3.Or(small, special), z3.BitVecVal(0, 32), val)


def to_number(v_kind, b, x):
    """ToNumber on the primitive kinds: kind index (python int), boolean payload, number payload"""
    if v_kind == 0:
        return z3.fpNaN(F64)
    if v_kind == 1:
        return z3.FPVal(0.0, F64)
    if v_kind == 2:
        return z3.If(b, z3.FPVal(1.0, F64), z3.FPVal(0.0, F64))
    return x


def i32_to_f64(bv):
    return z3.fpSignedToFP(RNE, bv, F64)


def u32_to_f64(bv):
    return z3.fpUnsignedToFP(RNE, bv, F64)


# concrete twins ---------------------------------------------------------------------------------
def py_to_uint32(x):
    if math.isnan(x) or math.isinf(x):
        return 0
    return int(math.trunc(x)) % (1 << 32)


def py_to_int32(x):
    u = py_to_uint32(x)
    return u - (1 << 32) if u >= (1 << 31) else u


def f64_bits(x):
    return struct.unpack('<Q', struct.pack('<d', x))[0]


def bits_f64(b):
    return struct.unpack('<d', struct.pack('<Q', b))[0]


def oracle_selftest():
    """fixed vectors from the specification text (ToInt32 / ToUint32 examples and boundaries)"""
    vecs = [0.0, -0.0, 1.0, -1.0, 1.5, -1.5, 2147483647.0, 2147483648.0, -2147483648.0, -2147483649.0, 4294967295.0,
            4294967296.0, 4294967297.0, 1e21, -1e21, 2.0 ** 52, 2.0 ** 53 + 2, 2.0 ** 83, 2.0 ** 84, 2.0 ** 63, 3e300, 5e-324,
            0.9999999, float('nan'), float('inf'), float('-inf'), 6442450944.0, -4294967297.5, 2.04e65]
    for v in vecs:
        got = z3.simplify(to_uint32_bits(z3.BitVecVal(f64_bits(v), 64))).as_long()
        if got != py_to_uint32(v):
            raise driver.Inconclusive('oracle self-test: ToUint32(%r) SMT %d, arithmetic %d' % (v, got, py_to_uint32(v)))
    return len(vecs)


def js_literal(kind, b, xbits):
    if kind == 0:
        return 'undefined'
    if kind == 1:
        return 'null'
    if kind == 2:
        return 'true' if b else 'false'
    x = bits_f64(xbits)
    if math.isnan(x):
        return 'NaN'
    if math.isinf(x):
        return 'Infinity' if x > 0 else '(-Infinity)'
    if x == 0 and math.copysign(1, x) < 0:
        return '(-0)'
    r = repr(x)
    if r.startswith('-'):
        return '(' + r + ')'
    return r


# ------------------------------------------------------------------------------------------------
# harness
# ------------------------------------------------------------------------------------------------
class ArmHarness:
    def __init__(self, ex, rep):
        self.ex = ex
        self.rep = rep
        self.fn = common.fn_name(ex, 'BytecodeVM', 'execute_op')
        # guard bookkeeping of set_reg is C02's subject; here it is recorded as events only
        ex.overrides.append((re.compile(r'^Guard::guard$|^Guard::unguard$'), self._guard_event))

    def _guard_event(self, ex, st, call):
        st.event(call.norm, call.args[1:])
        ex.havoc_used.add(call.norm + ' (event only)')
        return ex.ret(st, call, Bool(z3.Bool(fresh_name('unguard'))) if call.norm.endswith('unguard') else UNIT)

    def operand(self, st, name):
        """a symbolic primitive JsValue: (EnumV, kind discr expr, bool payload, f64 payload)"""
        d = z3.BitVec(fresh_name(name + '_kind'), 64)
        st.assume(z3.ULT(d, 4))
        b = z3.Bool(fresh_name(name + '_b'))
        xbits = z3.BitVec(fresh_name(name + '_bits'), 64)      # every IEEE-754 bit pattern, NaN payloads included
        x = z3.fpBVToFP(xbits, F64)
        v = EnumV('JsValue', d, {2: {0: Bool(b)}, 3: {0: Float(x)}})
        return v, d, b, xbits

    def run_arm(self, opname, nops, extra_fields=None):
        """execute the arm for Op::<opname>{dst:0, left/src:1, right:2}; -> (ends, operands, state0)"""
        ex = self.ex
        st = State()
        fields = ex.src.enum_fields[('Op', opname)]
        ops = [self.operand(st, 'r%d' % (i + 1)) for i in range(nops)]
        regs = [EnumV('JsValue', 0, {})] + [o[0] for o in ops]
        while len(regs) < 4:
            regs.append(EnumV('JsValue', 0, {}))
        vm = Agg('struct', 'BytecodeVM', {2: VecV(regs, 'JsValue')}, lazy=True)
        a_vm = st.alloc(vm)
        a_in = st.alloc(Agg('struct', 'Interpreter', {}, lazy=True))
        pl = {}
        for i, f in enumerate(fields):
            pl[i] = Int(z3.BitVecVal(i, 8), False)
        if extra_fields:
            pl.update(extra_fields)
        op = EnumV('Op', ex.variant_index('Op', opname), {ex.variant_index('Op', opname): pl})
        ex.call_function(st, self.fn, [Ref(a_vm), Ref(a_in), op])
        ends = ex.run(st)
        return ends, ops, a_vm

    def result_reg(self, e, a_vm, r=0):
        vm = e.st.store[a_vm]
        return vm.fields[2].items[r]
