"""C16 - data crosses the JSON boundary without loss: property-key canonicalisation only.

Decided, for EVERY string of up to 11 (quick 6) bytes over the alphabet {0-9,+,-,.,e,space} and for every f64:
  * PropertyKey::from_value(String(s)) is Index(i) iff s is the canonical decimal spelling of i in [0, 2^32-1]
    (no sign, no leading zero, no overflow), otherwise String(s) with the same string token - so no key is rewritten
    ("01", "+1", "4294967296", "-0" stay strings) and the map from strings to keys is injective;
  * the four routes from a value to a key - PropertyKey::from_value, Interpreter::property_key(&str),
    Interpreter::property_key_from_js_string, Interpreter::property_key_from_value - return the same key kind and index.
serde_json text<->tree, tree<->heap conversion, cycle detection and string escapes are outside the claim.
"""
import json
import random
import re
import time
import z3

from emir import driver
from emir.values import *
from emir.strings import *
from emir.symex import State
from emir.models import deref
from . import common, vmarms

ALPHA = b'0123456789+-.e '
CAP = {'quick': 6, 'thorough': 11}


def canonical_index(s):
    """z3: (is canonical array-index spelling, value as BitVec 64) for a bounded string"""
    n = s.n
    alld = z3.BoolVal(True)
    val = z3.BitVecVal(0, 64)
    for i in range(s.cap):
        act = z3.ULT(bv(i), n)
        isd = z3.And(z3.UGE(s.bytes[i], 48), z3.ULE(s.bytes[i], 57))
        alld = z3.And(alld, z3.Or(z3.Not(act), isd))
        val = z3.If(act, val * 10 + z3.ZeroExt(56, s.bytes[i] - 48), val)
    no_lead0 = z3.Or(n == 1, s.bytes[0] != 48) if s.cap > 0 else z3.BoolVal(False)
    ok = z3.And(z3.UGE(n, 1), z3.ULE(n, 10), alld, no_lead0, z3.ULE(val, 0xFFFFFFFF))
    return ok, val


def py_canonical(s):
    return s.isdigit() and s.isascii() and (s == '0' or not s.startswith('0')) and len(s) <= 10 and int(s) <= 0xFFFFFFFF


def setup(tier):
    ex = common.executor(unwind=CAP[tier] + 4, str_cap=CAP[tier])

    def intern(e, s, c):
        txt = deref(e, s, c.args[1])
        tok = Opaque('JsString')
        s.extra[('jsstr', str(tok.id))] = txt
        e.havoc_used.add('Interpreter::intern (returns a string token with the same content)')
        s.event('intern', txt)
        return e.ret(s, c, tok)
    ex.overrides.append((re.compile(r'^Interpreter::intern$'), intern))
    ex.havoc(r'^Interpreter::to_js_string$|^JsValue::to_js_string$', ret=lambda e, s, c: Opaque('JsString'))
    return ex


def key_shape(ex, v):
    """-> (kind name, index expr or None, string token or None)"""
    names = ex.enum_variants('PropertyKey')
    k = names[v.discr]
    if k == 'Index':
        return k, v.payload[v.discr][0].e, None
    if k == 'String':
        return k, None, v.payload[v.discr][0]
    return k, None, None


KF_JSON_KEYS = 'C16/json-and-api-routes/uncanonical-key'


def check_other_routes(rep, cross, cap):
    """the places outside the four key functions that turn a document/host string into a property key must produce the SAME key
    (Index for canonical index spellings): JSON.parse / create_from_json (json_to_js_value_with_guard) and api::get_property /
    api::set_property.  A key stored as String("1") is invisible to the VM's o[1] / o["1"], which look up Index(1)."""
    routes = [('json_to_js_value_with_guard', 'set'), ('api::set_property', 'set'), ('api::get_property', 'get')]
    for fname, kind in routes:
        ex = setup(rep.tier)
        ex.auto_havoc = True
        ex.execute_real = [re.compile(r'^Interpreter::property_key|^PropertyKey::')]
        captured = []

        def cap_key(e, s, c):
            k = c.args[1]
            k = e.load(s, k.addr, k.path) if isinstance(k, Ref) else k
            s.event('keyed', k)
            e.havoc_used.add('JsObject::get_property / set_property (the key argument is recorded)')
            return e.ret(s, c, e.fresh(s, c.dest_ty, 'prop')) if c.dest_ty else e.ret(s, c, UNIT)
        ex.overrides.append((re.compile(r'^JsObject::(set_property|get_property)$'), cap_key))
        short = fname.split('::')[-1]
        if fname.startswith('api::'):
            # free functions of src/api.rs are printed without a module prefix
            cands = [n for n in ex.mir.fn_index if n == short]
        else:
            cands = [n for n in ex.mir.fn_index if (n == fname or n.endswith('::' + short)) and '{closure' not in n]
        if len(cands) != 1:
            rep.inconc('cannot locate %s in the MIR dump (%r)' % (fname, cands[:3]))
            continue
        st = State()
        st.extra['alphabet'] = [z3.BitVecVal(c, 8) for c in ALPHA]
        key = ex.fresh_str(st, cap, 'dockey')
        is_idx, val = canonical_index(key)
        interp = st.alloc(Agg('struct', 'Interpreter', {}, lazy=True))
        if fname == 'json_to_js_value_with_guard':
            # one-member object { key: <anything> }: the map iterator yields (key, value) once
            state = {'n': 0}

            def it_next(e, s, c):
                k = sum(1 for ev in s.events if ev[0] == 'map_next')
                s.event('map_next')
                if k >= 1:
                    return e.ret(s, c, e.none())
                kcell = s.alloc(key)
                vcell = s.alloc(EnumV('Value', 0, {}))
                return e.ret(s, c, e.some(Agg('tuple', 'tuple', {0: Ref(kcell), 1: Ref(vcell)})))
            ex.overrides.insert(0, (re.compile(r'^<.*Iter<.*> as Iterator>::next$|^<serde_json::map::Iter.* as Iterator>::next$|^<map::Iter.* as Iterator>::next$'), it_next))
            json_cell = st.alloc(EnumV('Value', 5, {5: {0: Opaque('Map<String, Value>')}}))
            args = [Ref(interp), Ref(json_cell), Ref(st.alloc(Opaque('Guard<JsObject>')))]
        else:
            objv = EnumV('JsValue', 6, {6: {0: Opaque('Gc<JsObject>', z3.Int('$apiobj'))}})
            args = [Ref(st.alloc(objv)), key] + ([ex.fresh(st, 'JsValue', '$newval')] if kind == 'set' else [])
        ex.call_function(st, cands[0], args)
        ends = ex.run(st, max_paths=3000)
        nret = 0
        for k, e in enumerate(ends):
            if e.status in ('bound',):
                continue
            if e.status != 'return':
                rep.inconc('%s: %s %s' % (fname, e.status, e.detail[:160]))
                continue
            keyed = [ev[1] for ev in e.st.events if ev[0] == 'keyed']
            if not keyed:
                continue
            nret += 1
            kv = keyed[0]
            names = ex.enum_variants('PropertyKey')
            kname = names[kv.discr] if isinstance(kv.discr, int) else '?'
            if kname == 'Index':
                iv = kv.payload[kv.discr][0]
                from emir.models import int_to_str
                g = z3.And(is_idx, s_eq(int_to_str(ex, e.st, iv), key)) if getattr(iv, 'dec', None) is not None else z3.And(is_idx, z3.ZeroExt(32, iv.e) == val)
            elif kname == 'String':
                g = z3.Not(is_idx)
            else:
                g = z3.BoolVal(False)
            t = time.time()
            r, m = ex.check_sat_pc(e.st.pc, [z3.Not(g)])
            what = '%s path %d: the property key built from a document/host string is the canonical key (Index for index spellings)' % (fname, k)
            rep.obligation(what, r, 'strings <= %d bytes' % cap, time.time() - t)
            if r == 'unsat':
                cross.append((what, list(e.st.pc) + [z3.Not(g)], 'unsat'))
            elif not rep.seen(KF_JSON_KEYS):
                txt = s_model_bytes(m, key).decode('latin-1')
                src = "const o = JSON.parse('{%s:7}'); [o[%s], JSON.stringify(o)].join('|')" % (json.dumps(txt), json.dumps(txt))
                o = driver.replay([{'cmd': 'eval', 'src': src}, {'cmd': 'api_key', 's': txt}])
                rep.validated += 2
                got = o[0].get('value', {}).get('v')
                want = '7|{%s:7}' % json.dumps(txt)
                api_bad = o[1].get('script_sees_host_write') is False or o[1].get('host_sees_script_write') is False
                if got == want and not api_bad:
                    rep.inconc('%s: counterexample key %r does not reproduce (%r, %r)' % (what, txt, got, o[1]))
                else:
                    p = rep.write_replay('json-key', {'cmd': 'eval', 'src': src, 'expected': want, 'observed': got, 'api': o[1]})
                    rep.violation(KF_JSON_KEYS, 'key %r: %s gives %r (expected %r); api round trip: %r' % (txt, src, got, want, o[1]), p)
        if nret == 0:
            rep.inconc('%s: no path reaches a keyed property access (vacuity)' % fname)
        rep.sample({'kernel': fname + ' key construction', 'paths_with_key': nret})
        rep.absorb(ex)


def check_visited_balance(rep, cross):
    """js_value_to_json_with_visited (JSON.stringify, host conversion) detects cycles with a set of the objects on the CURRENT path: on every
    path that returns Ok for an object, the object's id was inserted once and removed again - otherwise a shared, acyclic sub-object is
    reported as circular.  Recursive calls are abstracted (they leave the set as they found it when they return Ok: this contract)."""
    ex = common.executor(unwind=3)
    ex.auto_havoc = True

    def ev(kind):
        def h(e, s, c):
            s.event(kind)
            return e.ret(s, c, Bool(z3.Bool('already_on_path')) if kind == 'vcontains' else Bool(z3.BoolVal(True)))
        return h
    ex.overrides.append((re.compile(r'^HashSet::contains$'), ev('vcontains')))
    ex.overrides.append((re.compile(r'^HashSet::insert$'), ev('vinsert')))
    ex.overrides.append((re.compile(r'^HashSet::remove$'), ev('vremove')))
    cands = [n for n in ex.mir.fn_index if n.endswith('js_value_to_json_with_visited') and '{closure' not in n]
    if len(cands) != 1:
        rep.inconc('cannot locate js_value_to_json_with_visited in the MIR dump (%d candidates)' % len(cands))
        return

    def rec(e, s, c):
        s.event('recurse')
        e.havoc_used.add('js_value_to_json_with_visited (recursive call: arbitrary result, the visited set as found)')
        return e.ret(s, c, e.fresh(s, c.dest_ty, 'rec'))
    ex.overrides.append((re.compile(r'js_value_to_json_with_visited$'), rec))
    st = State()
    val = st.alloc(EnumV('JsValue', 6, {6: {0: Opaque('Gc<JsObject>', z3.Int('$obj'))}}))
    vis = st.alloc(Opaque('FxHashSet<usize>'))
    ex.call_function(st, cands[0], [Ref(val), Ref(vis)])
    ends = ex.run(st, max_paths=5000)
    n_ok = 0
    bad = None
    for e in ends:
        if e.status in ('bound', 'panic'):
            continue
        if e.status != 'return':
            rep.inconc('js_value_to_json_with_visited: %s %s' % (e.status, e.detail[:140]))
            continue
        if not (isinstance(e.value, EnumV) and e.value.discr == 0):
            continue
        n_ok += 1
        evs = [x[0] for x in e.st.events if x[0] in ('vinsert', 'vremove')]
        if evs != ['vinsert', 'vremove'] and bad is None:
            bad = evs
    what = 'js_value_to_json_with_visited: every Ok path for an object inserts its id once and removes it again'
    rep.obligation(what, 'sat' if bad is not None else 'unsat', '%d Ok paths (loops unrolled 3 times), object of any kind' % n_ok, 0.0)
    progs = [('const e = []; JSON.stringify({first: e, second: e, deep: [[e]]})', '{"deep":[[[]]],"first":[],"second":[]}'),
             ('const s = {k: 1}; JSON.stringify([s, s, {in: s}])', '[{"k":1},{"k":1},{"in":{"k":1}}]'),
             ('const a = [1]; JSON.stringify({x: a, y: a})', '{"x":[1],"y":[1]}')]
    outs = driver.replay([{'cmd': 'eval', 'src': p_} for p_, _ in progs])
    wrong = []
    for (p_, want), o in zip(progs, outs):
        rep.validated += 1
        got = (o.get('value') or {}).get('v', o.get('error'))
        if got != want:
            wrong.append((p_, got, want))
    if (bad is not None or wrong) and not rep.seen('C16/js_value_to_json/visited-set-not-restored'):
        p = rep.write_replay('visited', {'events_on_an_ok_path': bad, 'programs': wrong})
        rep.violation('C16/js_value_to_json/visited-set-not-restored', 'js_value_to_json_with_visited has an Ok path with visited-set events %r (expected insert then remove)%s' % (
            bad, '; %s gives %r, expected %r' % wrong[0] if wrong else ' (symbolic counterexample)'), p)
    if n_ok == 0:
        rep.inconc('js_value_to_json_with_visited: no Ok path (vacuity)')
    rep.vacuity.append('js_value_to_json_with_visited: %d Ok paths' % n_ok)
    rep.sample({'kernel': 'js_value_to_json_with_visited visited-set balance', 'ok_paths': n_ok})
    rep.absorb(ex)


def check_json_route_vectors(rep, vecs):
    """replay route: a member written by JSON.parse / create_from_json under key K is found by `o[K]` and by the host API, for the boundary spellings"""
    keys = [k for k in vecs if k and all(ch in '0123456789+-.e ' for ch in k)]
    srcs = ["const o = JSON.parse('{%s:7}'); String(o[%s])" % (json.dumps(k), json.dumps(k)) for k in keys]
    outs = driver.replay([{'cmd': 'eval', 'src': x} for x in srcs] + [{'cmd': 'api_key', 's': k} for k in keys])
    n = len(keys)
    for i, k in enumerate(keys):
        rep.validated += 2
        got = (outs[i].get('value') or {}).get('v')
        api = outs[n + i]
        api_bad = api.get('script_sees_host_write') is False or api.get('host_sees_script_write') is False
        if (got != '7' or api_bad) and not rep.seen(KF_JSON_KEYS):
            p = rep.write_replay('json-key', {'cmd': 'eval', 'src': srcs[i], 'expected': '7', 'observed': got, 'api': api})
            rep.violation(KF_JSON_KEYS, 'key %r: %s gives %r (expected 7); api round trip: %r' % (k, srcs[i], got, api), p)


def run(rep):
    cap = CAP[rep.tier]
    rep.bounds = dict(string_bytes=cap, alphabet=ALPHA.decode(), numbers='every f64 (see C15 b)')
    rep.assumptions = ['strings are byte strings over the stated alphabet', 'Interpreter::intern returns a token with the same content (interning is identity on content)',
                       'to_js_string is havoc\'d (only reached for non-index numbers, where all routes call it on the same value)']
    rep.outside = ['serde_json text <-> tree', 'tree <-> heap conversion (json_to_js_value / js_value_to_json)', 'cycle detection', 'string escapes']
    cross = []
    # encoder validation + oracle self test on concrete strings through the real code
    rnd = random.Random(rep.seed + 16)
    vecs = ['0', '1', '01', '+1', '-0', '4294967295', '4294967296', '42949672950', '', ' 1', '1 ', '1e3', '1.0', '00', '10', '999999999', '+', '-1']
    for _ in range(20):
        vecs.append(''.join(rnd.choice('0123456789+-.e ') for _ in range(rnd.randint(0, 11))))
    outs = driver.replay([{'cmd': 'property_key', 's': s} for s in vecs])
    exv = setup('thorough')
    fv = common.fn_name(exv, 'PropertyKey', 'from_value')
    for s, o in zip(vecs, outs):
        kinds = {r: o[r]['kind'] for r in ('from_value', 'property_key', 'from_js_string', 'interp_from_value')}
        want = 'index' if py_canonical(s) else 'string'
        if set(kinds.values()) != {want}:
            p = rep.write_replay('key-concrete', {'cmd': 'property_key', 's': s, 'observed': o})
            rep.violation('C16/property-key/concrete-vector', 'key routes on %r give %r, expected all %s' % (s, kinds, want), p)
    for s, o in zip(vecs, outs):
        st = State()
        tok = Opaque('JsString')
        st.extra[('jsstr', str(tok.id))] = str_const(s.encode())
        a = st.alloc(EnumV('JsValue', 4, {4: {0: tok}}))
        exv.call_function(st, fv, [Ref(a)])
        ends = exv.run(st)
        if len(ends) != 1 or ends[0].status != 'return':
            raise driver.Inconclusive('concrete from_value(%r) did not return: %r' % (s, ends))
        kind, idx, _ = key_shape(exv, ends[0].value)
        mine = 'index' if kind == 'Index' else 'string'
        if mine != o['from_value']['kind'] or (mine == 'index' and z3.simplify(idx).as_long() != o['from_value']['index']):
            raise driver.Inconclusive('encoder validation failed: from_value(%r): executor %s, real %r' % (s, mine, o['from_value']))
        rep.validated += 1
    rep.absorb(exv)

    routes = [('PropertyKey::from_value', 'PropertyKey', 'from_value', 'value'),
              ('Interpreter::property_key', 'Interpreter', 'property_key', 'str'),
              ('Interpreter::property_key_from_js_string', 'Interpreter', 'property_key_from_js_string', 'jsstring'),
              ('Interpreter::property_key_from_value', 'Interpreter', 'property_key_from_value', 'value')]
    ex = setup(rep.tier)
    st0 = State()
    st0.extra['alphabet'] = [z3.BitVecVal(c, 8) for c in ALPHA]
    s = ex.fresh_str(st0, cap, 'key')
    tok = Opaque('JsString', z3.Int('$keytok'))
    st0.extra[('jsstr', str(tok.id))] = s
    is_idx, val = canonical_index(s)
    results = {}
    for label, ty, meth, kind in routes:
        fn = common.fn_name(ex, ty, meth)
        st = st0.clone()
        interp = st.alloc(Agg('struct', 'Interpreter', {}, lazy=True))
        if kind == 'value':
            a = st.alloc(EnumV('JsValue', 4, {4: {0: tok}}))
            args = [Ref(a)] if ty == 'PropertyKey' else [Ref(interp), Ref(a)]
        elif kind == 'str':
            args = [Ref(interp), s]
        else:
            args = [Ref(interp), tok]
        ex.call_function(st, fn, args)
        ends = ex.run(st)
        if not common.require_clean(rep, ends, label):
            continue
        results[label] = ends
        for k, e in enumerate(ends):
            kname, idx, stok = key_shape(ex, e.value)
            if kname == 'Index':
                iv = e.value.payload[e.value.discr][0]
                if getattr(iv, 'dec', None) is not None:
                    # i is the value of the digit string dec (parse model): i == value(s) iff dec spells the same number as s;
                    # for canonical s that is dec == s up to leading zeros, decided on bytes
                    from emir.models import int_to_str
                    g = z3.And(is_idx, s_eq(int_to_str(ex, e.st, iv), s))
                else:
                    g = z3.And(is_idx, z3.ZeroExt(32, idx) == val)
                what = 'Index(i) only for the canonical decimal spelling of i, and i is its value'
            elif kname == 'String':
                same_content = z3.BoolVal(False)
                if isinstance(stok, Opaque):
                    c = e.st.extra.get(('jsstr', str(stok.id)))
                    same_content = s_eq(c, s) if c is not None else z3.BoolVal(False)
                g = z3.And(z3.Not(is_idx), same_content)
                what = 'String(s) exactly for non-canonical spellings, with the content unchanged'
            else:
                g = z3.BoolVal(False)
                what = 'a string key never becomes a Symbol key'
            t = time.time()
            r, m = ex.check_sat_pc(e.st.pc, [z3.Not(g)])
            w = '%s path %d: %s' % (label, k, what)
            rep.obligation(w, r, 'strings <= %d bytes over %r' % (cap, ALPHA.decode()), time.time() - t)
            if r == 'unsat':
                cross.append((w, list(e.st.pc) + [z3.Not(g)], 'unsat'))
            else:
                txt = s_model_bytes(m, s).decode('latin-1')
                o = driver.replay([{'cmd': 'property_key', 's': txt}])[0]
                rep.validated += 1
                kinds = {r_: o[r_]['kind'] for r_ in ('from_value', 'property_key', 'from_js_string', 'interp_from_value')}
                want = 'index' if py_canonical(txt) else 'string'
                key = 'C16/%s/string-key' % meth
                if set(kinds.values()) == {want}:
                    rep.inconc('%s: counterexample %r does not reproduce (%r)' % (w, txt, kinds))
                elif not rep.seen(key):
                    p = rep.write_replay('key-%s' % meth, {'cmd': 'property_key', 's': txt, 'observed': o})
                    rep.violation(key, 'key of %r: %r, expected %s everywhere' % (txt, kinds, want), p)
        rep.sample({'kernel': label + ' on strings', 'paths': len(ends)})
    rep.vacuity.append('string keys: %s' % {k: len(v) for k, v in results.items()})
    rep.absorb(ex)
    # numbers: from_value vs property_key_from_value agree (each is checked against the spec in C15 b)
    ex2 = setup(rep.tier)
    x = z3.FP('keynum', F64)
    outs_ = {}
    for label, ty, meth in (('PropertyKey::from_value', 'PropertyKey', 'from_value'), ('Interpreter::property_key_from_value', 'Interpreter', 'property_key_from_value')):
        st = State()
        interp = st.alloc(Agg('struct', 'Interpreter', {}, lazy=True))
        a = st.alloc(EnumV('JsValue', 3, {3: {0: Float(x)}}))
        ex2.call_function(st, common.fn_name(ex2, ty, meth), [Ref(a)] if ty == 'PropertyKey' else [Ref(interp), Ref(a)])
        ends = ex2.run(st)
        if common.require_clean(rep, ends, label + ' (number)'):
            outs_[label] = ends
    if len(outs_) == 2:
        (la, ea), (lb, eb) = outs_.items()
        npair = 0
        for e1 in ea:
            for e2 in eb:
                pc = list(e1.st.pc) + list(e2.st.pc)
                if not ex2.feasible_pc(pc):
                    continue
                npair += 1
                k1, i1, _ = key_shape(ex2, e1.value)
                k2, i2, _ = key_shape(ex2, e2.value)
                if k1 != k2:
                    g = z3.BoolVal(False)
                elif k1 == 'Index':
                    g = i1 == i2
                else:
                    g = z3.BoolVal(True)
                r, m = ex2.check_sat_pc(pc, [z3.Not(g)])
                w = 'number key: from_value and property_key_from_value agree (pair %d)' % npair
                rep.obligation(w, r, 'every f64', 0.0)
                if r == 'unsat':
                    cross.append((w, pc + [z3.Not(g)], 'unsat'))
                else:
                    xv = m.eval(x, model_completion=True)
                    bits = z3.simplify(z3.fpToIEEEBV(xv)).as_long() if not z3.is_true(z3.simplify(z3.fpIsNaN(xv))) else 0x7ff8000000000000
                    o = driver.replay([{'cmd': 'property_key', 'bits': '%016x' % bits}])[0]
                    rep.validated += 1
                    if o['from_value'] == o['interp_from_value']:
                        rep.inconc('%s: counterexample %r does not reproduce' % (w, vmarms.bits_f64(bits)))
                    else:
                        p = rep.write_replay('key-number', {'cmd': 'property_key', 'bits': '%016x' % bits, 'observed': o})
                        rep.violation('C16/number-key/routes-disagree', 'key of %r: from_value %r, interpreter route %r' % (vmarms.bits_f64(bits), o['from_value'], o['interp_from_value']), p)
        rep.sample({'kernel': 'number keys: two routes', 'feasible_pairs': npair})
    rep.absorb(ex2)
    check_other_routes(rep, cross, cap)
    check_json_route_vectors(rep, vecs)
    check_visited_balance(rep, cross)
    rep.cross = driver.cross_check(cross, 300, 'ALL', rep.tier, rep.seed)
    rep.extra['cross_checked_obligations'] = len(cross)


def replay_file(path):
    d = json.load(open(path))
    o = driver.replay([{k: v for k, v in d.items() if k in ('cmd', 's', 'bits')}])[0]
    print(json.dumps(o))
    return 0
