"""C09 - module graphs load once, dependencies first: request canonicalisation / deduplication only.

(1) Interpreter::dedupe_import_requests on up to 3 (thorough 4) requests with symbolic resolved paths: the output is the first
    occurrence of each distinct resolved_path, in order, nothing distinct is dropped.
(2) Interpreter::collect_import_requests_internal on programs of up to 2 (3) statements (import / re-export / other, symbolic
    specifiers): one request per import or re-export, in order, whose resolved_path is ModulePath::resolve(specifier, resolve_base)
    (resolve itself is C18's kernel: here an uninterpreted function) and whose importer is the importer given.
    Statements here are not type-only; the type_only flag is C03's kernel K3.
Evaluation order, exactly-once execution and live bindings are outside the claim (they are the larger part of the property).
"""
import itertools
import json
import re
import time
import z3

from emir import driver
from emir.values import *
from emir.strings import *
from emir.symex import State
from emir.refrun import explore
from emir.models import deref, val_eq
from . import common, astb

BOUNDS = {'quick': dict(reqs=3, stmts=2), 'thorough': dict(reqs=4, stmts=3)}


def check_dedupe(rep, cross):
    n_max = BOUNDS[rep.tier]['reqs']
    for n in range(0, n_max + 1):
        ex = common.executor(unwind=n + 4, str_cap=2)
        ex.overrides.append((re.compile(r'^<HashSet<.*> as Default>::default$'), lambda e, s, c: e.ret(s, c, VecV((), '__set__'))))
        fn = common.fn_name(ex, 'Interpreter', 'dedupe_import_requests')
        IR = {nm: i for i, nm in enumerate(ex.src.structs['ImportRequest'])}
        st = State()
        st.extra['alphabet'] = [z3.BitVecVal(c, 8) for c in b'ab']
        paths = [ex.fresh_str(st, 1, 'path%d' % i) for i in range(n)]
        reqs = [Agg('struct', 'ImportRequest', {IR['specifier']: str_const(b'spec%d' % i), IR['resolved_path']: Agg('struct', 'ModulePath', {0: paths[i]}),
                                                 IR['importer']: EnumV('Option<ModulePath>', 0, {})}) for i in range(n)]
        ex.call_function(st, fn, [VecV(reqs, 'ImportRequest')])
        ends = ex.run(st)
        if not common.require_clean(rep, ends, 'dedupe_import_requests(%d)' % n):
            rep.absorb(ex)
            continue
        for k, e in enumerate(ends):
            out = e.value

            def ref(br):
                keep = []
                for i in range(n):
                    if not any(br(s_eq(paths[i], paths[j])) for j in keep):
                        keep.append(i)
                return keep
            for conds, keep in explore(ex, e.st.pc, ref):
                ok = isinstance(out, VecV) and len(out.items) == len(keep)
                g = z3.BoolVal(ok)
                if ok:
                    g = z3.And([z3.And(s_eq(it.fields[IR['resolved_path']].fields[0], paths[i]),
                                       s_eq(it.fields[IR['specifier']], str_const(b'spec%d' % i))) for it, i in zip(out.items, keep)] + [z3.BoolVal(True)])
                t = time.time()
                r, m = ex.check_sat_pc(e.st.pc, conds + [z3.Not(g)])
                what = 'dedupe_import_requests(%d requests) path %d: first occurrence of each distinct resolved path, in order' % (n, k)
                rep.obligation(what, r, '<= %d requests, symbolic paths' % n_max, time.time() - t)
                if r == 'unsat':
                    cross.append((what, list(e.st.pc) + conds + [z3.Not(g)], 'unsat'))
                elif not rep.seen('C09/dedupe_import_requests/first-occurrence'):
                    ps = [s_model_bytes(m, p).decode() for p in paths]
                    src = '\n'.join('import "./%s.ts";' % (p or 'x') for p in ps) + '\n1'
                    o = driver.replay([{'cmd': 'eval', 'src': src, 'path': '/d/main.ts'}])[0]
                    rep.validated += 1
                    want = []
                    for p in ps:
                        rp = '/d/%s.ts' % (p or 'x')
                        if rp not in want:
                            want.append(rp)
                    got = [x['resolved'] for x in o.get('need_imports', [])]
                    pth = rep.write_replay('dedupe', {'cmd': 'eval', 'src': src, 'path': '/d/main.ts', 'expected_requests': want, 'observed': o})
                    if got == want:
                        rep.inconc('%s: counterexample paths %r do not reproduce through prepare() (requests %r)' % (what, ps, got))
                    else:
                        rep.violation('C09/dedupe_import_requests/first-occurrence', 'imports %r: NeedImports lists %r, expected %r' % (ps, got, want), pth)
        rep.sample({'kernel': 'dedupe_import_requests', 'requests': n, 'paths': len(ends)})
        rep.absorb(ex)


def check_collect(rep, cross):
    n_max = BOUNDS[rep.tier]['stmts']
    kinds = ['import', 'reexport', 'export', 'other']
    nseq = 0
    for n in range(1, n_max + 1):
        for shape in itertools.product(kinds, repeat=n):
            nseq += 1
            ex = common.executor(unwind=n + 4, str_cap=3)
            astb.install_rc_models(ex)

            def h_resolve(e, s, c):
                e.havoc_used.add('ModulePath::resolve (uninterpreted here; decided by C18)')
                k = sum(1 for ev in s.events if ev[0] == 'resolve')
                s.event('resolve', c.args[0], c.args[1])
                return e.ret(s, c, Agg('struct', 'ModulePath', {0: str_const(b'R%d' % k)}))
            ex.overrides.append((re.compile(r'^ModulePath::resolve$'), h_resolve))

            def h_tostring(e, s, c):
                v = deref(e, s, c.args[0])
                if isinstance(v, Opaque) and ('jsstr', str(v.id)) in s.extra:
                    return e.ret(s, c, s.extra[('jsstr', str(v.id))])
                return None
            ex.overrides.append((re.compile(r'^<JsString as ToString>::to_string$'), h_tostring))
            fn = common.fn_name(ex, 'Interpreter', 'collect_import_requests_internal')
            IR = {nm: i for i, nm in enumerate(ex.src.structs['ImportRequest'])}
            st = State()
            ab = astb.AB(ex, st)
            specs = []
            stmts = []
            for i, kd in enumerate(shape):
                tok = Opaque('JsString', z3.Int('$spec%d' % i))
                sp = str_const(b's%d' % i)
                st.extra[('jsstr', str(tok.id))] = sp
                lit = ab.struct('StringLiteral', value=tok)
                if kd == 'import':
                    stmts.append(ab.enum('Statement', 'Import', ab.box(ab.struct('ImportDeclaration', source=lit, type_only=Bool(False)))))
                    specs.append(sp)
                elif kd == 'reexport':
                    stmts.append(ab.enum('Statement', 'Export', ab.box(ab.struct('ExportDeclaration', source=ab.some(lit), type_only=Bool(False)))))
                    specs.append(sp)
                elif kd == 'export':
                    stmts.append(ab.enum('Statement', 'Export', ab.box(ab.struct('ExportDeclaration', source=ab.none(), type_only=Bool(False)))))
                else:
                    stmts.append(ab.enum('Statement', 'Empty'))
            prog = ab.struct('Program', body=ab.rc(VecV(stmts, 'Statement')))
            base_tok = Agg('struct', 'ModulePath', {0: str_const(b'BASE')})
            imp_tok = Agg('struct', 'ModulePath', {0: str_const(b'IMPORTER')})
            base = ab.some(ab.ref(base_tok))
            importer = ab.some(ab.ref(imp_tok))
            interp = st.alloc(Agg('struct', 'Interpreter', {}, lazy=True))
            ex.call_function(st, fn, [Ref(interp), ab.ref(prog), base, importer])
            ends = ex.run(st)
            if not common.require_clean(rep, ends, 'collect_import_requests_internal %r' % (shape,)):
                rep.absorb(ex)
                continue
            for e in ends:
                out = e.value
                evs = [ev for ev in e.st.events if ev[0] == 'resolve']
                ok = isinstance(out, VecV) and len(out.items) == len(specs) and len(evs) == len(specs)
                gs = [z3.BoolVal(ok)]
                if ok:
                    for k, (it, sp, ev) in enumerate(zip(out.items, specs, evs)):
                        gs.append(s_eq(it.fields[IR['specifier']], sp))                                   # specifier as written
                        gs.append(s_eq(it.fields[IR['resolved_path']].fields[0], str_const(b'R%d' % k)))   # = resolve(...)'s k-th result
                        gs.append(s_eq(deref(ex, e.st, ev[1]) if isinstance(ev[1], Ref) else ev[1], sp))  # resolve called on this specifier
                        b = ev[2]
                        gs.append(z3.BoolVal(isinstance(b, EnumV) and b.discr == 1 and isinstance(b.payload[1][0], Ref) and
                                             s_eq_concrete(ex, e.st, b.payload[1][0], b'BASE')))           # against resolve_base
                        imp = it.fields[IR['importer']]
                        gs.append(z3.BoolVal(isinstance(imp, EnumV) and imp.discr == 1 and isinstance(imp.payload[1][0], Agg) and
                                             str_is(imp.payload[1][0].fields[0], b'IMPORTER')))
                g = z3.And(gs)
                t = time.time()
                r, m = ex.check_sat_pc(e.st.pc, [z3.Not(g)])
                what = 'collect_import_requests_internal %s: one request per import/re-export, in order, resolved against resolve_base, carrying the importer' % '/'.join(shape)
                rep.obligation(what, r, '<= %d statements' % n_max, time.time() - t)
                if r == 'unsat':
                    cross.append((what, list(e.st.pc) + [z3.Not(g)], 'unsat'))
                elif not rep.seen('C09/collect_import_requests/shape'):
                    lines = {'import': 'import "./s%d.ts";', 'reexport': 'export { x%d } from "./s%d.ts";', 'export': 'export const y%d = 1;', 'other': ';'}
                    src = '\n'.join((lines[kd] % ((i, i) if kd == 'reexport' else (i,) if '%d' in lines[kd] else ())) for i, kd in enumerate(shape)) + '\n1'
                    o = driver.replay([{'cmd': 'eval', 'src': src, 'path': '/d/main.ts'}])[0]
                    rep.validated += 1
                    want = ['/d/s%d.ts' % i for i, kd in enumerate(shape) if kd in ('import', 'reexport')]
                    got = [x['resolved'] for x in o.get('need_imports', [])]
                    pth = rep.write_replay('collect', {'cmd': 'eval', 'src': src, 'path': '/d/main.ts', 'expected_requests': want, 'observed': o})
                    rep.violation('C09/collect_import_requests/shape', 'program %r: NeedImports lists %r, expected %r%s' % (
                        src, got, want, '' if got != want else ' (symbolic counterexample; this program does not expose it)'), pth)
            rep.absorb(ex)
    rep.sample({'kernel': 'collect_import_requests_internal', 'program_shapes': nseq})


def s_eq_concrete(ex, st, ref, lit):
    v = ex.load(st, ref.addr, ref.path)
    return isinstance(v, Agg) and str_is(v.fields[0], lit)


def str_is(s, lit):
    if not isinstance(s, Str):
        return False
    n = z3.simplify(s.n)
    if not z3.is_bv_value(n) or n.as_long() != len(lit):
        return False
    return all(z3.is_bv_value(z3.simplify(b)) and z3.simplify(b).as_long() == c for b, c in zip(s.bytes, lit))


def run(rep):
    b = BOUNDS[rep.tier]
    rep.bounds = dict(requests_max=b['reqs'], statements_max=b['stmts'], paths='symbolic, 1 byte over {a,b} (only equality matters)')
    rep.assumptions = ['FxHashSet modelled as an association-list set with structural key equality', 'ModulePath::resolve is an uninterpreted function in kernel (2); C18 decides it',
                       'JsString::to_string returns the string content']
    rep.outside = ['evaluation order, exactly-once execution of module bodies', 'live bindings through namespace getters', 'filter_missing_imports / filter_unprovided_imports / process_pending_modules']
    cross = []
    # replay route: canonical, deduplicated NeedImports through the public API
    src = 'import "./a.ts"; import "./x/../a.ts"; import "./b.ts"; export { q } from "././b.ts"; 1'
    o = driver.replay([{'cmd': 'eval', 'src': src, 'path': '/d/main.ts'}])[0]
    rep.validated += 1
    got = [x['resolved'] for x in o.get('need_imports', [])]
    if got != ['/d/a.ts', '/d/b.ts']:
        p = rep.write_replay('need-imports', {'cmd': 'eval', 'src': src, 'path': '/d/main.ts', 'observed': o})
        rep.violation('C09/need-imports/concrete', 'NeedImports for %r lists %r, expected one canonical request per file' % (src, got), p)
    check_dedupe(rep, cross)
    check_collect(rep, cross)
    rep.cross = driver.cross_check(cross, 300, 'ALL', rep.tier, rep.seed)
    rep.extra['cross_checked_obligations'] = len(cross)


def replay_file(path):
    d = json.load(open(path))
    o = driver.replay([{'cmd': 'eval', 'src': d['src'], 'path': d.get('path')}])[0]
    print(json.dumps(o))
    return 0
