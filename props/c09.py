"""C09 - module graphs load once, dependencies first: request canonicalisation / deduplication only.

(1) Interpreter::dedupe_import_requests on up to 3 (thorough 4) requests with symbolic resolved paths: the output is the first
    occurrence of each distinct resolved_path, in order, nothing distinct is dropped.
(2) Interpreter::collect_import_requests_internal on programs of up to 2 (3) statements (import / re-export / other, symbolic
    specifiers): one request per import or re-export, in order, whose resolved_path is ModulePath::resolve(specifier, resolve_base)
    (resolve itself is C18's kernel: here an uninterpreted function) and whose importer is the importer given.
    Statements here are not type-only; the type_only flag is C03's kernel K3.
(3) Interpreter::resolve_module_specifier (bind-time resolution inside a running module body) uses the module being executed as base,
    the entry module only when there is none: the base collect_import_requests_internal was given for the same specifier.
Replay route: three graphs (nested directories, diamond with a shared counter, re-exported live binding) through the public API under
three supply orders (as asked, reversed, one module per round).
Evaluation order, exactly-once execution and live bindings in general are outside the symbolic claim.
"""
import itertools
import json
import re
import time
import z3

from emir import driver
from emir.values import *
from emir.strings import *
from emir.symex import State
from emir.refrun import explore
from emir.models import deref, val_eq
from . import common, astb

BOUNDS = {'quick': dict(reqs=3, stmts=2), 'thorough': dict(reqs=4, stmts=3)}


def check_dedupe(rep, cross):
    n_max = BOUNDS[rep.tier]['reqs']
    for n in range(0, n_max + 1):
        ex = common.executor(unwind=n + 4, str_cap=2)
        ex.overrides.append((re.compile(r'^<HashSet<.*> as Default>::default$'), lambda e, s, c: e.ret(s, c, VecV((), '__set__'))))
        fn = common.fn_name(ex, 'Interpreter', 'dedupe_import_requests')
        IR = {nm: i for i, nm in enumerate(ex.src.structs['ImportRequest'])}
        st = State()
        st.extra['alphabet'] = [z3.BitVecVal(c, 8) for c in b'ab']
        paths = [ex.fresh_str(st, 1, 'path%d' % i) for i in range(n)]
        reqs = [Agg('struct', 'ImportRequest', {IR['specifier']: str_const(b'spec%d' % i), IR['resolved_path']: Agg('struct', 'ModulePath', {0: paths[i]}),
                                                 IR['importer']: EnumV('Option<ModulePath>', 0, {})}) for i in range(n)]
        ex.call_function(st, fn, [VecV(reqs, 'ImportRequest')])
        ends = ex.run(st)
        if not common.require_clean(rep, ends, 'dedupe_import_requests(%d)' % n):
            rep.absorb(ex)
            continue
        for k, e in enumerate(ends):
            out = e.value

            def ref(br):
                keep = []
                for i in range(n):
                    if not any(br(s_eq(paths[i], paths[j])) for j in keep):
                        keep.append(i)
                return keep
            for conds, keep in explore(ex, e.st.pc, ref):
                ok = isinstance(out, VecV) and len(out.items) == len(keep)
                g = z3.BoolVal(ok)
                if ok:
                    g = z3.And([z3.And(s_eq(it.fields[IR['resolved_path']].fields[0], paths[i]),
                                       s_eq(it.fields[IR['specifier']], str_const(b'spec%d' % i))) for it, i in zip(out.items, keep)] + [z3.BoolVal(True)])
                t = time.time()
                r, m = ex.check_sat_pc(e.st.pc, conds + [z3.Not(g)])
                what = 'dedupe_import_requests(%d requests) path %d: first occurrence of each distinct resolved path, in order' % (n, k)
                rep.obligation(what, r, '<= %d requests, symbolic paths' % n_max, time.time() - t)
                if r == 'unsat':
                    cross.append((what, list(e.st.pc) + conds + [z3.Not(g)], 'unsat'))
                elif not rep.seen('C09/dedupe_import_requests/first-occurrence'):
                    ps = [s_model_bytes(m, p).decode() for p in paths]
                    src = '\n'.join('import "./%s.ts";' % (p or 'x') for p in ps) + '\n1'
                    o = driver.replay([{'cmd': 'eval', 'src': src, 'path': '/d/main.ts'}])[0]
                    rep.validated += 1
                    want = []
                    for p in ps:
                        rp = '/d/%s.ts' % (p or 'x')
                        if rp not in want:
                            want.append(rp)
                    got = [x['resolved'] for x in o.get('need_imports', [])]
                    pth = rep.write_replay('dedupe', {'cmd': 'eval', 'src': src, 'path': '/d/main.ts', 'expected_requests': want, 'observed': o})
                    if got == want:
                        rep.inconc('%s: counterexample paths %r do not reproduce through prepare() (requests %r)' % (what, ps, got))
                    else:
                        rep.violation('C09/dedupe_import_requests/first-occurrence', 'imports %r: NeedImports lists %r, expected %r' % (ps, got, want), pth)
        rep.sample({'kernel': 'dedupe_import_requests', 'requests': n, 'paths': len(ends)})
        rep.absorb(ex)


def check_collect(rep, cross):
    n_max = BOUNDS[rep.tier]['stmts']
    kinds = ['import', 'reexport', 'export', 'other']
    nseq = 0
    for n in range(1, n_max + 1):
        for shape in itertools.product(kinds, repeat=n):
            nseq += 1
            ex = common.executor(unwind=n + 4, str_cap=3)
            astb.install_rc_models(ex)

            def h_resolve(e, s, c):
                e.havoc_used.add('ModulePath::resolve (uninterpreted here; decided by C18)')
                k = sum(1 for ev in s.events if ev[0] == 'resolve')
                s.event('resolve', c.args[0], c.args[1])
                return e.ret(s, c, Agg('struct', 'ModulePath', {0: str_const(b'R%d' % k)}))
            ex.overrides.append((re.compile(r'^ModulePath::resolve$'), h_resolve))

            def h_tostring(e, s, c):
                v = deref(e, s, c.args[0])
                if isinstance(v, Opaque) and ('jsstr', str(v.id)) in s.extra:
                    return e.ret(s, c, s.extra[('jsstr', str(v.id))])
                return None
            ex.overrides.append((re.compile(r'^<JsString as ToString>::to_string$'), h_tostring))
            fn = common.fn_name(ex, 'Interpreter', 'collect_import_requests_internal')
            IR = {nm: i for i, nm in enumerate(ex.src.structs['ImportRequest'])}
            st = State()
            ab = astb.AB(ex, st)
            specs = []
            stmts = []
            for i, kd in enumerate(shape):
                tok = Opaque('JsString', z3.Int('$spec%d' % i))
                sp = str_const(b's%d' % i)
                st.extra[('jsstr', str(tok.id))] = sp
                lit = ab.struct('StringLiteral', value=tok)
                if kd == 'import':
                    stmts.append(ab.enum('Statement', 'Import', ab.box(ab.struct('ImportDeclaration', source=lit, type_only=Bool(False)))))
                    specs.append(sp)
                elif kd == 'reexport':
                    stmts.append(ab.enum('Statement', 'Export', ab.box(ab.struct('ExportDeclaration', source=ab.some(lit), type_only=Bool(False)))))
                    specs.append(sp)
                elif kd == 'export':
                    stmts.append(ab.enum('Statement', 'Export', ab.box(ab.struct('ExportDeclaration', source=ab.none(), type_only=Bool(False)))))
                else:
                    stmts.append(ab.enum('Statement', 'Empty'))
            prog = ab.struct('Program', body=ab.rc(VecV(stmts, 'Statement')))
            base_tok = Agg('struct', 'ModulePath', {0: str_const(b'BASE')})
            imp_tok = Agg('struct', 'ModulePath', {0: str_const(b'IMPORTER')})
            base = ab.some(ab.ref(base_tok))
            importer = ab.some(ab.ref(imp_tok))
            interp = st.alloc(Agg('struct', 'Interpreter', {}, lazy=True))
            ex.call_function(st, fn, [Ref(interp), ab.ref(prog), base, importer])
            ends = ex.run(st)
            if not common.require_clean(rep, ends, 'collect_import_requests_internal %r' % (shape,)):
                rep.absorb(ex)
                continue
            for e in ends:
                out = e.value
                evs = [ev for ev in e.st.events if ev[0] == 'resolve']
                ok = isinstance(out, VecV) and len(out.items) == len(specs) and len(evs) == len(specs)
                gs = [z3.BoolVal(ok)]
                if ok:
                    for k, (it, sp, ev) in enumerate(zip(out.items, specs, evs)):
                        gs.append(s_eq(it.fields[IR['specifier']], sp))                                   # specifier as written
                        gs.append(s_eq(it.fields[IR['resolved_path']].fields[0], str_const(b'R%d' % k)))   # = resolve(...)'s k-th result
                        gs.append(s_eq(deref(ex, e.st, ev[1]) if isinstance(ev[1], Ref) else ev[1], sp))  # resolve called on this specifier
                        b = ev[2]
                        gs.append(z3.BoolVal(isinstance(b, EnumV) and b.discr == 1 and isinstance(b.payload[1][0], Ref) and
                                             s_eq_concrete(ex, e.st, b.payload[1][0], b'BASE')))           # against resolve_base
                        imp = it.fields[IR['importer']]
                        gs.append(z3.BoolVal(isinstance(imp, EnumV) and imp.discr == 1 and isinstance(imp.payload[1][0], Agg) and
                                             str_is(imp.payload[1][0].fields[0], b'IMPORTER')))
                g = z3.And(gs)
                t = time.time()
                r, m = ex.check_sat_pc(e.st.pc, [z3.Not(g)])
                what = 'collect_import_requests_internal %s: one request per import/re-export, in order, resolved against resolve_base, carrying the importer' % '/'.join(shape)
                rep.obligation(what, r, '<= %d statements' % n_max, time.time() - t)
                if r == 'unsat':
                    cross.append((what, list(e.st.pc) + [z3.Not(g)], 'unsat'))
                elif not rep.seen('C09/collect_import_requests/shape'):
                    lines = {'import': 'import "./s%d.ts";', 'reexport': 'export { x%d } from "./s%d.ts";', 'export': 'export const y%d = 1;', 'other': ';'}
                    src = '\n'.join((lines[kd] % ((i, i) if kd == 'reexport' else (i,) if '%d' in lines[kd] else ())) for i, kd in enumerate(shape)) + '\n1'
                    o = driver.replay([{'cmd': 'eval', 'src': src, 'path': '/d/main.ts'}])[0]
                    rep.validated += 1
                    want = ['/d/s%d.ts' % i for i, kd in enumerate(shape) if kd in ('import', 'reexport')]
                    got = [x['resolved'] for x in o.get('need_imports', [])]
                    pth = rep.write_replay('collect', {'cmd': 'eval', 'src': src, 'path': '/d/main.ts', 'expected_requests': want, 'observed': o})
                    rep.violation('C09/collect_import_requests/shape', 'program %r: NeedImports lists %r, expected %r%s' % (
                        src, got, want, '' if got != want else ' (symbolic counterexample; this program does not expose it)'), pth)
            rep.absorb(ex)
    rep.sample({'kernel': 'collect_import_requests_internal', 'program_shapes': nseq})


def s_eq_concrete(ex, st, ref, lit):
    v = ex.load(st, ref.addr, ref.path)
    return isinstance(v, Agg) and str_is(v.fields[0], lit)


def str_is(s, lit):
    if not isinstance(s, Str):
        return False
    n = z3.simplify(s.n)
    if not z3.is_bv_value(n) or n.as_long() != len(lit):
        return False
    return all(z3.is_bv_value(z3.simplify(b)) and z3.simplify(b).as_long() == c for b, c in zip(s.bytes, lit))


KF_EXPORT_STAR = 'C09/graph/export-star-not-implemented'
GRAPHS = [
    # (name, entry, modules, expected result)  - nested directories: a dependency's own relative imports resolve against ITS directory
    ('nested', '/d/main.ts', {
        '/d/main.ts': 'import { u } from "./util.ts"; import { a } from "./lib/a.ts"; u + ":" + a',
        '/d/util.ts': 'export const u = "top";',
        '/d/lib/a.ts': 'import { u } from "./util.ts"; import { s } from "../shared.ts"; export const a = u + "+" + s;',
        '/d/lib/util.ts': 'export const u = "lib";',
        '/d/shared.ts': 'export const s = "shared";'}, 'top:lib+shared'),
    # diamond: the shared module is reached under two spellings; its body must run exactly once (sibling order is not fixed by C09)
    ('diamond', '/d/main.ts', {
        '/d/main.ts': 'import { b } from "./b.ts"; import { c } from "./c.ts"; b + "|" + c + "|" + globalThis.__dRuns',
        '/d/b.ts': 'import { d } from "./sub/d.ts"; export const b = "b" + d;',
        '/d/c.ts': 'import { d } from "./sub/../sub/d.ts"; export const c = "c" + d;',
        '/d/sub/d.ts': 'globalThis.__dRuns = (globalThis.__dRuns || 0) + 1; export const d = "d";'}, 'bd|cd|1'),
    # a binding re-exported through TWO hops stays a live view of the exporter's variable
    ('reexport-two-hops', '/d/main.ts', {
        '/d/main.ts': 'import { x as x2, bump } from "./a.ts"; import { x as x1 } from "./b.ts"; import { x as x0 } from "./c.ts"; import * as A from "./a.ts"; '
                      'const r = [[x0, x1, x2, A.x].join("/")]; bump(); r.push([x0, x1, x2, A.x].join("/")); r.join(" ")',
        '/d/a.ts': 'export { x, bump } from "./b.ts";',
        '/d/b.ts': 'export { x, bump } from "./c.ts";',
        '/d/c.ts': 'export let x = 1; export function bump() { x = x + 1 }'}, '1/1/1/1 2/2/2/2'),
    # an import that is exported again (`import { x } from ..; export { x }`) is a live view too
    ('import-then-export', '/d/main.ts', {
        '/d/main.ts': 'import { x, f, bump } from "./a.ts"; import * as A from "./a.ts"; const r = [x, A.x, typeof f].join(","); bump(); r + "|" + [x, A.x].join(",")',
        '/d/a.ts': 'import { x, f, bump } from "./c.ts"; export { x, f, bump };',
        '/d/c.ts': 'export let x = 1; export function f() { return 2 } export function bump() { x = x + 1 }'}, '1,1,function|2,2'),
    # `export * from` (known finding: not implemented, the module exports only its own names)
    ('export-star', '/d/main.ts', {
        '/d/main.ts': 'import * as A from "./a.ts"; Object.keys(A).sort().join(",")',
        '/d/a.ts': 'export * from "./c.ts"; export const own = 1;',
        '/d/c.ts': 'export const y = 1; export const z = 2;'}, 'own,y,z'),
    ('reexport', '/d/main.ts', {
        '/d/main.ts': 'import { x, inc } from "./re.ts"; inc(); inc(); x',
        '/d/re.ts': 'export { x, inc } from "./deep/impl.ts";',
        '/d/deep/impl.ts': 'export let x = 1; export function inc() { x++ }'}, 3.0),
]


def check_graphs(rep):
    """replay route: whole graphs through the public API under three supply orders"""
    cmds = []
    for name, entry, mods, want in GRAPHS:
        for order, batch in (('forward', 'all'), ('reverse', 'all'), ('forward', 'one')):
            cmds.append({'cmd': 'module_graph', 'entry': entry, 'modules': mods, 'order': order, 'batch': batch})
    outs = driver.replay(cmds)
    k = 0
    for name, entry, mods, want in GRAPHS:
        for order, batch in (('forward', 'all'), ('reverse', 'all'), ('forward', 'one')):
            o = outs[k]
            k += 1
            rep.validated += 1
            got = o.get('outcome', {})
            val = got.get('complete', {}).get('v', got.get('complete', {}).get('repr')) if isinstance(got, dict) and 'complete' in got else None
            if isinstance(val, str) and isinstance(want, float):
                try:
                    val = float(val)
                except ValueError:
                    pass
            seen = {}
            dup = None
            for rnd in o.get('rounds', []):
                for rq in rnd:
                    if batch == 'all' and rq['resolved'] in seen:
                        dup = rq['resolved']
                    seen[rq['resolved']] = 1
                    if rq['resolved'] not in mods:
                        dup = dup or ('non-canonical path ' + rq['resolved'])
            if val != want or dup:
                p = rep.write_replay('graph-%s' % name, dict(cmds[k - 1], expected=want, observed=o))
                rep.violation(KF_EXPORT_STAR if name == 'export-star' else 'C09/graph/%s' % name, 'module graph %r supplied %s/%s: outcome %r (expected %r)%s' % (
                    name, order, batch, got, want, '; requested twice or non-canonically: %s' % dup if dup else ''), p)
    rep.sample({'kernel': 'module graphs through the public API', 'graphs': len(GRAPHS), 'supply_orders': 3})


def check_resolve_base(rep, cross):
    """(3) Interpreter::resolve_module_specifier - used when a module body binds its imports and re-exports - resolves against the module
    that is being executed (current_module_path) and only without one against the entry module: the same base that
    collect_import_requests_internal was given when the request for that specifier was issued."""
    ex = common.executor(unwind=3, str_cap=2)
    F = {n: i for i, n in enumerate(ex.src.structs['Interpreter'])}
    for need in ('current_module_path', 'main_module_path'):
        if need not in F:
            raise driver.Inconclusive('Interpreter.%s not found (renamed?)' % need)

    def h_resolve(e, s, c):
        s.event('resolve', c.args[0], c.args[1])
        e.havoc_used.add('ModulePath::resolve (uninterpreted here; C18 decides it)')
        return e.ret(s, c, Agg('struct', 'ModulePath', {0: Opaque('resolved')}))
    ex.overrides.append((re.compile(r'^ModulePath::resolve$'), h_resolve))
    fn = common.fn_name(ex, 'Interpreter', 'resolve_module_specifier')
    st = State()
    dc = z3.BitVec('current_is_some', 64)
    dm = z3.BitVec('main_is_some', 64)
    st.assume(z3.ULT(dc, 2))
    st.assume(z3.ULT(dm, 2))
    cur = EnumV('Option<ModulePath>', dc, {1: {0: Agg('struct', 'ModulePath', {0: Opaque('CURRENT')})}})
    main = EnumV('Option<ModulePath>', dm, {1: {0: Agg('struct', 'ModulePath', {0: Opaque('MAIN')})}})
    a = st.alloc(Agg('struct', 'Interpreter', {F['current_module_path']: cur, F['main_module_path']: main}, lazy=True))
    spec = ex.fresh_str(st, 2, 'spec')
    ex.call_function(st, fn, [Ref(a), spec])
    ends = ex.run(st)
    if not common.require_clean(rep, ends, 'resolve_module_specifier'):
        return
    n = 0
    for k, e in enumerate(ends):
        evs = [x for x in e.st.events if x[0] == 'resolve']
        if len(evs) != 1:
            rep.inconc('resolve_module_specifier path %d: %d calls of ModulePath::resolve' % (k, len(evs)))
            continue
        n += 1
        base = evs[0][2]
        # which base was passed?  None / a reference into the current_module_path / the main_module_path field of the interpreter
        if not isinstance(base, EnumV):
            rep.inconc('resolve_module_specifier path %d: base of unexpected shape %r' % (k, base))
            continue
        bd = base.discr_expr()
        fld = None
        pl = base.payload.get(1, {}).get(0)
        if isinstance(pl, Ref) and pl.addr == a and pl.path and pl.path[0][0] == 'f':
            fld = pl.path[0][1]
        used = {F['current_module_path']: 'CURRENT', F['main_module_path']: 'MAIN'}.get(fld, 'none' if fld is None else '?')
        is_cur = z3.BoolVal(fld == F['current_module_path'])
        is_main = z3.BoolVal(fld == F['main_module_path'])
        goal = z3.And(z3.Implies(dc == 1, z3.And(bd == 1, is_cur)),
                      z3.Implies(z3.And(dc == 0, dm == 1), z3.And(bd == 1, is_main)),
                      z3.Implies(z3.And(dc == 0, dm == 0), bd == 0))
        r, m = ex.check_sat_pc(e.st.pc, [z3.Not(goal)])
        what = 'resolve_module_specifier path %d: the base is the module being executed, else the entry module, else none' % k
        rep.obligation(what, r, 'any specifier; both paths present or absent', 0.0)
        if r == 'unsat':
            pass
        elif not rep.seen('C09/resolve_module_specifier/wrong-base'):
            cs, ms = m.eval(dc, model_completion=True).as_long(), m.eval(dm, model_completion=True).as_long()
            outs = driver.replay([{'cmd': 'module_graph', 'entry': g[1], 'modules': g[2], 'order': 'forward', 'batch': 'all'} for g in GRAPHS[:1]])
            rep.validated += 1
            p = rep.write_replay('resolve-base', {'cmd': 'module_graph', 'entry': GRAPHS[0][1], 'modules': GRAPHS[0][2], 'order': 'forward', 'batch': 'all',
                                                  'expected': GRAPHS[0][3], 'observed': outs[0]})
            rep.violation('C09/resolve_module_specifier/wrong-base',
                          'resolve_module_specifier resolves against %s when current_module_path is %s and main_module_path is %s; nested graph through the API: %r' % (
                              used, 'set' if cs else 'unset', 'set' if ms else 'unset', outs[0].get('outcome')), p)
    rep.vacuity.append('resolve_module_specifier: %d paths with one resolve call' % n)
    rep.sample({'kernel': 'resolve_module_specifier base', 'paths': n})
    rep.absorb(ex)


def run(rep):
    b = BOUNDS[rep.tier]
    rep.bounds = dict(requests_max=b['reqs'], statements_max=b['stmts'], paths='symbolic, 1 byte over {a,b} (only equality matters)')
    rep.assumptions = ['FxHashSet modelled as an association-list set with structural key equality', 'ModulePath::resolve is an uninterpreted function in kernel (2); C18 decides it',
                       'JsString::to_string returns the string content']
    rep.outside = ['evaluation order, exactly-once execution of module bodies', 'live bindings through namespace getters', 'filter_missing_imports / filter_unprovided_imports / process_pending_modules']
    cross = []
    # replay route: canonical, deduplicated NeedImports through the public API
    src = 'import "./a.ts"; import "./x/../a.ts"; import "./b.ts"; export { q } from "././b.ts"; 1'
    o = driver.replay([{'cmd': 'eval', 'src': src, 'path': '/d/main.ts'}])[0]
    rep.validated += 1
    got = [x['resolved'] for x in o.get('need_imports', [])]
    if got != ['/d/a.ts', '/d/b.ts']:
        p = rep.write_replay('need-imports', {'cmd': 'eval', 'src': src, 'path': '/d/main.ts', 'observed': o})
        rep.violation('C09/need-imports/concrete', 'NeedImports for %r lists %r, expected one canonical request per file' % (src, got), p)
    check_graphs(rep)
    check_dedupe(rep, cross)
    check_collect(rep, cross)
    check_resolve_base(rep, cross)
    rep.cross = driver.cross_check(cross, 300, 'ALL', rep.tier, rep.seed)
    rep.extra['cross_checked_obligations'] = len(cross)


def replay_file(path):
    d = json.load(open(path))
    if d.get('cmd') == 'module_graph':
        o = driver.replay([{k: d[k] for k in ('cmd', 'entry', 'modules', 'order', 'batch') if k in d}])[0]
        print(json.dumps(o))
        got = o.get('outcome', {})
        val = got.get('complete', {}).get('v', got.get('complete', {}).get('repr')) if isinstance(got, dict) and 'complete' in got else None
        return 0 if str(val) == str(d.get('expected')) else 1
    o = driver.replay([{'cmd': 'eval', 'src': d['src'], 'path': d.get('path')}])[0]
    print(json.dumps(o))
    return 0
