"""Lexer position bookkeeping kernel (C20 b / C05 b).

Lexer::advance is executed N times (N = 3 quick / 4 thorough) over a sequence of SYMBOLIC characters drawn from
{LF, CR, U+2028, U+2029, TAB, space, 'a', '/', '*', 'é' (2 bytes), '€' (3 bytes), U+1F600 (4 bytes)}; Peekable<CharIndices> is a cursor over
that symbolic sequence (byte offsets = sums of len_utf8).  After every prefix the lexer's (line, column, current_pos) must equal the
reference: line = 1 + number of line-terminator sequences consumed (LF, LS, PS, and CR not followed by LF; CRLF counts once),
column = 1 + characters since the last terminator, current_pos = bytes consumed; no arithmetic panic.
Known finding: a bare CR (not followed by LF) is not treated as a line terminator.
"""
import re
import time
import z3

from emir import driver
from emir.values import *
from emir.symex import State
from emir.models import deref
from . import common

BOUNDS = {'quick': 3, 'thorough': 4}
ALPHA = [0x0A, 0x0D, 0x2028, 0x2029, 0x09, 0x20, 0x61, 0x2F, 0x2A, 0xE9, 0x20AC, 0x1F600]
KF_CR = 'C20/lexer/bare-CR-not-a-line-terminator'


def len_utf8(c):
    return z3.If(z3.ULT(c, 0x80), z3.BitVecVal(1, 64), z3.If(z3.ULT(c, 0x800), z3.BitVecVal(2, 64), z3.If(z3.ULT(c, 0x10000), z3.BitVecVal(3, 64), z3.BitVecVal(4, 64))))


def install_cursor_models(ex):
    def nxt(e, s, c):
        r = c.args[0]
        it = deref(e, s, r)
        if not (isinstance(it, Agg) and it.ty == 'CharCursor'):
            return None
        chars, pos = it.fields[0], it.fields[1]
        if pos >= len(chars):
            return e.ret(s, c, e.none())
        off = z3.BitVecVal(0, 64)
        for k in range(pos):
            off = off + len_utf8(chars[k])
        e.store(s, r.addr, r.path, Agg('iter', 'CharCursor', {0: chars, 1: pos + 1}))
        e.models_used.add('Peekable<CharIndices>::next as a cursor over the symbolic character sequence')
        return e.ret(s, c, e.some(Agg('tuple', 'tuple', {0: Int(z3.simplify(off), False), 1: Char(chars[pos])})))
    ex.overrides.append((re.compile(r'^<Peekable<CharIndices> as Iterator>::next$|^<Peekable<CharIndices<.*>> as Iterator>::next$'), nxt))

    def l8(e, s, c):
        e.models_used.add('char::len_utf8')
        return e.ret(s, c, Int(len_utf8(c.args[0].e), False))
    ex.overrides.append((re.compile(r'^char::len_utf8$|^methods::len_utf8$'), l8))

    def peek(e, s, c):
        r = c.args[0]
        it = deref(e, s, r)
        if not (isinstance(it, Agg) and it.ty == 'CharCursor'):
            return None
        chars, pos = it.fields[0], it.fields[1]
        if pos >= len(chars):
            # end of the modelled prefix: what follows is arbitrary (any character or end of input)
            more = z3.Bool(fresh_name('has_more'))
            nxt_c = z3.BitVec(fresh_name('next_ch'), 32)
            s.assume(z3.Or([nxt_c == a for a in ALPHA]))
            s.extra.setdefault('lookahead', []).append((pos, more, nxt_c))
            cell = s.alloc(Agg('tuple', 'tuple', {0: Int(z3.BitVecVal(0, 64), False), 1: Char(nxt_c)}))
            return e.ret(s, c, e.option_ite(more, Ref(cell)))
        cell = s.alloc(Agg('tuple', 'tuple', {0: Int(z3.BitVecVal(0, 64), False), 1: Char(chars[pos])}))
        e.models_used.add('Peekable<CharIndices>::peek on the symbolic character sequence')
        return e.ret(s, c, e.some(Ref(cell)))
    ex.overrides.append((re.compile(r'^Peekable::peek$'), peek))


def reference(chars, upto, strict_cr):
    """(line, column, pos) after consuming chars[:upto] as z3 terms"""
    line = z3.BitVecVal(1, 32)
    col = z3.BitVecVal(1, 32)
    pos = z3.BitVecVal(0, 64)
    for k in range(upto):
        c = chars[k]
        is_lf = c == 0x0A
        is_cr = c == 0x0D
        is_ls = z3.Or(c == 0x2028, c == 0x2029)
        if strict_cr:
            # CR is a terminator unless the next consumed char is LF (then the pair counts once, at the LF)
            nxt_is_lf = (chars[k + 1] == 0x0A) if k + 1 < upto else z3.BoolVal(False)
            term = z3.Or(is_lf, is_ls, z3.And(is_cr, z3.Not(nxt_is_lf)))
        else:
            term = z3.Or(is_lf, is_ls)
        line = z3.If(term, line + 1, line)
        col = z3.If(term, z3.BitVecVal(1, 32), col + 1)
        pos = pos + len_utf8(c)
    return line, col, pos


def check(rep, cross, pid):
    N = BOUNDS[rep.tier]
    ex = common.executor(unwind=N + 3)
    install_cursor_models(ex)
    fn = common.fn_name(ex, 'Lexer', 'advance')
    L = {n: i for i, n in enumerate(ex.src.structs['Lexer'])}
    st = State()
    chars = [z3.BitVec('ch%d' % i, 32) for i in range(N)]
    for c in chars:
        st.assume(z3.Or([c == a for a in ALPHA]))
    lex = Agg('struct', 'Lexer', {L['chars']: Agg('iter', 'CharCursor', {0: chars, 1: 0}), L['chars_base_offset']: Int(z3.BitVecVal(0, 64), False),
                                  L['current_pos']: Int(z3.BitVecVal(0, 64), False), L['line']: Int(z3.BitVecVal(1, 32), False),
                                  L['column']: Int(z3.BitVecVal(1, 32), False)}, lazy=True)
    a = st.alloc(lex)
    states = [st]
    nobl = 0
    for step in range(1, N + 1):
        nxt = []
        for s in states:
            s.frames = []
            ex.call_function(s, fn, [Ref(a)])
            for e in ex.run(s):
                if e.status == 'panic':
                    r, m = ex.check_sat_pc(e.st.pc, [])
                    rep.obligation('Lexer::advance x%d: no arithmetic panic' % step, 'sat', '%d symbolic characters' % N, 0.0)
                    report(rep, pid, m, chars, step, 'arithmetic panic in advance (%s)' % e.detail[:60], 'panic')
                    continue
                if e.status != 'return':
                    rep.inconc('Lexer::advance: %s %s' % (e.status, e.detail[:160]))
                    continue
                lv = e.st.store[a]
                got = (lv.fields[L['line']].e, lv.fields[L['column']].e, lv.fields[L['current_pos']].e)
                # (i) byte position and column/line with CR handled as the implementation documents (CRLF via the LF)
                wl, wc, wp = reference(chars, step, strict_cr=False)
                g1 = z3.And(got[2] == wp)
                # (ii) ECMAScript: CR alone is a line terminator too.  Judged once the character after the CR is known, i.e. on prefixes
                sl, sc, _ = reference(chars, step, strict_cr=True)
                last_is_cr = chars[step - 1] == 0x0D
                # a CR at the very end of the consumed prefix is judged when the next character is consumed
                g2 = z3.Or(last_is_cr, z3.And(got[0] == sl, got[1] == sc))
                # role split for the known finding: the prefix contains a CR not followed by LF
                bare = z3.Or([z3.And(chars[k] == 0x0D, chars[k + 1] != 0x0A) for k in range(step - 1)] + [z3.BoolVal(False)])
                for label, g, extra in (('current_pos == bytes consumed', g1, []),
                                        ('line/column follow ECMAScript line terminators (no bare CR in the prefix)', g2, [z3.Not(bare)])):
                    t = time.time()
                    r, m = ex.check_sat_pc(e.st.pc, extra + [z3.Not(g)])
                    nobl += 1
                    what = 'Lexer::advance x%d: %s' % (step, label)
                    rep.obligation(what, r, '%d symbolic characters over %d code points' % (N, len(ALPHA)), time.time() - t)
                    if r == 'unsat':
                        cross.append((what, list(e.st.pc) + extra + [z3.Not(g)], 'unsat'))
                    else:
                        report(rep, pid, m, chars, step, label, 'position')
                r, m = ex.check_sat_pc(e.st.pc, [bare, z3.Not(g2)])
                if r == 'sat':
                    report(rep, pid, m, chars, step, 'a bare CR is not counted as a line terminator', 'bare-cr')
                nxt.append(e.st)
        states = nxt
    rep.sample({'kernel': 'Lexer::advance sequence', 'characters': N, 'alphabet': ['U+%04X' % a_ for a_ in ALPHA], 'end_states': len(states), 'obligations': nobl})
    rep.vacuity.append('Lexer::advance: %d end states after %d characters' % (len(states), N))
    rep.absorb(ex)


def report(rep, pid, m, chars, step, label, role):
    cps = [m.eval(c, model_completion=True).as_long() for c in chars[:step]]
    text = ''.join(chr(c) for c in cps)
    key = KF_CR.replace('C20', pid) if role == 'bare-cr' else '%s/lexer/%s' % (pid, role)
    if rep.seen(key) or (key in rep.known and any(k == key for k, _ in rep.known_hits)):
        return
    # replay: put the characters (inside a comment-free position: after `0;`) before a failing token and read the reported line/column
    src = '0;' + text + 'null.x'
    o = driver.replay([{'cmd': 'eval', 'src': src}])[0]
    rep.validated += 1
    err = o.get('error', '') or o.get('panic', '')
    mloc = re.search(r':(\d+):(\d+)\)?\s*$', err.strip().split('\n')[-1]) if err else None
    # expected location of `null.x` by ECMAScript rules
    line, col = 1, 3
    i = 0
    while i < len(text):
        ch = text[i]
        if ch == '\r' and i + 1 < len(text) and text[i + 1] == '\n':
            i += 1
            col += 1
            continue
        if ch in '\n\r  ':
            line += 1
            col = 1
        else:
            col += 1
        i += 1
    p = rep.write_replay('lexer-%s' % role, {'cmd': 'eval', 'src': src, 'code_points': ['U+%04X' % c for c in cps], 'expected_line': line, 'observed_error': err})
    if mloc and int(mloc.group(1)) == line and role != 'panic':
        rep.inconc('lexer kernel: %s for %r does not reproduce (reported line %s, expected %d)' % (label, cps, mloc.group(1), line))
        return
    rep.violation(key, '%s: after the characters %s the failing token is reported at %s, expected line %d' % (
        label, ['U+%04X' % c for c in cps], (mloc.group(0).strip() if mloc else err[:80]), line), p)


# ---------------------------------------------------------------------------------------------------------------------------------
# checkpoint / restore round trip (C05: speculative parses rewind the lexer; C20: positions after a rewind)
# ---------------------------------------------------------------------------------------------------------------------------------
CK_FIELDS = ['current_pos', 'line', 'column', 'start_pos', 'start_line', 'start_column', 'saw_newline']


def check_checkpoint(rep, cross, pid):
    """Lexer::checkpoint(); <arbitrary scanning: every position field havoc'd>; Lexer::restore(cp)  ==  identity on the lexer.

    Pre-state: every position field symbolic, `source` a symbolic ASCII string (<= 8 bytes), invariant current_pos <= source.len().
    Post: the seven position fields equal their values at the checkpoint, chars_base_offset == current_pos (byte offsets reported by the
    re-created iterator are relative to it), and the re-created character iterator runs over exactly source[current_pos..].
    """
    from emir.strings import s_at
    ex = common.executor(unwind=4)
    it_arg = []

    def char_indices(e, s, c):
        v = deref(e, s, c.args[0])
        if not isinstance(v, Str):
            return None
        e.models_used.add('str::char_indices / Iterator::peekable as "iterator over this string" (ASCII)')
        return e.ret(s, c, Agg('iter', 'CharIndicesOf', {0: v}))
    ex.overrides.append((re.compile(r'^str::char_indices$'), char_indices))

    def peekable(e, s, c):
        v = c.args[0]
        if isinstance(v, Agg) and v.ty == 'CharIndicesOf':
            return e.ret(s, c, v)
        return None
    ex.overrides.append((re.compile(r'^Iterator::peekable$|^<CharIndices<.*> as Iterator>::peekable$|^<CharIndices as Iterator>::peekable$'), peekable))

    L = {n: i for i, n in enumerate(ex.src.structs['Lexer'])}
    fck = common.fn_name(ex, 'Lexer', 'checkpoint')
    frs = common.fn_name(ex, 'Lexer', 'restore')
    st = State()

    def sym(prefix):
        d = {}
        for k in CK_FIELDS + ['chars_base_offset']:
            if k == 'saw_newline':
                d[k] = Bool(z3.Bool(fresh_name(prefix + k)))
            else:
                d[k] = Int(z3.BitVec(fresh_name(prefix + k), 64 if k.endswith('pos') or k.endswith('offset') else 32), False)
        return d
    pre = sym('pre_')
    n = z3.BitVec(fresh_name('src_len'), LW)
    src = Str(n, [z3.BitVec(fresh_name('src_b'), 8) for _ in range(8)])
    st.assume(z3.ULE(n, 8))
    for b in src.bytes:
        st.assume(z3.ULT(b, 0x80))
    st.assume(z3.ULE(pre['current_pos'].e, z3.ZeroExt(64 - LW, n)))
    fields = {L[k]: v for k, v in pre.items()}
    fields[L['source']] = Ref(st.alloc(src))
    a = st.alloc(Agg('struct', 'Lexer', fields, lazy=True))
    ex.call_function(st, fck, [Ref(a)])
    ends = list(ex.run(st))
    if not common.require_clean(rep, ends, 'Lexer::checkpoint'):
        return
    nobl = 0
    nend = 0
    for e in ends:
        s = e.st
        cp = e.value
        hv = sym('scan_')
        lv = s.store[a]
        for k, v in hv.items():
            lv.fields[L[k]] = v
        lv.fields[L['chars']] = Agg('iter', 'CharIndicesOf', {0: Str(z3.BitVec(fresh_name('scan_n'), LW), [z3.BitVec(fresh_name('scan_b'), 8) for _ in range(8)])})
        s.frames = []
        ex.call_function(s, frs, [Ref(a), cp])
        ends2 = list(ex.run(s))
        if not common.require_clean(rep, ends2, 'Lexer::restore'):
            return
        for e2 in ends2:
            nend += 1
            lv = e2.st.store[a]
            goals = []
            for k in CK_FIELDS:
                got = lv.fields.get(L[k])
                goals.append(('%s restored' % k, (got.e == pre[k].e) if got is not None else z3.BoolVal(False)))
            bo = lv.fields.get(L['chars_base_offset'])
            goals.append(('chars_base_offset == current_pos at the checkpoint', (bo.e == pre['current_pos'].e) if bo is not None else z3.BoolVal(False)))
            it = lv.fields.get(L['chars'])
            if isinstance(it, Agg) and it.ty == 'CharIndicesOf':
                t_ = it.fields[0]
                p16 = z3.Extract(LW - 1, 0, pre['current_pos'].e)
                same = [t_.n == n - p16]
                for i in range(8):
                    idx = z3.BitVecVal(i, LW)
                    same.append(z3.Implies(z3.ULT(idx, n - p16), s_at(t_, idx) == s_at(src, p16 + idx)))
                goals.append(('character iterator re-created over source[current_pos..]', z3.And(same)))
            else:
                goals.append(('character iterator re-created over source[current_pos..]', z3.BoolVal(False)))
            for label, g in goals:
                t = time.time()
                r, m = ex.check_sat_pc(e2.st.pc, [z3.Not(g)])
                nobl += 1
                what = 'Lexer::checkpoint -> scan -> restore: %s' % label
                rep.obligation(what, r, 'any lexer state; ASCII source <= 8 bytes', time.time() - t)
                if r == 'unsat':
                    cross.append((what, list(e2.st.pc) + [z3.Not(g)], 'unsat'))
                elif r == 'sat':
                    report_checkpoint(rep, pid, label)
                else:
                    rep.inconc('%s: solver answered %s' % (what, r))
    rep.sample({'kernel': 'Lexer::checkpoint/restore round trip', 'end_states': nend, 'obligations': nobl})
    rep.vacuity.append('Lexer::checkpoint/restore: %d end states' % nend)
    rep.absorb(ex)


# programs whose meaning depends on a speculative parse rewinding the lexer exactly (line, column, token start, newline flag, characters)
REWIND_PROGRAMS = [
    # `<` tried as a type assertion / generic call first, then re-read as a comparison; the failing token sits after the rewind
    ('compare-then-fail', 'let a = 1, b = 2;\nlet r = a < b;\nnull.x', 3),
    ('compare-chain', 'let f = 1, g = 2, h = 3;\nlet r = f < g > h;\nnull.x', 3),
    ('paren-then-fail', 'let a = 1;\nlet r = (a\n  , 2);\nnull.x', 4),
    ('arrow-lookalike', 'let a = 1, b = 2;\nlet r = (a, b)\n;null.x', 3),
    # restricted production: the newline flag must survive the rewind (ASI after `x` before `++y` / return)
    ('asi-after-rewind', 'let x = 1, y = 1;\nlet f = (x) \n=> x;\n', None),
]


def report_checkpoint(rep, pid, label):
    key = '%s/lexer/checkpoint-restore' % pid
    if rep.seen(key):
        return
    # replay: programs through the real build whose reported error line depends on the rewind
    bad = None
    for name, src, line in REWIND_PROGRAMS:
        if line is None:
            continue
        o = driver.replay([{'cmd': 'eval', 'src': src}])[0]
        rep.validated += 1
        err = o.get('error', '') or o.get('panic', '')
        mloc = re.search(r':(\d+):(\d+)\)?\s*$', err.strip().split('\n')[-1]) if err else None
        if 'panic' in o or not mloc or int(mloc.group(1)) != line:
            bad = (name, src, line, err)
            break
    p = rep.write_replay('lexer-checkpoint', {'cmd': 'eval', 'src': bad[1] if bad else REWIND_PROGRAMS[0][1], 'expected_line': bad[2] if bad else None,
                                              'observed_error': bad[3] if bad else None, 'obligation': label})
    if bad:
        rep.violation(key, 'restore(checkpoint()) is not the identity (%s): program %r reports %r, expected line %d' % (label, bad[0], bad[3][:80], bad[2]), p)
    else:
        # the counterexample is a lexer STATE; no witness program of the fixed list shows it - reported as the symbolic counterexample (DESIGN 9.2)
        rep.violation(key, 'restore(checkpoint()) is not the identity on the lexer state: %s (symbolic counterexample; the witness programs do not show it)' % label, p)
