"""C04 - TypeScript's run-time constructs behave as their JS emit: the enum auto-increment kernel.

Enums are compiled to plain objects (forward and reverse property stores); the only arithmetic the compiler does itself is
TypeScript's auto-increment: a member without initialiser gets (previous constant member value) + 1, computed in doubles.
Decided: Compiler::compile_enum_declaration executed symbolically on two-member enums
   enum E { A = <any f64 literal>, B }      enum E { A = -<any f64 literal>, B }      enum E { A, B }
with BytecodeBuilder recorded as events: the value loaded for B equals the TypeScript emit (A + 1), the forward and reverse
stores are emitted for both members in declaration order, and compilation never panics.
(EnumData in value.rs is not reachable from compiled programs - enums are never built as ExoticObject::Enum - so it is not the kernel.)
"""
import json
import math
import re
import time
import z3

from emir import driver
from emir.values import *
from emir.symex import State
from . import common, astb, vmarms

KF = 'C04/compile_enum_declaration/auto-increment'


def build(ex, st, shape, xbits):
    ab = astb.AB(ex, st)
    x = z3.fpBVToFP(xbits, F64)
    if shape == 'literal':
        init = ab.some(ab.number_literal(x))
    elif shape == 'negated':
        un = ab.struct('UnaryExpression', operator=ab.enum('UnaryOp', 'Minus'), argument=ab.rc(ab.number_literal(x)), prefix=Bool(True))
        init = ab.some(ab.enum('Expression', 'Unary', un))
    else:
        init = ab.none()
    if shape in ('literal3', 'auto3', 'mid3'):
        # thorough: three members - { A = x, B, C }, { A, B, C }, { A, B = x, C }
        lit = ab.some(ab.number_literal(x))
        inits = {'literal3': [lit, ab.none(), ab.none()], 'auto3': [ab.none(), ab.none(), ab.none()], 'mid3': [ab.none(), lit, ab.none()]}[shape]
        ms = [ab.struct('EnumMember', id=ab.ident('M%d' % i), initializer=ini) for i, ini in enumerate(inits)]
        decl = ab.struct('EnumDeclaration', id=ab.ident('E'), members=VecV(ms, 'EnumMember'), const_=Bool(False))
        comp = st.alloc(Agg('struct', 'Compiler', {}, lazy=True))
        return Ref(comp), ab.ref(decl)
    ma = ab.struct('EnumMember', id=ab.ident('A'), initializer=init)
    mb = ab.struct('EnumMember', id=ab.ident('B'), initializer=ab.none())
    decl = ab.struct('EnumDeclaration', id=ab.ident('E'), members=VecV([ma, mb], 'EnumMember'), const_=Bool(False))
    comp = st.alloc(Agg('struct', 'Compiler', {}, lazy=True))
    return Ref(comp), ab.ref(decl)


def loaded_values(ex, events):
    """the sequence of (kind, value) loaded into the value register by LoadInt / emit_load_number"""
    li = ex.variant_index('Op', 'LoadInt')
    out = []
    for e in events:
        if e[0] == 'emit' and isinstance(e[1], EnumV) and e[1].discr == li:
            out.append(('LoadInt', e[1].payload[li][1]))
        elif e[0] == 'emit_load_number':
            out.append(('number', e[1][1]))
    return out


def ts_emit(shape, x):
    """values TypeScript assigns to A and B"""
    if shape == 'auto':
        return 0.0, 1.0
    a = x if shape == 'literal' else -x
    return a, a + 1.0


SER_E = 'Object.keys(E).sort().map(k => k + "=" + (Object.is(E[k], -0) ? "-0" : String(E[k])) + ":" + typeof E[k]).join("|")'
PAIRS = [
    # (name, TypeScript program, the JavaScript the TypeScript compiler emits for it); both end with the same serialising expression
    ('enum-negative-zero', 'enum E { A = -0, B, C = -5, D } ' + SER_E,
     'var E; (function (E) { E[E["A"] = -0] = "A"; E[E["B"] = 1] = "B"; E[E["C"] = -5] = "C"; E[E["D"] = -4] = "D"; })(E || (E = {})); ' + SER_E),
    ('enum-mixed', 'enum E { A = 0, B = "hello", C = 1 } ' + SER_E,
     'var E; (function (E) { E[E["A"] = 0] = "A"; E["B"] = "hello"; E[E["C"] = 1] = "C"; })(E || (E = {})); ' + SER_E),
    ('enum-string-concat', 'enum E { A = "a", B = A + "b" } ' + SER_E,
     'var E; (function (E) { E["A"] = "a"; E["B"] = "ab"; })(E || (E = {})); ' + SER_E),
    ('namespace-function-merge', 'function N() { return 1 } namespace N { export const x = 2; } String(N() + N.x)',
     'function N() { return 1 } (function (N) { N.x = 2; })(N || (N = {})); String(N() + N.x)'),
    ('parameter-properties', 'class A { log; constructor(public owner: string, private readonly balance = 10, note?: string) { this.log = this.owner + ":" + this.balance + ":" + note; '
     'this.owner = owner.toUpperCase(); } } const a = new A("ann"); [a.log, a.owner, (a as any).balance].join()',
     'class A { log; constructor(owner, balance = 10, note) { this.owner = owner; this.balance = balance; this.log = this.owner + ":" + this.balance + ":" + note; '
     'this.owner = owner.toUpperCase(); } } const a = new A("ann"); [a.log, a.owner, a.balance].join()'),
    ('parameter-property-early-return', 'class C { constructor(public x: number) { if (x) return; } } String(new C(1).x)',
     'class C { constructor(x) { this.x = x; if (x) return; } } String(new C(1).x)'),
    ('parameter-property-second-only', 'class P { constructor(a: number, readonly b: number) {} } Object.keys(new P(1, 2)).join()',
     'class P { constructor(a, b) { this.b = b; } } Object.keys(new P(1, 2)).join()'),
]


def check_pairs(rep):
    """replay route: a TypeScript program and its JavaScript emit give the same serialised result"""
    outs = driver.replay([{'cmd': 'eval', 'src': x} for _, ts, js in PAIRS for x in (ts, js)])
    bad = []
    for i, (nme, ts, js) in enumerate(PAIRS):
        rep.validated += 2
        a, b = outs[2 * i], outs[2 * i + 1]
        va = (a.get('value') or {}).get('v', a.get('error'))
        vb = (b.get('value') or {}).get('v', b.get('error'))
        if va != vb:
            bad.append((nme, ts, js, va, vb))
    return bad


def check_parameter_properties(rep, cross):
    """Compiler::compile_constructor_body with one parameter `x` (any accessibility / readonly flags) and a one-statement body: the store
    `this.x = x` is emitted iff the parameter is a parameter property (an accessibility modifier or `readonly`), and BEFORE the first
    statement of the body is compiled - the TypeScript emit puts the assignments first"""
    ex = common.executor(unwind=3)
    astb.install_rc_models(ex)
    astb.BuilderStub(ex)
    ex.auto_havoc = True
    ex.havoc(r'^Compiler::new$', ret=lambda e, s, c: Agg('struct', 'Compiler', {}, lazy=True, nm='$nested'))
    try:
        fn = common.fn_name(ex, 'Compiler', 'compile_constructor_body')
    except driver.Inconclusive as err:
        rep.inconc(str(err))
        return
    f = ex.mir.get(fn)
    st = State()
    ab = astb.AB(ex, st)
    acc = z3.BitVec('has_accessibility', 64)
    st.assume(z3.ULT(acc, 2))
    ro = z3.Bool('is_readonly')
    param = ab.struct('FunctionParam', pattern=ab.enum('Pattern', 'Identifier', ab.ident('x')), accessibility=EnumV('Option<Accessibility>', acc, {}, lazy=True),
                      readonly=Bool(ro), decorators=VecV((), 'Decorator'), optional=Bool(z3.BoolVal(False)))
    stmt = EnumV('Statement', z3.BitVec('stmt_kind', 64), {}, lazy=True, nm='$stmt')
    st.assume(z3.ULT(z3.BitVec('stmt_kind', 64), len(ex.enum_variants('Statement'))))
    body = ab.struct('BlockStatement', body=VecV((stmt,), 'Statement'))
    ctor = ab.struct('ClassConstructor', params=VecV((param,), 'FunctionParam'), body=body)
    comp = st.alloc(Agg('struct', 'Compiler', {}, lazy=True))
    args = [Ref(comp), ab.ref(ctor)]
    for i, (a_, t) in enumerate(f.args[2:], 2):
        if t.startswith('&[') or t.startswith('&mut ['):
            args.append(Ref(st.alloc(VecV((), None))))
        else:
            args.append(ex.fresh(st, t, '$a%d' % i))
    ex.call_function(st, fn, args)
    try:
        ends = ex.run(st, max_paths=6000)
    except Exception as err:
        rep.inconc('compile_constructor_body: %s' % str(err)[:140])
        return
    sp = ex.variant_index('Op', 'SetPropertyConst')
    n = 0
    bad = None
    for e in ends:
        if e.status in ('bound', 'panic'):
            continue
        if e.status != 'return':
            rep.inconc('compile_constructor_body: %s %s' % (e.status, e.detail[:140]))
            continue
        if not (isinstance(e.value, EnumV) and e.value.discr == 0):
            continue
        n += 1
        evs = e.st.events
        first_stmt = next((i for i, x in enumerate(evs) if x[0] == 'call' and str(x[1]).endswith('compile_statement_impl')), None)
        stores = [i for i, x in enumerate(evs) if x[0] == 'emit' and isinstance(x[1], EnumV) and x[1].discr == sp]
        is_prop = z3.Or(acc == 1, ro)
        before = [i for i in stores if first_stmt is None or i < first_stmt]
        g = z3.And(z3.Implies(is_prop, z3.BoolVal(len(before) >= 1)), z3.Implies(z3.Not(is_prop), z3.BoolVal(len(stores) == 0)))
        r, m = ex.check_sat_pc(e.st.pc, [z3.Not(g)])
        if r == 'sat' and bad is None:
            bad = (len(stores), len(before), first_stmt is not None)
        elif r == 'unsat':
            cross.append(('compile_constructor_body parameter property store', list(e.st.pc) + [z3.Not(g)], 'unsat'))
    what = 'compile_constructor_body: `this.x = x` is emitted iff x is a parameter property, before the first body statement'
    rep.obligation(what, 'sat' if bad else 'unsat', '%d Ok paths; one parameter, one body statement of any kind' % n, 0.0)
    if bad and not rep.seen('C04/compile_constructor_body/parameter-property-store'):
        p = rep.write_replay('param-prop', {'stores': bad[0], 'stores_before_body': bad[1], 'body_compiled': bad[2]})
        rep.violation('C04/compile_constructor_body/parameter-property-store', 'compile_constructor_body has a path with %d parameter-property stores, %d of them before the body (symbolic counterexample; see the emit pairs for a program)' % (bad[0], bad[1]), p)
    if n == 0:
        rep.inconc('compile_constructor_body: no Ok path (vacuity)')
    rep.vacuity.append('compile_constructor_body: %d Ok paths' % n)
    rep.sample({'kernel': 'compile_constructor_body parameter properties', 'ok_paths': n})
    rep.absorb(ex)


def run(rep):
    rep.bounds = dict(members='2 (thorough: also 3)', initializer='any f64 literal / negated literal / none', loops='member loop unrolled for 2 members')
    rep.assumptions = [
        'BytecodeBuilder methods are recorded as events (alloc_register succeeds); compile_enum_init_expression is havoc\'d (it compiles the initialiser expression itself)',
        'numeric literals are non-negative, finite or +Infinity doubles (what the lexer produces)',
    ]
    rep.outside = ['computed and string members, const enums, merged declarations', 'namespaces, parameter properties, abstract classes',
                   'key order of Object.keys on enums', 'how the parser builds the AST']
    cross = []
    fixed_vectors = [('enum E {A=2147483647, B}; E.B', 2147483648.0), ('enum E {A=1.5, B}; E.B', 2.5), ('enum E {A=-3, B}; E.B', -2.0),
                     ('enum E {A, B}; E.B', 1.0), ('enum E {A=7, B}; E[8]', 'B'), ('enum E {A=1e10, B}; E.B', 10000000001.0)]
    outs = driver.replay([{'cmd': 'eval', 'src': s} for s, _ in fixed_vectors])
    concrete_bad = []
    for (s, want), o in zip(fixed_vectors, outs):
        rep.validated += 1
        got = vmarms.reply_value(o) if not (o.get('ok') and o['value']['t'] == 'string') else o['value']['v']
        if got != want:
            concrete_bad.append((s, want, got))
    shapes = ('literal', 'negated', 'auto') + (('literal3', 'auto3', 'mid3') if rep.tier == 'thorough' else ())
    for shape in shapes:
        ex = common.executor(unwind=5)
        astb.install_rc_models(ex)
        astb.BuilderStub(ex)
        ex.havoc(r'^Compiler::compile_enum_init_expression$', ret=lambda e, s, c: EnumV('Result', 0, {0: {0: UNIT}}))
        fn = common.fn_name(ex, 'Compiler', 'compile_enum_declaration')
        st = State()
        xbits = z3.BitVec('lit_bits', 64)
        x = z3.fpBVToFP(xbits, F64)
        st.assume(z3.Not(z3.fpIsNaN(x)))
        st.assume(z3.Not(z3.fpIsInf(x)))
        st.assume(z3.Extract(63, 63, xbits) == 0)     # literals are non-negative
        comp, decl = build(ex, st, shape, xbits)
        ex.call_function(st, fn, [comp, decl])
        ends = ex.run(st)
        li = ex.variant_index('Op', 'LoadInt')
        reported = False
        for k, e in enumerate(ends):
            what0 = 'compile_enum_declaration [%s] path %d' % (shape, k)
            if e.status == 'panic':
                r, m = ex.check_sat_pc(e.st.pc, [])
                rep.obligation(what0 + ': no panic while compiling', 'sat', 'any literal', 0.0)
                if not reported:
                    reported = report(rep, m, xbits, shape, 'the compiler panics (%s)' % e.detail[:60])
                continue
            if e.status != 'return':
                rep.inconc('%s: %s %s' % (what0, e.status, e.detail))
                continue
            if e.value.discr != 0:
                rep.inconc('%s: unexpected Err' % what0)
                continue
            loads = loaded_values(ex, e.st.events)
            a_want, b_want = (z3.FPVal(0.0, F64), z3.FPVal(1.0, F64)) if shape == 'auto' else (
                (x, z3.fpAdd(RNE, x, z3.FPVal(1.0, F64))) if shape == 'literal' else (z3.fpNeg(x), z3.fpAdd(RNE, z3.fpNeg(x), z3.FPVal(1.0, F64))))
            expect = [b_want] if shape != 'auto' else [a_want, b_want]
            one = z3.FPVal(1.0, F64)
            if shape == 'literal3':
                expect = [z3.fpAdd(RNE, x, one), z3.fpAdd(RNE, z3.fpAdd(RNE, x, one), one)]
            elif shape == 'auto3':
                expect = [z3.FPVal(0.0, F64), one, z3.FPVal(2.0, F64)]
            elif shape == 'mid3':
                expect = [z3.FPVal(0.0, F64), z3.fpAdd(RNE, x, one)]
            goals = []
            if len(loads) != len(expect):
                goals.append(('one auto-increment load per member without initialiser', z3.BoolVal(False)))
            else:
                for (kind, v), w in zip(loads, expect):
                    got = z3.fpSignedToFP(RNE, v.e, F64) if kind == 'LoadInt' else v.e
                    goals.append(('auto-incremented member value == previous constant + 1 (TypeScript emit)', z3.fpEQ(got, w)))
            # structure: forward store for each member, reverse store for numeric members, in declaration order
            sp = ex.variant_index('Op', 'SetPropertyConst')
            rv = ex.variant_index('Op', 'SetProperty')
            stores = [('fwd' if ev[1].discr == sp else 'rev') for ev in e.st.events if ev[0] == 'emit' and isinstance(ev[1], EnumV) and ev[1].discr in (sp, rv)]
            nmem = 3 if shape.endswith('3') else 2
            goals.append(('forward and reverse mappings stored for every member in declaration order', z3.BoolVal(stores == ['fwd', 'rev'] * nmem)))
            n_init = {'literal': 1, 'negated': 1, 'auto': 0, 'literal3': 1, 'auto3': 0, 'mid3': 1}[shape]
            init_calls = sum(1 for ev in e.st.events if ev[0] == 'call' and str(ev[1]).endswith('compile_enum_init_expression'))
            goals.append(('a member with an initialiser gets its value from the expression compiler (the initialiser means what the expression means, -0 included), '
                          'only members without one are loaded as constants', z3.BoolVal(init_calls == n_init and len(loads) == nmem - n_init)))
            for label, g in goals:
                t = time.time()
                r, m = ex.check_sat_pc(e.st.pc, [z3.Not(g)])
                rep.obligation(what0 + ': ' + label, r, 'any non-negative f64 literal', time.time() - t)
                if r == 'unsat':
                    cross.append((what0 + ': ' + label, list(e.st.pc) + [z3.Not(g)], 'unsat'))
                elif not reported:
                    reported = report(rep, m, xbits, shape, label)
        rep.vacuity.append('compile_enum_declaration [%s]: %d paths' % (shape, len(ends)))
        rep.sample({'kernel': 'compile_enum_declaration', 'shape': shape, 'paths': len(ends)})
        rep.absorb(ex)
    check_parameter_properties(rep, cross)
    pair_bad = check_pairs(rep)
    if pair_bad and not rep.seen('C04/emit-pair'):
        nme, ts, js, a, b = pair_bad[0]
        p = rep.write_replay('pair', {'name': nme, 'typescript': ts, 'javascript_emit': js, 'typescript_result': a, 'emit_result': b, 'all': [x[0] for x in pair_bad]})
        rep.violation('C04/emit-pair/%s' % nme, 'the TypeScript program gives %r, its JavaScript emit %r (%s): %s' % (a, b, nme, ts[:160]), p)
    if concrete_bad and not rep.violations and not rep.known_hits:
        s, want, got = concrete_bad[0]
        p = rep.write_replay('fixed', {'cmd': 'eval', 'src': s, 'expected': want, 'observed': repr(got)})
        rep.violation('C04/enum/fixed-vector', '%s evaluates to %r, TypeScript emit gives %r' % (s, got, want), p)
    rep.cross = driver.cross_check(cross, 300, 'ALL', rep.tier, rep.seed)
    rep.extra['cross_checked_obligations'] = len(cross)


def report(rep, m, xbits, shape, label):
    bits = m.eval(xbits, model_completion=True).as_long()
    x = vmarms.bits_f64(bits)
    lit = 'Infinity' if math.isinf(x) else repr(x)
    src = 'enum E { A = %s%s, B }; E.B' % ('-' if shape == 'negated' else '', lit) if shape != 'auto' else 'enum E { A, B }; E.B'
    a, b = ts_emit(shape if not shape.endswith('3') else 'literal', x)
    if shape == 'literal3':
        src = 'enum E { A = %s, B, C }; E.C' % lit
        b = x + 1.0 + 1.0
    elif shape == 'auto3':
        src = 'enum E { A, B, C }; E.C'
        b = 2.0
    elif shape == 'mid3':
        src = 'enum E { A, B = %s, C }; E.C' % lit
        b = x + 1.0
    outs = [driver.replay([{'cmd': 'eval', 'src': src}], prof)[0] for prof in ('dev', 'release')]
    rep.validated += 2
    gots = [vmarms.reply_value(o) for o in outs]
    if all(vmarms.same_js(g, b) for g in gots):
        rep.inconc('compile_enum_declaration [%s]: counterexample %s does not reproduce (got %r)' % (shape, src, gots))
        return True
    p = rep.write_replay('enum-%s' % shape, {'cmd': 'eval', 'src': src, 'expected': b, 'observed_dev': repr(gots[0]), 'observed_release': repr(gots[1])})
    rep.violation(KF, '%s: %s evaluates to %r (dev) / %r (release), the TypeScript emit gives %r' % (label, src, gots[0], gots[1], b), p)
    return True


def replay_file(path):
    d = json.load(open(path))
    o = driver.replay([{'cmd': 'eval', 'src': d['src']}])[0]
    got = vmarms.reply_value(o)
    print('%s -> %r (expected %r)' % (d['src'], got, d.get('expected')))
    return 0 if got == d.get('expected') else 1
