"""C11 - an interpreter stays usable after failed or abandoned runs: terminal-step bookkeeping.

Decided: the terminal branch of Interpreter::step (active_vm = Some, BytecodeVM::step havoc'd to ANY VmStepResult, the VM run
may have changed any interpreter state except the run bookkeeping) together with finalize_active_execution /
process_vm_result: after a terminal Complete OR Err the environment is the one saved when the run started and
active_saved_env / active_module_env / active_module_path are cleared; after Continue / Suspended the run stays installed.
"""
import json
import re
import time
import z3

from emir import driver
from emir.values import *
from emir.symex import State
from . import common, ledger, c08

KF_ERR = 'C11/step/error-path-skips-env-restore'

SEQS = [
    ([{'src': "const secret = 42; throw new Error('boom')", 'path': '/m.ts'}, {'src': 'typeof secret'}], 'undefined'),
    ([{'src': "let secret = 42; function f(){ throw new Error('x') } f()", 'path': '/m.ts'}, {'src': 'typeof f'}], 'undefined'),
    ([{'src': "const secret = 42; secret", 'path': '/m.ts'}, {'src': 'typeof secret'}], 'undefined'),
    ([{'src': "const secret = 42; null.x", 'path': '/dir/m.ts'}, {'src': 'const secret = 1; secret', 'path': '/dir/n.ts'}], 1.0),
]


def opt_some(v):
    return (v.discr == 1) if not isinstance(v.discr, int) else z3.BoolVal(v.discr == 1)


def check_sequences(rep):
    """observer programs on a reused interpreter (replay route + concrete witness for the finding)"""
    from . import vmarms
    outs = driver.replay([{'cmd': 'eval_seq', 'programs': p} for p, _ in SEQS])
    hits = []
    for (progs, want), o in zip(SEQS, outs):
        rep.validated += 1
        last = o['outs'][-1]
        got = vmarms.reply_value(last) if last.get('ok') and last['value']['t'] != 'string' else (last.get('value', {}).get('v') if last.get('ok') else last)
        if got != want:
            first_failed = not o['outs'][0].get('ok')
            hits.append((progs, want, got, first_failed))
    return hits


DEP_SEQS = [
    # (main module, dependency source, observer) - a dependency that throws must not leave its scope installed
    ('import {h} from "./dep"; h', 'export const h = 1; const depSecret = 5; function depFn(){} throw new Error("dep boom")', 'typeof depSecret + "," + typeof depFn'),
    ('import {h} from "./dep"; h', 'export const h = 1; const depSecret = 5; null.x', 'typeof depSecret'),
    ('import {h} from "./dep"; h', 'export const h = 1; const depSecret = 5;', 'typeof depSecret'),
]


def check_saved_env(rep, cross):
    """the functions that start a run (prepare, setup_vm_from_program) remember, in active_saved_env, the environment that was current
    BEFORE they installed the module scope - it is what the terminal step / abandon restores"""
    for meth in ('prepare', 'setup_vm_from_program'):
        ex = common.executor(unwind=3)
        ex.auto_havoc = True
        F = ledger.InterpFields(ex)
        ex.auto_frames = {'Interpreter': {F['env'], F['active_saved_env'], F['active_module_env']}}
        ex.havoc(r'^Compiler::compile_program(_with_source)?$', ret=lambda e, s, c: EnumV('Result', 0, {0: {0: Opaque('Rc<BytecodeChunk>')}}),
                 label='Compiler::compile_program (assumed to succeed)')
        try:
            fn = common.fn_name(ex, 'Interpreter', meth)
        except driver.Inconclusive as err:
            rep.inconc(str(err))
            continue
        f = ex.mir.get(fn)
        st = State()
        env0 = Opaque('Gc<JsObject>', z3.Int('$env_at_entry'))
        a = st.alloc(Agg('struct', 'Interpreter', {F['env']: env0}, lazy=True))
        args = [Ref(a)] + [ex.fresh(st, t, '$a%d' % i) for i, (n_, t) in enumerate(f.args) if i > 0]
        ex.call_function(st, fn, args)
        ends = ex.run(st, max_paths=20000)
        n = 0
        n_set = 0
        bad = None
        for e in ends:
            if e.status in ('bound', 'panic'):
                continue
            if e.status != 'return':
                rep.inconc('%s: %s %s' % (meth, e.status, e.detail[:160]))
                continue
            n += 1
            iv = e.st.store[a]
            sv = iv.fields.get(F['active_saved_env'])
            envv = iv.fields.get(F['env'])
            if not (isinstance(sv, EnumV) and isinstance(sv.discr, int) and sv.discr == 1):
                continue          # nothing saved on this path (script without module scope, or an early error)
            n_set += 1
            tok = sv.payload[1][0]
            g = z3.BoolVal(False) if not isinstance(tok, Opaque) else tok.id == env0.id
            r, m = ex.check_sat_pc(e.st.pc, [z3.Not(g)])
            if r == 'sat' and bad is None:
                bad = (e, tok, envv)
            elif r == 'unsat' and len(cross) < 4000:
                cross.append(('%s saves the entry environment' % meth, list(e.st.pc) + [z3.Not(g)], 'unsat'))
        what = 'Interpreter::%s: active_saved_env, when set, is the environment that was current at entry' % meth
        rep.obligation(what, 'sat' if bad else 'unsat', '%d return paths, %d of them save an environment' % (n, n_set), 0.0)
        if bad and not rep.seen('C11/%s/saved-env-is-not-the-entry-env' % meth):
            e, tok, envv = bad
            same_as_new = isinstance(tok, Opaque) and isinstance(envv, Opaque) and tok.id.eq(envv.id)
            outs = driver.replay([{'cmd': 'module_seq', 'main': m_, 'dep': d, 'observer': o} for m_, d, o in DEP_SEQS])
            rep.validated += len(outs)
            wit = [(d, o, r_['observer'].get('value'), r_['fresh'].get('value')) for (m_, d, o), r_ in zip(DEP_SEQS, outs) if r_['observer'].get('value') != r_['fresh'].get('value')]
            p = rep.write_replay('saved-env-%s' % meth, {'function': meth, 'saved_is_the_new_module_scope': same_as_new, 'witness_sequences': wit})
            rep.violation('C11/%s/saved-env-is-not-the-entry-env' % meth, '%s stores %s in active_saved_env instead of the environment it found%s' % (
                meth, 'the module scope it has just installed' if same_as_new else 'another environment',
                '; observer after a module run sees %r, fresh interpreter %r' % (wit[0][2], wit[0][3]) if wit else ' (symbolic counterexample)'), p)
        if n_set == 0:
            rep.inconc('%s: no path saves an environment (vacuity)' % meth)
        rep.vacuity.append('%s: %d paths save an environment' % (meth, n_set))
        rep.sample({'kernel': '%s saved environment' % meth, 'paths': n, 'saving_paths': n_set})
        rep.absorb(ex)


CS_FIRST = 'function h(){ return null.x } function g(){ return h() } function f(){ return g() } f()'
CS_OBSERVER = 'function r(n){ return n ? r(n - 1) + 1 : 0 } r(3)'


FRESH_SEQS = [
    # (name, programs) for the seq_graph replay route: the observer (last program) must behave as on a fresh interpreter
    ('exports of a failed main module', [{'src': "export const dead = 1; export function deadFn(){}; throw new Error('boom');", 'path': '/p/a/main.ts'},
                                         {'src': "import * as ns from './m'; Object.keys(ns).sort().join(',')", 'path': '/p/a/obs.ts', 'modules': {'/p/a/m': 'export const live = 1;'}}]),
    ('exports of a failed dependency', [{'src': "import { x } from './dep'; x", 'path': '/p/a/main.ts', 'modules': {'/p/a/dep': 'export const depSecret = 5; export const x = null.y;'}},
                                        {'src': "import * as ns from './m'; Object.keys(ns).sort().join(',')", 'path': '/p/a/obs.ts', 'modules': {'/p/a/m': 'export const live = 1;'}}]),
    ('run suspended on an order and never resumed', [{'src': 'import { order } from "tsrun:host";\nfunction helper(p){ return order({t:1}); } helper(1);', 'path': '/p/a/s.ts'},
                                                     {'src': "[typeof secret, typeof inner, typeof p].join(',')"}]),
    ('run the host stopped stepping', [{'src': 'function helper(p){ let inner = 2; for (let i = 0; i < 1000; i++) {} } helper(1);', 'max_steps': 60},
                                       {'src': "[typeof inner, typeof p].join(',')"}]),
    ('compile error after the module scope was installed', [{'src': "import { v } from './util'; class K { #x = 1; m(){ delete this.#x; } }", 'path': '/p/a/main.ts',
                                                             'modules': {'/p/a/util': "export const v = 'leak';"}},
                                                            {'src': 'typeof v'}]),
    ('module path of an earlier entry point', [{'src': 'export const secret = 1;', 'path': '/p/a/main.ts'},
                                               {'src': "import { v } from './util'; v", 'modules': {'util': 'export const v = 7;', '/util': 'export const v = 7;'}}]),
    ('uncaught error three calls deep', [{'src': CS_FIRST}, {'src': CS_OBSERVER}]),
]


def check_sequences_fresh(rep):
    outs = driver.replay([{'cmd': 'seq_graph', 'programs': progs} for _, progs in FRESH_SEQS])
    bad = []
    for (name, progs), o in zip(FRESH_SEQS, outs):
        rep.validated += 1
        last = o['outs'][-1]
        if last['shared'] != last['fresh']:
            bad.append((name, last['shared'], last['fresh']))
    return bad


def check_prepare_clean(rep, cross):
    """Interpreter::prepare and Interpreter::eval from ANY interpreter state - an earlier run that failed, was abandoned, is suspended -
    leave no trace of that run: call_stack, env_guards, exports, pending/cancelled orders, order_responses, the waiting contexts,
    suspended_for_order, pending_program are empty when the function hands the new run over; main_module_path is the path given;
    and the environment remembered for the end of the new run is the one the dead run was started from (or the current one)."""
    seq_bad = check_sequences_fresh(rep)
    for nme, got, fresh in seq_bad:
        if not rep.seen('C11/sequence/%s' % nme):
            p = rep.write_replay('seq-%s' % re.sub(r'[^a-z]+', '-', nme)[:24], {'cmd': 'seq_graph', 'sequence': nme, 'programs': dict(FRESH_SEQS)[nme], 'observer_after': got, 'observer_fresh': fresh})
            rep.violation('C11/sequence/%s' % nme, 'after "%s" the next program gives %s, a fresh interpreter %s' % (nme, json.dumps(got)[:160], json.dumps(fresh)[:160]), p)
    for meth in ('prepare', 'eval'):
        ex = ledger.setup_executor(4)
        ex.auto_havoc = True
        F = ledger.InterpFields(ex)
        vecs = ['call_stack', 'env_guards', 'pending_orders', 'cancelled_orders']
        maps = ['exports', 'order_responses']
        opts = ['suspended_for_order', 'pending_program', 'active_vm']
        tracked = vecs + maps + opts + ['env', 'active_saved_env', 'active_module_env', 'active_module_path', 'main_module_path', 'current_module_path', 'wait_graph']
        for n_ in tracked:
            if n_ not in F.idx:
                raise driver.Inconclusive('Interpreter.%s not found (renamed?)' % n_)
        ex.auto_frames = {'Interpreter': {F[n_] for n_ in tracked}}
        ex.execute_real = [re.compile(r'^Interpreter::(discard_previous_run|abandon_active_execution|finalize_active_execution)$|^WaitGraph::new$|^<WaitGraph as Default>::default$')]
        ex.havoc(r'^Compiler::compile_program(_with_source)?$')
        ex.havoc(r'^Interpreter::run_vm_to_completion$', framed={'Interpreter': {F[n_] for n_ in tracked}})
        fn = common.fn_name(ex, 'Interpreter', meth)
        f = ex.mir.get(fn)
        st = State()
        env0 = Opaque('Gc<JsObject>', z3.Int('$env_now'))
        saved0 = Opaque('Gc<JsObject>', z3.Int('$env_dead_run_started_from'))
        has_saved = z3.BitVec('dead_has_saved_env', 64)
        st.assume(z3.ULT(has_saved, 2))
        fields = {F['env']: env0, F['active_saved_env']: EnumV('Option<Gc<JsObject>>', has_saved, {1: {0: saved0}})}
        lens = {}
        for v_ in vecs + maps:
            n = z3.BitVec('dead_%s_len' % v_, 64)
            st.assume(z3.ULE(n, 1 << 40))
            lens[v_] = n
            fields[F[v_]] = AbsVec(n, 'dead_' + v_, None)
        for o_ in opts:
            d = z3.BitVec('dead_%s_some' % o_, 64)
            st.assume(z3.ULT(d, 2))
            fields[F[o_]] = EnumV('Option<%s>' % o_, d, {}, lazy=True)
        wgn = z3.BitVec('dead_contexts_len', 64)
        st.assume(z3.ULE(wgn, 1 << 40))
        fields[F['wait_graph']] = Agg('struct', 'WaitGraph', {F.wg['contexts']: AbsVec(wgn, 'dead_contexts', None)}, lazy=True)
        a = st.alloc(Agg('struct', 'Interpreter', fields, lazy=True))
        pd = z3.BitVec('path_given', 64)
        st.assume(z3.ULT(pd, 2))
        path_arg = EnumV('Option<ModulePath>', pd, {1: {0: Agg('struct', 'ModulePath', {0: Opaque('PATHSTR', z3.Int('$path_given'))})}})
        args = [Ref(a)]
        for i, (n_, t) in enumerate(f.args):
            if i == 0:
                continue
            args.append(path_arg if 'ModulePath' in t else ex.fresh(st, t, '$a%d' % i))
        ex.call_function(st, fn, args)
        ends = ex.run(st, max_paths=20000)
        n_ok = 0
        bad = None
        for e in ends:
            if e.status in ('bound', 'panic'):
                continue
            if e.status != 'return':
                rep.inconc('%s: %s %s' % (meth, e.status, e.detail[:160]))
                continue
            n_ok += 1
            iv = e.st.store[a]
            goals = []
            for v_ in vecs + maps:
                cur = ex.load(e.st, a, (('f', F[v_], F.types[v_]),))
                goals.append((v_ + ' is empty', ex.vec_len(cur).e == 0))
            wg = ex.load(e.st, a, (('f', F['wait_graph'], F.types['wait_graph']),))
            ctxs = wg.fields.get(F.wg['contexts']) if isinstance(wg, Agg) else None
            goals.append(('no waiting context', ex.vec_len(ctxs).e == 0 if ctxs is not None else z3.BoolVal(False)))
            sus = ex.load(e.st, a, (('f', F['suspended_for_order'], F.types['suspended_for_order']),))
            goals.append(('suspended_for_order is None', sus.discr_expr() == 0))
            is_err = isinstance(e.value, EnumV) and e.value.discr == 1
            sv = iv.fields.get(F['active_saved_env'])
            envv = iv.fields.get(F['env'])
            base = z3.If(has_saved == 1, saved0.id, env0.id)
            if is_err and isinstance(envv, Opaque):
                goals.append(('after a failed start the environment is the one the dead run was started from', envv.id == base))
            if isinstance(sv, EnumV) and isinstance(sv.discr, int) and sv.discr == 1 and isinstance(sv.payload[1][0], Opaque):
                goals.append(('the environment remembered for the end of the run is the one the dead run was started from', sv.payload[1][0].id == base))
            mp = iv.fields.get(F['main_module_path'])
            if isinstance(mp, EnumV):
                g_mp = mp.discr_expr() == pd
                goals.append(('main_module_path is the path given', g_mp))
            for label, g in goals:
                r, m = ex.check_sat_pc(e.st.pc, [z3.Not(g)])
                if r == 'sat' and bad is None:
                    bad = (label, is_err)
                elif r == 'unsat' and len(cross) < 4000:
                    cross.append(('%s: %s' % (meth, label), list(e.st.pc) + [z3.Not(g)], 'unsat'))
        what = 'Interpreter::%s starts every run from a clean slate, whatever an earlier run left behind' % meth
        rep.obligation(what, 'sat' if bad else 'unsat', '%d return paths; ledgers of symbolic length, Options symbolic' % n_ok, 0.0, detail=bad[0] if bad else None)
        if bad and not rep.seen('C11/%s/leftovers-of-a-dead-run' % meth):
            p = rep.write_replay('clean-%s' % meth, {'function': meth, 'violated': bad[0], 'returns_err': bad[1], 'sequences_that_differ': [(n_, g_, f_) for n_, g_, f_ in seq_bad]})
            rep.violation('C11/%s/leftovers-of-a-dead-run' % meth, '%s has a return path on which "%s" does not hold for an arbitrary earlier state%s' % (
                meth, bad[0], '; sequence "%s": next program gives %s, fresh interpreter %s' % (seq_bad[0][0], json.dumps(seq_bad[0][1])[:120], json.dumps(seq_bad[0][2])[:120]) if seq_bad else ' (symbolic counterexample)'), p)
        if n_ok == 0:
            rep.inconc('%s: no path reaches a return (vacuity)' % meth)
        rep.vacuity.append('%s clean slate: %d return paths' % (meth, n_ok))
        rep.sample({'kernel': '%s clean slate' % meth, 'return_paths': n_ok})
        rep.absorb(ex)


def check_call_stack_ledger(rep, cross):
    """Interpreter::call_stack (what call_depth() reports and the host limits) is popped once per VM frame that is left: by
    restore_from_trampoline_frame and, per unwound frame, by handle_error_with_trampoline_unwind; pushed once per frame pushed"""
    from . import c14
    for meth, inline, rule in (('restore_from_trampoline_frame', ('unwind_frame_scopes',), 'one'),
                               ('handle_error_with_trampoline_unwind', ('unwind_frame_scopes',), 'per-frame'),
                               ('push_trampoline_frame_and_call_bytecode', (), 'push'),
                               ('push_trampoline_frame_and_call_bytecode_construct', (), 'push')):
        L = c14.Ledger(rep, inline, 3, ('find_exception_handler',) if meth.startswith('handle') else ())
        ex = L.ex
        names = ex.src.structs['Interpreter']
        cidx = names.index('call_stack')
        ex.auto_frames['Interpreter'] = {cidx}
        suffix = '.%d:vec' % cidx

        def is_cs(tok):
            while isinstance(tok, tuple):
                tok = tok[0]
            return str(tok).endswith(suffix)

        def cs_pop(e_, s_, c_):
            from emir.models import deref
            v_ = deref(e_, s_, c_.args[0])
            if isinstance(v_, AbsVec) and is_cs(v_.tok):
                s_.event('cs_pop_call')
            return None
        ex.overrides.append((re.compile(r'^Vec::pop$'), cs_pop))
        fn = common.fn_name(ex, 'BytecodeVM', meth)
        f = ex.mir.get(fn)
        st = State()
        a_vm, n0, t0 = L.fresh_vm(st)
        args = [Ref(a_vm)]
        for i, (a_, t) in enumerate(f.args[1:], 1):
            ts = t.split('::')[-1]
            if ts == 'TrampolineFrame':
                args.append(Agg('struct', 'TrampolineFrame', {L.fsidx: AbsVec(z3.BitVec('frameA_scopes', 64), 'frameA.scopes', None)}, lazy=True, nm='$frameA'))
            else:
                args.append(ex.fresh(st, t, '$a%d' % i))
        if meth.startswith('push_trampoline_frame'):
            def key(s_):
                ev = tuple(x[0] for x in s_.events if x[0] in ('tpop', 'abs_push', 'abs_pop'))
                loc = tuple((f_.fn.name, f_.block, f_.ret_block, id(f_.on_return), tuple(sorted(f_.visits.items()))) for f_ in s_.frames)
                return (loc, ev, ex.control_digest(s_))
            ex.subsume_key = key
        ex.call_function(st, fn, args)
        ends = ex.run(st, max_paths=40000)
        n = 0
        bad = None
        for e in ends:
            if e.status in ('bound', 'panic'):
                continue
            if e.status != 'return':
                rep.inconc('%s: %s %s' % (meth, e.status, e.detail[:160]))
                continue
            n += 1
            cs_pop = sum(1 for x in e.st.events if x[0] == 'abs_pop' and is_cs(x[1]))
            cs_push = sum(1 for x in e.st.events if x[0] == 'abs_push' and is_cs(x[1]))
            fr_pop = sum(1 for x in e.st.events if x[0] == 'tpop')
            fr_push = sum(1 for x in e.st.events if x[0] == 'abs_push' and L.is_tramp(x[1]))
            # Vec::pop on an empty call_stack leaves no event: only frames that were really pushed are counted, so compare on the
            # paths where the stack was not empty (pc decides); here: the number of pop CALL SITES reached is what matters
            pop_calls = sum(1 for x in e.st.events if x[0] == 'cs_pop_call')
            ok = {'one': pop_calls == 1 and cs_push == 0, 'per-frame': pop_calls == fr_pop and cs_push == 0, 'push': cs_push == fr_push and pop_calls == 0}[rule]
            if not ok and bad is None:
                bad = (pop_calls, cs_push, fr_pop, fr_push)
        what = 'BytecodeVM::%s: interpreter call_stack entries are %s' % (meth, {'one': 'popped exactly once', 'per-frame': 'popped once per unwound frame', 'push': 'pushed iff a frame is pushed'}[rule])
        rep.obligation(what, 'sat' if bad else 'unsat', '%d return paths (loops unrolled 3 times)' % n, 0.0)
        if bad and not rep.seen('C11/%s/call-stack-entries' % meth):
            outs = driver.replay([{'cmd': 'eval_seq', 'programs': [{'src': CS_FIRST}, {'src': CS_OBSERVER}]}])
            rep.validated += 1
            p = rep.write_replay('call-stack-%s' % meth, {'function': meth, 'call_stack_pop_calls': bad[0], 'call_stack_pushes': bad[1], 'frames_popped': bad[2], 'frames_pushed': bad[3], 'observed': outs[0]})
            rep.violation('C11/%s/call-stack-entries' % meth, '%s has a path with %d call_stack.pop() for %d frames popped (%d pushes for %d frames pushed): entries of a dead run stay on the interpreter call stack' % (
                meth, bad[0], bad[2], bad[1], bad[3]), p)
        if n == 0:
            rep.inconc('%s: no path reaches a return (vacuity)' % meth)
        rep.vacuity.append('%s call_stack: %d return paths' % (meth, n))
        rep.sample({'kernel': '%s call_stack ledger' % meth, 'return_paths': n})
        rep.absorb(ex)




def check_env_restoring_functions(rep, cross, specs=None, pid='C11'):
    """functions that install another environment temporarily must put the caller's environment back on EVERY return path"""
    specs = specs or [
        ('Interpreter', 'execute_pending_module', True),
        ('Interpreter', 'call_bytecode_function_with_new_target', False),
        ('Interpreter', 'resume_bytecode_generator', False),
        ('Interpreter', 'eval', False),
    ]
    outs = driver.replay([{'cmd': 'module_seq', 'main': m, 'dep': d, 'observer': o} for m, d, o in DEP_SEQS])
    dep_bad = []
    for (m, d, o), r in zip(DEP_SEQS, outs):
        rep.validated += 1
        if r['observer'].get('value') != r['fresh'].get('value'):
            dep_bad.append((d, o, r['observer'].get('value'), r['fresh'].get('value')))
    for ty, meth, check_path in specs:
        ex = common.executor(unwind=3)
        ex.auto_havoc = True
        F = ledger.InterpFields(ex)
        ex.auto_frames = {'Interpreter': {F['env'], F['current_module_path']}}
        # documented contracts of two callees
        ex.havoc(r'^Interpreter::setup_import_bindings$', ret=lambda e, s, c: EnumV('Result', 0, {0: {0: UNIT}}), label='Interpreter::setup_import_bindings (assumed to succeed: its only error is an import of a module the fixed-point loop has not loaded)')

        # a compile error after the module environment was installed leaves it installed in prepare() and eval() alike; no observer
        # program shows a difference (the scope is empty), so compilation is assumed to succeed here rather than reported
        ex.havoc(r'^Compiler::compile_program(_with_source)?$', ret=lambda e, s, c: EnumV('Result', 0, {0: {0: Opaque('Rc<BytecodeChunk>')}}),
                 label='Compiler::compile_program (assumed to succeed inside the environment-restoration kernels)')

        def h_deleg(e, s, c):
            e.havoc_used.add('Interpreter::start_yield_star_delegation (contract: restores env to the saved environment it is given)')
            e.store(s, c.args[0].addr, c.args[0].path + (('f', F['env'], None),), c.args[3])
            return e.ret(s, c, e.fresh(s, c.dest_ty, 'deleg'))
        ex.overrides.append((re.compile(r'^Interpreter::start_yield_star_delegation$'), h_deleg))

        def key(s):
            loc = tuple((f.fn.name, f.block, f.ret_block, id(f.on_return), tuple(sorted(f.visits.items()))) for f in s.frames)
            iv = s.store.get(s.extra.get('interp_addr'))
            envv = iv.fields.get(F['env']) if isinstance(iv, Agg) else None
            return (loc, str(getattr(envv, 'id', None)))
        ex.subsume_key = None      # no state merging here: 17 / ~600 / ~850 paths are affordable
        fn = common.fn_name(ex, ty, meth)
        f = ex.mir.get(fn)
        st = State()
        env0 = Opaque('Gc<JsObject>', z3.Int('$env_at_entry'))
        path0 = EnumV('Option<ModulePath>', z3.BitVec('cur_path_some', 64), {1: {0: Opaque('ModulePath', z3.Int('$path_at_entry'))}})
        st.assume(z3.ULT(path0.discr, 2))
        a = st.alloc(Agg('struct', 'Interpreter', {F['env']: env0, F['current_module_path']: path0}, lazy=True))
        st.extra['interp_addr'] = a
        args = [Ref(a)] + [ex.fresh(st, t, '$a%d' % i) for i, (n_, t) in enumerate(f.args) if i > 0]
        ex.call_function(st, fn, args)
        ends = ex.run(st, max_paths=20000)
        nret = 0
        bad = None
        for e in ends:
            if e.status in ('bound', 'panic'):
                continue
            if e.status != 'return':
                rep.inconc('%s: %s %s' % (meth, e.status, e.detail[:160]))
                continue
            nret += 1
            iv = e.st.store[a]
            envv = iv.fields.get(F['env'])
            g = z3.BoolVal(isinstance(envv, Opaque)) if not isinstance(envv, Opaque) else envv.id == env0.id
            # a run that is handed over to step() (eval returning Suspended) stays in its scope, but then the start environment is
            # remembered in active_saved_env for step()'s terminal bookkeeping
            sv = iv.fields.get(F['active_saved_env'])
            if meth == 'eval' and isinstance(sv, EnumV) and isinstance(sv.discr, int) and sv.discr == 1 and isinstance(sv.payload[1][0], Opaque):
                g = z3.Or(g, sv.payload[1][0].id == env0.id)
            if check_path:
                pv = iv.fields.get(F['current_module_path'])
                g = z3.And(g, ledger_same_opt(pv, path0))
            r, m = ex.check_sat_pc(e.st.pc, [z3.Not(g)])
            if r == 'sat' and bad is None:
                bad = e
            elif r == 'unsat' and len(cross) < 4000:
                cross.append(('%s restores env' % meth, list(e.st.pc) + [z3.Not(g)], 'unsat'))
        what = '%s::%s puts the caller\'s environment%s back on every return path' % (ty, meth, ' and current_module_path' if check_path else '')
        rep.obligation(what, 'sat' if bad is not None else 'unsat', '%d return paths (loops unrolled 3 times)' % nret, 0.0)
        if bad is not None:
            res = 'Ok' if (isinstance(bad.value, EnumV) and bad.value.discr == 0) else 'Err'
            key_ = '%s/%s/env-not-restored' % (pid, meth)
            p = rep.write_replay('env-%s' % meth, {'function': meth, 'returns': res, 'witness_sequences': [dict(dep=d, observer=o, observed=ov, fresh=fv) for d, o, ov, fv in dep_bad]})
            if dep_bad and meth == 'execute_pending_module':
                d, o, ov, fv = dep_bad[0]
                rep.violation(key_, '%s returns %s with another environment installed; witness: after a dependency %r fails, %r gives %r (fresh interpreter: %r)' % (meth, res, d, o, ov, fv), p)
            else:
                rep.violation(key_, '%s has a path returning %s that leaves another environment installed (symbolic counterexample)' % (meth, res), p)
        if nret == 0:
            rep.inconc('%s: no return path (vacuity)' % meth)
        rep.vacuity.append('%s: %d return paths' % (meth, nret))
        rep.sample({'kernel': '%s environment restoration' % meth, 'return_paths': nret})
        rep.absorb(ex)
    if dep_bad and not any('env-not-restored' in k for k, _, _ in rep.violations):
        d, o, ov, fv = dep_bad[0]
        p = rep.write_replay('dep-observer', {'cmd': 'module_seq', 'dep': d, 'observer': o, 'observed': ov, 'fresh': fv})
        rep.violation('%s/observer/after-failing-dependency' % pid, 'after a dependency %r fails, %r gives %r (fresh interpreter: %r)' % (d, o, ov, fv), p)


def ledger_same_opt(a, b):
    if a is b:
        return z3.BoolVal(True)
    if not isinstance(a, EnumV):
        return z3.BoolVal(False)
    da, db = a.discr_expr(), b.discr_expr()
    pa = a.payload.get(1, {}).get(0)
    pb = b.payload.get(1, {}).get(0)
    same_payload = z3.BoolVal(True)
    if isinstance(pa, Opaque) and isinstance(pb, Opaque):
        same_payload = pa.id == pb.id
    elif pa is not pb:
        same_payload = z3.BoolVal(False)
    return z3.And(da == db, z3.Implies(da == 1, same_payload))


def run(rep):
    rep.bounds = dict(state='any interpreter state with an active run (module environment present or not)', vm_step='any VmStepResult', loops='none')
    rep.assumptions = [
        'BytecodeVM::step may change every Interpreter field except active_saved_env/active_module_env/active_module_path and active_vm (taken out before the call)',
        'id counters stay below 2^63',
        'environment-restoration kernels: every callee is abstracted (arbitrary result, does not change Interpreter.env / current_module_path); setup_import_bindings is assumed to succeed',
        'materialize_thrown_error, RuntimeValue::from_guarded, finalize_module_exports do not touch the run bookkeeping or env (framed havoc)',
    ]
    rep.outside = ['abandoned runs (prepare() over a live VM)', 'call-stack / trampoline unwinding inside the VM', 'prepare() failing after the module environment was installed']
    cross = []
    ex = ledger.setup_executor(6)
    F = ledger.InterpFields(ex)
    book = {F['active_saved_env'], F['active_module_env'], F['active_module_path'], F['active_vm']}
    keep_all = set(range(len(F.idx)))
    counters = {F['next_context_id'], F['next_promise_id']}
    ex.havoc(r'^BytecodeVM::step$', framed={'Interpreter': book | counters})
    ex.havoc(r'^Interpreter::materialize_thrown_error$', framed={'Interpreter': keep_all})
    ex.havoc(r'^RuntimeValue::from_guarded$')
    ex.havoc(r'^JsError::internal_error$')
    ex.havoc(r'^Interpreter::finalize_module_exports$', framed={'Interpreter': book | {F['env']}})
    ex.overrides.append(ledger.add_context_stub(F))
    fn = common.fn_name(ex, 'Interpreter', 'step')
    st = State()
    saved_tok = Opaque('Gc<JsObject>', z3.Int('$saved_env'))
    modenv_tok = Opaque('Gc<JsObject>', z3.Int('$module_env'))
    has_saved = z3.BitVec('has_saved_env', 64)
    has_mod = z3.BitVec('has_module_env', 64)
    st.assume(z3.ULT(has_saved, 2))
    st.assume(z3.ULT(has_mod, 2))
    st.assume(z3.Implies(has_mod == 1, has_saved == 1))      # a module scope is only installed together with a saved start environment (scripts save one too)
    fields = {
        F['active_vm']: EnumV('Option<Box<BytecodeVM>>', 1, {1: {0: ex.fresh(st, 'Box<BytecodeVM>', '$vmbox')}}),
        F['active_saved_env']: EnumV('Option<Gc<JsObject>>', has_saved, {1: {0: saved_tok}}),
        F['active_module_env']: EnumV('Option<Gc<JsObject>>', has_mod, {1: {0: modenv_tok}}),
    }
    for cnt in ('next_context_id', 'next_promise_id'):
        c = z3.BitVec(cnt, 64)
        st.assume(z3.ULT(c, 1 << 63))
        fields[F[cnt]] = Int(c, False)
    a = st.alloc(Agg('struct', 'Interpreter', fields, lazy=True))
    ex.call_function(st, fn, [Ref(a)])
    ends = ex.run(st)
    if not common.require_clean(rep, ends, 'step (terminal branch)'):
        rep.absorb(ex)
        return
    seq_hits = check_sequences(rep)
    outcomes = set()
    for k, e in enumerate(ends):
        kind, var, pl = c08.classify(ex, e.value)
        outcomes.add(var or 'Err')
        iv = e.st.store[a]
        sv = iv.fields[F['active_saved_env']]
        mv = iv.fields[F['active_module_env']]
        pv = ex.load(e.st, a, (('f', F['active_module_path'], 'Option<ModulePath>'),))
        env = ex.load(e.st, a, (('f', F['env'], 'Gc<JsObject>'),))
        goals = []
        cleared = z3.And(z3.Not(opt_some(sv)), z3.Not(opt_some(mv)), z3.Not(opt_some(pv)))
        env_restored = z3.Implies(has_saved == 1, env.id == saved_tok.id)
        if kind == 'Err' or var == 'Complete':
            tag = 'after a terminal %s' % ('Err' if kind == 'Err' else 'Complete')
            goals.append((tag + ' the run bookkeeping (active_saved_env/module_env/module_path) is cleared', cleared))
            goals.append((tag + ' env is the environment saved when the run started', env_restored))
        elif var in ('Continue', 'Suspended'):
            goals.append(('a run that can still continue keeps its bookkeeping', z3.And(opt_some(sv) == (has_saved == 1), opt_some(mv) == (has_mod == 1))))
        for label, g in goals:
            t = time.time()
            r, m = ex.check_sat_pc(e.st.pc, [z3.Not(g)])
            what = 'step path %d (%s): %s' % (k, var or 'Err', label)
            rep.obligation(what, r, 'any interpreter state, any VmStepResult', time.time() - t)
            if r == 'unsat':
                cross.append((what, list(e.st.pc) + [z3.Not(g)], 'unsat'))
                continue
            key = KF_ERR if kind == 'Err' else 'C11/step/%s' % re.sub(r'[^a-z]+', '-', label.lower())[:50]
            # concrete witness: observer program on the reused interpreter
            relevant = [h for h in seq_hits if h[3] == (kind == 'Err')]
            p = rep.write_replay('step-%s' % (var or 'Err'), {'cmd': 'eval_seq', 'violated': label, 'witness': [dict(programs=h[0], expected=h[1], observed=repr(h[2])) for h in relevant],
                                                            'programs': SEQS[0][0]})
            if relevant:
                h = relevant[0]
                rep.violation(key, '%s; witness: after %r the observer %r gives %r, a fresh interpreter gives %r' % (
                    label, h[0][0]['src'], h[0][-1]['src'], h[2], h[1]), p)
            else:
                rep.violation(key, '%s (symbolic counterexample on Interpreter::step; the observer programs did not expose it)' % label, p)
    # observer sequences that fail without a matching symbolic counterexample are violations in their own right
    if seq_hits and not any(o['verdict'] == 'sat' for o in rep.obligations):
        for h in seq_hits:
            p = rep.write_replay('observer', {'cmd': 'eval_seq', 'programs': h[0], 'expected': h[1], 'observed': repr(h[2])})
            rep.violation('C11/observer/%s' % ('after-error' if h[3] else 'after-complete'),
                          'after %r the observer %r gives %r, a fresh interpreter gives %r' % (h[0][0]['src'], h[0][-1]['src'], h[2], h[1]), p)
    need = {'Continue', 'Complete', 'Suspended', 'Err'}
    if not need <= outcomes:
        rep.inconc('step: outcomes %s do not cover %s (vacuity)' % (sorted(outcomes), sorted(need)))
    rep.vacuity.append('step (active VM): %d feasible paths; outcomes %s' % (len(ends), sorted(outcomes)))
    rep.sample({'kernel': 'Interpreter::step terminal branch + finalize_active_execution', 'paths': len(ends), 'outcomes': sorted(outcomes)})
    rep.absorb(ex)
    check_env_restoring_functions(rep, cross)
    check_saved_env(rep, cross)
    check_call_stack_ledger(rep, cross)
    check_prepare_clean(rep, cross)
    rep.cross = driver.cross_check(cross, 300, 'ALL', rep.tier, rep.seed)
    rep.extra['cross_checked_obligations'] = len(cross)


def replay_file(path):
    d = json.load(open(path))
    hits = 0
    for progs, want in SEQS:
        o = driver.replay([{'cmd': 'eval_seq', 'programs': progs}])[0]
        print(json.dumps(o))
    return 0
