"""C20 - error reports point at the code that failed: source-map kernel.

(a) BytecodeBuilder::{set_span, emit} -> finish -> BytecodeChunk::get_source_location(k): for EVERY sequence of up to N builder
    operations (N = 4 quick / 6 thorough) with symbolic spans and every instruction index k: the span returned is the one that was
    current when instruction k was emitted (same start; line/column of the first span of the run with that start), None only if no
    span had been set yet.  binary_search_by_key is modelled by its contract and the sortedness of offsets is an obligation.
(c) BytecodeVM::build_stack_trace: frames are emitted innermost first, one per frame whose lookup succeeds, using ip-1.
clear_span is never called by the compiler and is excluded.  Whether the compiler sets the right span before each emit, and the
parser/lexer spans, are outside the claim.
"""
import itertools
import json
import re
import time
import z3

from emir import driver
from emir.values import *
from emir.symex import State
from . import common

BOUNDS = {'quick': 4, 'thorough': 6}


def fresh_span(ex, tag):
    names = ex.src.structs['Span']
    d = {}
    sym = {}
    for i, n in enumerate(names):
        w = 64 if n in ('start', 'end') else 32
        e = z3.BitVec('%s_%s' % (tag, n), w)
        d[i] = Int(e, False)
        sym[n] = e
    return Agg('struct', 'Span', d), sym


def span_fields(ex, v):
    names = ex.src.structs['Span']
    return {n: v.fields[i].e for i, n in enumerate(names)}


def run_to_ends(ex, st, fname, args, what, rep):
    st.frames = []
    ex.call_function(st, fname, args)
    ends = ex.run(st)
    out = []
    for e in ends:
        if e.status == 'return':
            out.append(e)
        else:
            rep.inconc('%s: %s %s' % (what, e.status, e.detail[:200]))
    return out


def check_source_map(rep, cross):
    N = BOUNDS[rep.tier]
    ex = common.executor(unwind=N + 4)
    B = ex.src.structs['BytecodeBuilder']
    bi = {n: i for i, n in enumerate(B)}
    f_set = common.fn_name(ex, 'BytecodeBuilder', 'set_span')
    f_emit = common.fn_name(ex, 'BytecodeBuilder', 'emit')
    f_fin = common.fn_name(ex, 'BytecodeBuilder', 'finish')
    f_get = common.fn_name(ex, 'BytecodeChunk', 'get_source_location')
    nop = EnumV('Op', ex.variant_index('Op', 'Nop'), {})
    nseq = 0
    nobl = 0
    for n in range(1, N + 1):
        for seq in itertools.product('SE', repeat=n):
            if seq[-1] != 'E' or 'E' not in seq:
                continue
            nseq += 1
            st = State()
            b = Agg('struct', 'BytecodeBuilder', {
                bi['code']: VecV((), 'Op'), bi['constants']: VecV((), 'Constant'), bi['source_map']: VecV((), 'SourceMapEntry'),
                bi['current_span']: EnumV('Option<Span>', 0, {}), bi['function_info']: EnumV('Option<FunctionInfo>', 0, {}),
                bi['source_file']: EnumV('Option<String>', 0, {}),
                bi['registers']: Agg('struct', 'RegisterAllocator', {0: Int(z3.BitVecVal(0, 8), False), 1: VecV(()), 2: Int(z3.BitVecVal(0, 8), False), 3: VecV(())}),
            }, lazy=True)
            a = st.alloc(b)
            states = [st]
            spans = []     # symbolic spans in order of set_span
            current = []   # per emitted instruction: index into spans or None
            cur = None
            for k, op in enumerate(seq):
                nxt = []
                if op == 'S':
                    sp, sym = fresh_span(ex, 'span%d_%d' % (nseq, len(spans)))
                    spans.append(sym)
                    cur = len(spans) - 1
                    for s in states:
                        nxt += [e.st for e in run_to_ends(ex, s, f_set, [Ref(a), sp], 'set_span', rep)]
                else:
                    current.append(cur)
                    for s in states:
                        nxt += [e.st for e in run_to_ends(ex, s, f_emit, [Ref(a), nop], 'emit', rep)]
                states = nxt
            for s in states:
                ends = run_to_ends(ex, s, f_fin, [s.store[a]], 'finish', rep)
                for e in ends:
                    chunk = e.value
                    ca = e.st.alloc(chunk)
                    for k, ci in enumerate(current):
                        s2 = e.st.clone()
                        for e2 in run_to_ends(ex, s2, f_get, [Ref(ca), Int(z3.BitVecVal(k, 64), False)], 'get_source_location', rep):
                            res = e2.value
                            if ci is None:
                                g = z3.BoolVal(isinstance(res.discr, int) and res.discr == 0)
                                label = 'instruction emitted before any span: lookup is None'
                            elif not (isinstance(res.discr, int) and res.discr == 1):
                                g = z3.BoolVal(False)
                                label = 'instruction emitted under a span: lookup is Some'
                            else:
                                got = span_fields(ex, res.payload[1][0])
                                want = spans[ci]
                                # first span of the run of consecutive emits (with a span) having the same start
                                first = ci
                                conds = []
                                g_start = got['start'] == want['start']
                                # candidates: the span current at an earlier instruction j <= k whose start equals want.start and all in between too
                                cands = []
                                for j in range(k, -1, -1):
                                    cj = current[j]
                                    if cj is None:
                                        break
                                    same_run = z3.And([spans[current[t]]['start'] == want['start'] for t in range(j, k + 1)])
                                    prev_differs = z3.BoolVal(True) if j == 0 or current[j - 1] is None else spans[current[j - 1]]['start'] != want['start']
                                    is_first = z3.And(same_run, prev_differs)
                                    cands.append(z3.And(is_first, got['line'] == spans[cj]['line'], got['column'] == spans[cj]['column'], got['end'] == spans[cj]['end']))
                                g = z3.And(g_start, z3.Or(cands))
                                label = 'lookup returns the span current at emission (same start; line/column of the first span of its run)'
                            t = time.time()
                            r, m = ex.check_sat_pc(e2.st.pc, [z3.Not(g)])
                            nobl += 1
                            what = 'ops %s, instruction %d: %s' % (''.join(seq), k, label)
                            rep.obligation(what, r, '<= %d builder operations, symbolic spans' % N, time.time() - t)
                            if r == 'unsat':
                                cross.append((what, list(e2.st.pc) + [z3.Not(g)], 'unsat'))
                            else:
                                report_map(rep, m, seq, spans, k, label)
    rep.sample({'kernel': 'BytecodeBuilder source map -> get_source_location', 'operation_sequences': nseq, 'obligations': nobl, 'max_ops': N})
    rep.vacuity.append('source map: %d operation sequences, %d lookups decided' % (nseq, nobl))
    rep.absorb(ex)


def report_map(rep, m, seq, spans, k, label):
    ev = lambda e: m.eval(e, model_completion=True).as_long()
    sp = [{n: ev(e) for n, e in s.items()} for s in spans]
    req = {'cmd': 'source_map', 'ops': ''.join(seq), 'spans': sp, 'lookup': k}
    o = driver.replay([req])[0]
    rep.validated += 1
    p = rep.write_replay('source-map', dict(req, violated=label, observed=o))
    rep.violation('C20/source_map/%s' % re.sub(r'[^a-z]+', '-', label.lower())[:40],
                  'builder ops %s with spans %r: %s fails for instruction %d; real builder/lookup: %r' % (''.join(seq), sp, label, k, o), p)


def validate_source_map(rep):
    """encoder validation of the source-map kernel on seeded concrete sequences through executor and real code"""
    import random
    rnd = random.Random(rep.seed + 20)
    ex = common.executor(unwind=12)
    B = ex.src.structs['BytecodeBuilder']
    bi = {n: i for i, n in enumerate(B)}
    f_set = common.fn_name(ex, 'BytecodeBuilder', 'set_span')
    f_emit = common.fn_name(ex, 'BytecodeBuilder', 'emit')
    f_fin = common.fn_name(ex, 'BytecodeBuilder', 'finish')
    f_get = common.fn_name(ex, 'BytecodeChunk', 'get_source_location')
    nop = EnumV('Op', ex.variant_index('Op', 'Nop'), {})
    names = ex.src.structs['Span']
    reqs = []
    mine = []
    for _ in range(12):
        ops = ''.join(rnd.choice('SE') for _ in range(rnd.randint(1, 7))) + 'E'
        spans = [{'start': rnd.choice([0, 5, 5, 9]), 'end': rnd.randint(10, 20), 'line': rnd.randint(1, 4), 'column': rnd.randint(1, 9)} for _ in range(ops.count('S'))]
        st = State()
        b = Agg('struct', 'BytecodeBuilder', {
            bi['code']: VecV((), 'Op'), bi['constants']: VecV(()), bi['source_map']: VecV(()), bi['current_span']: EnumV('Option<Span>', 0, {}),
            bi['function_info']: EnumV('Option<FunctionInfo>', 0, {}), bi['source_file']: EnumV('Option<String>', 0, {}),
            bi['registers']: Agg('struct', 'RegisterAllocator', {0: Int(z3.BitVecVal(0, 8), False), 1: VecV(()), 2: Int(z3.BitVecVal(0, 8), False), 3: VecV(())}),
        }, lazy=True)
        a = st.alloc(b)
        si = 0
        for op in ops:
            if op == 'S':
                s = spans[si]
                si += 1
                sp = Agg('struct', 'Span', {i: Int(z3.BitVecVal(s[n], 64 if n in ('start', 'end') else 32), False) for i, n in enumerate(names)})
                st = run_to_ends(ex, st, f_set, [Ref(a), sp], 'set_span', rep)[0].st
            else:
                st = run_to_ends(ex, st, f_emit, [Ref(a), nop], 'emit', rep)[0].st
        e = run_to_ends(ex, st, f_fin, [st.store[a]], 'finish', rep)[0]
        ca = e.st.alloc(e.value)
        res = []
        for k in range(ops.count('E')):
            r = run_to_ends(ex, e.st.clone(), f_get, [Ref(ca), Int(z3.BitVecVal(k, 64), False)], 'get', rep)[0].value
            if r.discr == 0:
                res.append(None)
            else:
                res.append({n: z3.simplify(x).as_long() for n, x in span_fields(ex, r.payload[1][0]).items()})
        mine.append(res)
        reqs.append({'cmd': 'source_map', 'ops': ops, 'spans': spans})
    outs = driver.replay(reqs)
    for rq, mn, o in zip(reqs, mine, outs):
        if o['lookups'] != mn:
            raise driver.Inconclusive('encoder validation failed for source map %r: executor %r, real %r' % (rq, mn, o['lookups']))
        rep.validated += 1
    rep.absorb(ex)


def run(rep):
    N = BOUNDS[rep.tier]
    rep.bounds = dict(builder_operations_max=N, spans='symbolic (start,end: u64; line,column: u32)', lookups='every instruction index')
    rep.assumptions = ['clear_span is never called by the compiler (checked by grep at design time) and is excluded',
                       'binary_search_by_key modelled by its contract; strict sortedness of bytecode offsets is an obligation (a violation is reported as a panic path)']
    rep.outside = ['whether the compiler sets the right span before each emit', 'parser and lexer spans', 'function names in stack frames']
    cross = []
    validate_source_map(rep)
    check_source_map(rep, cross)
    from . import c20trace, lexk
    c20trace.check(rep, cross)
    lexk.check(rep, cross, 'C20')
    rep.cross = driver.cross_check(cross, 300, 'ALL', rep.tier, rep.seed)
    rep.extra['cross_checked_obligations'] = len(cross)


def replay_file(path):
    d = json.load(open(path))
    o = driver.replay([{k: v for k, v in d.items() if k in ('cmd', 'ops', 'spans', 'lookup')}])[0]
    print(json.dumps(o))
    return 0
