"""C20 - error reports point at the code that failed: source-map kernel.

(a) BytecodeBuilder::{set_span, emit} -> finish -> BytecodeChunk::get_source_location(k): for EVERY sequence of up to N builder
    operations (N = 4 quick / 6 thorough) with symbolic spans and every instruction index k: the span returned is the one that was
    current when instruction k was emitted (same start; line/column of the first span of the run with that start), None only if no
    span had been set yet.  binary_search_by_key is modelled by its contract and the sortedness of offsets is an obligation.
(c) BytecodeVM::build_stack_trace: frames are emitted innermost first, one per frame whose lookup succeeds, using ip-1.
clear_span is never called by the compiler and is excluded.  Whether the compiler sets the right span before each emit, and the
parser/lexer spans, are outside the claim.
"""
import itertools
import json
import re
import time
import z3

from emir import driver
from emir.values import *
from emir.symex import State
from . import common

BOUNDS = {'quick': 4, 'thorough': 6}


def fresh_span(ex, tag):
    names = ex.src.structs['Span']
    d = {}
    sym = {}
    for i, n in enumerate(names):
        w = 64 if n in ('start', 'end') else 32
        e = z3.BitVec('%s_%s' % (tag, n), w)
        d[i] = Int(e, False)
        sym[n] = e
    return Agg('struct', 'Span', d), sym


def span_fields(ex, v):
    names = ex.src.structs['Span']
    return {n: v.fields[i].e for i, n in enumerate(names)}


def run_to_ends(ex, st, fname, args, what, rep):
    st.frames = []
    ex.call_function(st, fname, args)
    ends = ex.run(st)
    out = []
    for e in ends:
        if e.status == 'return':
            out.append(e)
        else:
            rep.inconc('%s: %s %s' % (what, e.status, e.detail[:200]))
    return out


def check_source_map(rep, cross):
    N = BOUNDS[rep.tier]
    ex = common.executor(unwind=N + 4)
    B = ex.src.structs['BytecodeBuilder']
    bi = {n: i for i, n in enumerate(B)}
    f_set = common.fn_name(ex, 'BytecodeBuilder', 'set_span')
    f_emit = common.fn_name(ex, 'BytecodeBuilder', 'emit')
    f_fin = common.fn_name(ex, 'BytecodeBuilder', 'finish')
    f_get = common.fn_name(ex, 'BytecodeChunk', 'get_source_location')
    nop = EnumV('Op', ex.variant_index('Op', 'Nop'), {})
    nseq = 0
    nobl = 0
    for n in range(1, N + 1):
        for seq in itertools.product('SE', repeat=n):
            if seq[-1] != 'E' or 'E' not in seq:
                continue
            nseq += 1
            st = State()
            b = Agg('struct', 'BytecodeBuilder', {
                bi['code']: VecV((), 'Op'), bi['constants']: VecV((), 'Constant'), bi['source_map']: VecV((), 'SourceMapEntry'),
                bi['current_span']: EnumV('Option<Span>', 0, {}), bi['function_info']: EnumV('Option<FunctionInfo>', 0, {}),
                bi['source_file']: EnumV('Option<String>', 0, {}),
                bi['registers']: Agg('struct', 'RegisterAllocator', {0: Int(z3.BitVecVal(0, 8), False), 1: VecV(()), 2: Int(z3.BitVecVal(0, 8), False), 3: VecV(())}),
            }, lazy=True)
            a = st.alloc(b)
            states = [st]
            spans = []     # symbolic spans in order of set_span
            current = []   # per emitted instruction: index into spans or None
            cur = None
            for k, op in enumerate(seq):
                nxt = []
                if op == 'S':
                    sp, sym = fresh_span(ex, 'span%d_%d' % (nseq, len(spans)))
                    spans.append(sym)
                    cur = len(spans) - 1
                    for s in states:
                        nxt += [e.st for e in run_to_ends(ex, s, f_set, [Ref(a), sp], 'set_span', rep)]
                else:
                    current.append(cur)
                    for s in states:
                        nxt += [e.st for e in run_to_ends(ex, s, f_emit, [Ref(a), nop], 'emit', rep)]
                states = nxt
            for s in states:
                ends = run_to_ends(ex, s, f_fin, [s.store[a]], 'finish', rep)
                for e in ends:
                    chunk = e.value
                    ca = e.st.alloc(chunk)
                    for k, ci in enumerate(current):
                        s2 = e.st.clone()
                        for e2 in run_to_ends(ex, s2, f_get, [Ref(ca), Int(z3.BitVecVal(k, 64), False)], 'get_source_location', rep):
                            res = e2.value
                            if ci is None:
                                g = z3.BoolVal(isinstance(res.discr, int) and res.discr == 0)
                                label = 'instruction emitted before any span: lookup is None'
                            elif not (isinstance(res.discr, int) and res.discr == 1):
                                g = z3.BoolVal(False)
                                label = 'instruction emitted under a span: lookup is Some'
                            else:
                                got = span_fields(ex, res.payload[1][0])
                                want = spans[ci]
                                # first span of the run of consecutive emits (with a span) having the same start
                                first = ci
                                conds = []
                                g_start = got['start'] == want['start']
                                # candidates: the span current at an earlier instruction j <= k whose start equals want.start and all in between too
                                cands = []
                                for j in range(k, -1, -1):
                                    cj = current[j]
                                    if cj is None:
                                        break
                                    same_run = z3.And([spans[current[t]]['start'] == want['start'] for t in range(j, k + 1)])
                                    prev_differs = z3.BoolVal(True) if j == 0 or current[j - 1] is None else spans[current[j - 1]]['start'] != want['start']
                                    is_first = z3.And(same_run, prev_differs)
                                    cands.append(z3.And(is_first, got['line'] == spans[cj]['line'], got['column'] == spans[cj]['column'], got['end'] == spans[cj]['end']))
                                g = z3.And(g_start, z3.Or(cands))
                                label = 'lookup returns the span current at emission (same start; line/column of the first span of its run)'
                            t = time.time()
                            r, m = ex.check_sat_pc(e2.st.pc, [z3.Not(g)])
                            nobl += 1
                            what = 'ops %s, instruction %d: %s' % (''.join(seq), k, label)
                            rep.obligation(what, r, '<= %d builder operations, symbolic spans' % N, time.time() - t)
                            if r == 'unsat':
                                cross.append((what, list(e2.st.pc) + [z3.Not(g)], 'unsat'))
                            else:
                                report_map(rep, m, seq, spans, k, label)
    rep.sample({'kernel': 'BytecodeBuilder source map -> get_source_location', 'operation_sequences': nseq, 'obligations': nobl, 'max_ops': N})
    rep.vacuity.append('source map: %d operation sequences, %d lookups decided' % (nseq, nobl))
    rep.absorb(ex)


def report_map(rep, m, seq, spans, k, label):
    ev = lambda e: m.eval(e, model_completion=True).as_long()
    sp = [{n: ev(e) for n, e in s.items()} for s in spans]
    req = {'cmd': 'source_map', 'ops': ''.join(seq), 'spans': sp, 'lookup': k}
    o = driver.replay([req])[0]
    rep.validated += 1
    p = rep.write_replay('source-map', dict(req, violated=label, observed=o))
    rep.violation('C20/source_map/%s' % re.sub(r'[^a-z]+', '-', label.lower())[:40],
                  'builder ops %s with spans %r: %s fails for instruction %d; real builder/lookup: %r' % (''.join(seq), sp, label, k, o), p)


def validate_source_map(rep):
    """encoder validation of the source-map kernel on seeded concrete sequences through executor and real code"""
    import random
    rnd = random.Random(rep.seed + 20)
    ex = common.executor(unwind=12)
    B = ex.src.structs['BytecodeBuilder']
    bi = {n: i for i, n in enumerate(B)}
    f_set = common.fn_name(ex, 'BytecodeBuilder', 'set_span')
    f_emit = common.fn_name(ex, 'BytecodeBuilder', 'emit')
    f_fin = common.fn_name(ex, 'BytecodeBuilder', 'finish')
    f_get = common.fn_name(ex, 'BytecodeChunk', 'get_source_location')
    nop = EnumV('Op', ex.variant_index('Op', 'Nop'), {})
    names = ex.src.structs['Span']
    reqs = []
    mine = []
    for _ in range(12):
        ops = ''.join(rnd.choice('SE') for _ in range(rnd.randint(1, 7))) + 'E'
        spans = [{'start': rnd.choice([0, 5, 5, 9]), 'end': rnd.randint(10, 20), 'line': rnd.randint(1, 4), 'column': rnd.randint(1, 9)} for _ in range(ops.count('S'))]
        st = State()
        b = Agg('struct', 'BytecodeBuilder', {
            bi['code']: VecV((), 'Op'), bi['constants']: VecV(()), bi['source_map']: VecV(()), bi['current_span']: EnumV('Option<Span>', 0, {}),
            bi['function_info']: EnumV('Option<FunctionInfo>', 0, {}), bi['source_file']: EnumV('Option<String>', 0, {}),
            bi['registers']: Agg('struct', 'RegisterAllocator', {0: Int(z3.BitVecVal(0, 8), False), 1: VecV(()), 2: Int(z3.BitVecVal(0, 8), False), 3: VecV(())}),
        }, lazy=True)
        a = st.alloc(b)
        si = 0
        for op in ops:
            if op == 'S':
                s = spans[si]
                si += 1
                sp = Agg('struct', 'Span', {i: Int(z3.BitVecVal(s[n], 64 if n in ('start', 'end') else 32), False) for i, n in enumerate(names)})
                st = run_to_ends(ex, st, f_set, [Ref(a), sp], 'set_span', rep)[0].st
            else:
                st = run_to_ends(ex, st, f_emit, [Ref(a), nop], 'emit', rep)[0].st
        e = run_to_ends(ex, st, f_fin, [st.store[a]], 'finish', rep)[0]
        ca = e.st.alloc(e.value)
        res = []
        for k in range(ops.count('E')):
            r = run_to_ends(ex, e.st.clone(), f_get, [Ref(ca), Int(z3.BitVecVal(k, 64), False)], 'get', rep)[0].value
            if r.discr == 0:
                res.append(None)
            else:
                res.append({n: z3.simplify(x).as_long() for n, x in span_fields(ex, r.payload[1][0]).items()})
        mine.append(res)
        reqs.append({'cmd': 'source_map', 'ops': ops, 'spans': spans})
    outs = driver.replay(reqs)
    for rq, mn, o in zip(reqs, mine, outs):
        if o['lookups'] != mn:
            raise driver.Inconclusive('encoder validation failed for source map %r: executor %r, real %r' % (rq, mn, o['lookups']))
        rep.validated += 1
    rep.absorb(ex)


KF_NESTED_FILE = 'C20/nested-compiler/source-file-not-inherited'
FILE_PROGRAMS = [
    # (program run as /d/main.ts, frames expected to name /d/main.ts)
    ('let n: any = null;\nconst f = () => n.x;\nf();', 2),
    ('let n: any = null;\nclass K { constructor() { n.x; } }\nnew K();', 2),
    ('let n: any = null;\nclass B { }\nclass K extends B { v = n.x; }\nnew K();', 2),
    ('let n: any = null;\nfunction g() { return n.x; }\ng();', 2),
]


def check_nested_source_file(rep, cross):
    """every compiler function that creates a nested Compiler (function bodies, arrow bodies, class constructors, default constructors)
    hands its source file to the nested builder BEFORE it uses the nested compiler - the chunk of the nested function names the file
    that stack traces print.  The set of such functions is taken from the MIR (callers of Compiler::new among Compiler's methods)."""
    import re
    from emir.symex import Abort
    ex0 = common.executor(unwind=2)
    m = ex0.mir
    names = {}
    for (ty, trait, meth), fns in ex0._fnkeys.items():
        for n in fns:
            names[n] = (ty, meth)
    callers = []
    for name, (s_, e_) in m.fn_index.items():
        if names.get(name, (None,))[0] != 'Compiler':
            continue
        if any(re.search(r'= (compiler::)?Compiler::new\(\)', l) for l in m.lines[s_:e_]):
            callers.append(name)
    entry = {'compile_program', 'compile_program_with_source', 'compile_program_for_eval', 'with_source_file', 'compile_function_body_direct'}
    callers = [c for c in callers if names[c][1] not in entry and m.get(c).args and 'Compiler' in m.get(c).args[0][1]]
    rep.extra['functions_creating_nested_compilers'] = sorted(names[c][1] for c in callers)
    if not callers:
        rep.inconc('no Compiler method creating a nested Compiler found in the MIR dump')
        return
    bad = []
    for fn in sorted(callers):
        meth = names[fn][1]
        ex = common.executor(unwind=2)
        ex.auto_havoc = True
        C = {n: i for i, n in enumerate(ex.src.structs['Compiler'])}
        if 'source_file' not in C or 'builder' not in C:
            raise driver.Inconclusive('Compiler.source_file / builder not found (renamed?)')

        def h_new(e, s, c):
            s.extra['nested_addr'] = c.dest[0] if c.dest else None
            s.event('nested_created')
            return e.ret(s, c, Agg('struct', 'Compiler', {}, lazy=True, nm='$nested'))

        def h_setfile(e, s, c):
            r = c.args[0]
            if isinstance(r, Ref) and r.addr == s.extra.get('nested_addr'):
                s.event('nested_file_set')
            return e.ret(s, c, UNIT)

        def h_any(e, s, c):
            na = s.extra.get('nested_addr')
            if na is not None and any(isinstance(a_, Ref) and a_.addr == na for a_ in c.args):
                if c.norm in ('BytecodeBuilder::set_source_file',):
                    return None
                raise Abort('cut', 'first use of the nested compiler: %s' % c.norm)
            return None
        ex.overrides.insert(0, (re.compile(r'^Compiler::new$'), h_new))
        ex.overrides.insert(1, (re.compile(r'^BytecodeBuilder::set_source_file$'), h_setfile))
        ex.overrides.insert(2, (re.compile(r'.'), h_any))
        f = ex.mir.get(fn)
        st = State()
        has_file = z3.BitVec('outer_has_source_file', 64)
        st.assume(z3.ULT(has_file, 2))
        comp = st.alloc(Agg('struct', 'Compiler', {C['source_file']: EnumV('Option<String>', has_file, {1: {0: Opaque('String', z3.Int('$outer_file'))}})}, lazy=True))
        args = [Ref(comp)] + [ex.fresh(st, t, '$a%d' % i) for i, (a_, t) in enumerate(f.args) if i > 0]
        ex.call_function(st, fn, args)
        try:
            ends = ex.run(st, max_paths=3000)
        except Exception as err:
            rep.inconc('%s: %s' % (meth, str(err)[:120]))
            continue
        n_cut = 0
        this_bad = False
        for e in ends:
            if e.status != 'cut':
                continue
            n_cut += 1
            was_set = any(x[0] == 'nested_file_set' for x in e.st.events)
            g = z3.Implies(has_file == 1, z3.BoolVal(was_set))
            r, mm = ex.check_sat_pc(e.st.pc, [z3.Not(g)])
            if r == 'sat':
                this_bad = True
        what = 'Compiler::%s hands its source file to the nested compiler before using it' % meth
        rep.obligation(what, 'sat' if this_bad else 'unsat', '%d paths up to the first use of the nested compiler' % n_cut, 0.0)
        if n_cut == 0:
            rep.inconc('%s: no path reaches a use of the nested compiler (vacuity)' % meth)
        if this_bad:
            bad.append(meth)
        rep.absorb(ex)
    outs = driver.replay([{'cmd': 'eval', 'src': p_, 'path': '/d/main.ts'} for p_, _ in FILE_PROGRAMS])
    wrong = []
    for (p_, nfr), o in zip(FILE_PROGRAMS, outs):
        rep.validated += 1
        err = o.get('error', '')
        frames = [l for l in err.splitlines() if l.strip().startswith('at ')]
        other = [l.strip() for l in frames if '/d/main.ts' not in l]
        if other or len(frames) < nfr:
            wrong.append((p_, other or frames))
    if (bad or wrong) and not rep.seen(KF_NESTED_FILE):
        p = rep.write_replay('nested-file', {'functions_without_propagation': bad, 'programs_with_wrong_file': wrong})
        rep.violation(KF_NESTED_FILE, 'the source file is not handed to the nested compiler in %r%s' % (
            bad, '; e.g. %r reports frames %r (run as /d/main.ts)' % (wrong[0][0], wrong[0][1]) if wrong else ' (symbolic counterexample)'), p)
    rep.vacuity.append('nested compilers: %d creating functions' % len(callers))
    rep.sample({'kernel': 'nested compilers inherit the source file', 'functions': sorted(names[c][1] for c in callers)})


def run(rep):
    N = BOUNDS[rep.tier]
    rep.bounds = dict(builder_operations_max=N, spans='symbolic (start,end: u64; line,column: u32)', lookups='every instruction index')
    rep.assumptions = ['clear_span is never called by the compiler (checked by grep at design time) and is excluded',
                       'binary_search_by_key modelled by its contract; strict sortedness of bytecode offsets is an obligation (a violation is reported as a panic path)']
    rep.outside = ['whether the compiler sets the right span before each emit', 'parser and lexer spans', 'function names in stack frames']
    cross = []
    validate_source_map(rep)
    check_source_map(rep, cross)
    from . import c20trace, lexk
    c20trace.check(rep, cross)
    check_nested_source_file(rep, cross)
    lexk.check(rep, cross, 'C20')
    lexk.check_checkpoint(rep, cross, 'C20')
    rep.cross = driver.cross_check(cross, 300, 'ALL', rep.tier, rep.seed)
    rep.extra['cross_checked_obligations'] = len(cross)


def replay_file(path):
    d = json.load(open(path))
    o = driver.replay([{k: v for k, v in d.items() if k in ('cmd', 'ops', 'spans', 'lookup')}])[0]
    print(json.dumps(o))
    return 0
