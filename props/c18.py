"""C18 - Module specifiers resolve to canonical paths.

Decided: ModulePath::{resolve, normalize_path, parent, is_bare, is_relative} executed symbolically from the MIR
dump, for every specifier / importer (present or absent) within the byte bounds, against
  O1  a reference resolver written from the property statement (explored under each implementation path),
  O2  the statement's post-conditions (absolute, no '', '.', '..' segments, no trailing slash),
  O3  idempotence (the encoded function composed with itself),
  O4  bare specifiers byte-for-byte.
"""
import json
import random
import time
import z3

from emir import driver
from emir.refrun import explore
from emir.strings import *
from emir.values import *
from emir.symex import State, Inconclusive
from . import common

ALPHA = b'/.abts'
SL = z3.BitVecVal(ord('/'), 8)

BOUNDS = {
    'quick': dict(spec=6, imp=6, slashes=3),
    'thorough': dict(spec=7, imp=7, slashes=3),
}

KF_ROOT = 'C18/resolve/importer-directly-under-root'


def lit(b):
    return str_const(b)


def count_byte(s, ch):
    e = bv(0)
    for i in range(s.cap):
        e = e + z3.If(z3.And(z3.ULT(bv(i), s.n), s.bytes[i] == ch), bv(1), bv(0))
    return e


# ------------------------------------------------------------------------------------------------
# reference (from the property statement)
# ------------------------------------------------------------------------------------------------
def ref_concrete(spec, imp):
    if not (spec.startswith('/') or spec.startswith('./') or spec.startswith('../')):
        return spec                                   # bare: untouched
    joined = spec
    if not spec.startswith('/') and imp is not None and '/' in imp:
        d = imp[:imp.rfind('/')]                      # importer's directory; the root's name is '/'
        joined = ('/' if d == '' else d + '/') + spec
    absolute = joined.startswith('/')
    out = []
    for seg in joined.split('/'):
        if seg in ('', '.'):
            continue
        if seg == '..':
            if out:
                out.pop()                             # never above the root / the start
        else:
            out.append(seg)
    return ('/' if absolute else '') + '/'.join(out)


def ref_symbolic(br, spec, has_imp, imp, max_iter):
    def sw(s, b):
        return s_starts_with(s, lit(b))
    if not br(sw(spec, b'/')) and not br(sw(spec, b'./')) and not br(sw(spec, b'../')):
        return spec
    joined = spec
    if not br(sw(spec, b'/')):
        if br(has_imp):
            f, i = s_rfind_byte(imp, SL)
            if br(f):
                if br(i == 0):
                    joined = s_concat([lit(b'/'), spec])
                else:
                    joined = s_concat([Str(i, imp.bytes), lit(b'/'), spec])
    absolute = br(sw(joined, b'/'))
    segs = []
    pos = bv(0)
    done = False
    for _ in range(max_iter):
        f, i = s_find_byte(joined, SL, start=pos)
        end = z3.If(f, i, joined.n)
        seg = s_substr(joined, pos, end - pos)
        if br(seg.n == 0) or br(s_eq(seg, lit(b'.'))):
            pass
        elif br(s_eq(seg, lit(b'..'))):
            if segs:
                segs.pop()
        else:
            segs.append(seg)
        if not br(f):
            done = True
            break
        pos = i + 1
    if not done:
        raise Inconclusive('reference resolver: segment bound too small')
    parts = []
    for k, s in enumerate(segs):
        if k:
            parts.append(lit(b'/'))
        parts.append(s)
    out = s_concat(parts)
    if absolute:
        out = s_concat([lit(b'/'), out])
    return out


# ------------------------------------------------------------------------------------------------
def setup(ex, b):
    st = State()
    st.extra['alphabet'] = [z3.BitVecVal(c, 8) for c in ALPHA]
    spec = ex.fresh_str(st, b['spec'], 'spec')
    imp = ex.fresh_str(st, b['imp'], 'imp')
    has = z3.Bool('has_importer')
    st.assume(z3.ULE(count_byte(spec, SL) + count_byte(imp, SL), b['slashes']))
    a = st.alloc(Agg('struct', 'ModulePath', {0: imp}))
    base = EnumV('Option', z3.If(has, z3.BitVecVal(1, 64), z3.BitVecVal(0, 64)), {1: {0: Ref(a)}})
    return st, spec, has, imp, base


def model_inputs(m, spec, has, imp):
    s = s_model_bytes(m, spec).decode('latin-1')
    h = z3.is_true(m.eval(has, model_completion=True))
    i = s_model_bytes(m, imp).decode('latin-1') if h else None
    return s, i


def real_resolve(cases, profile='dev'):
    outs = driver.replay([{'cmd': 'resolve', 'spec': s, 'importer': i} for s, i in cases], profile)
    return [o['out'] for o in outs]


def concrete_run(ex, name, spec, imp):
    st = State()
    args = [str_const(spec.encode())]
    if imp is None:
        args.append(EnumV('Option', 0, {}))
    else:
        a = st.alloc(Agg('struct', 'ModulePath', {0: str_const(imp.encode())}))
        args.append(EnumV('Option', 1, {1: {0: Ref(a)}}))
    ex.call_function(st, name, args)
    ends = ex.run(st)
    if len(ends) != 1 or ends[0].status != 'return':
        raise driver.Inconclusive('concrete run of resolve(%r,%r) did not return: %r' % (spec, imp, ends))
    v = ends[0].value.fields[0]
    return bytes(z3.simplify(b).as_long() for b in v.bytes[:z3.simplify(v.n).as_long()]).decode('latin-1')


REPO_VECTORS = [
    ('./utils.ts', '/project/src/main.ts'), ('../lib/helper.ts', '/project/src/main.ts'), ('lodash', '/project/src/main.ts'),
    ('/lib/../src/index.ts', None), ('./utils', None), ('./foo/bar', None), ('./a/b/../c', None), ('./a/./b/./c', None),
    ('./utils', '/src/app/main.ts'), ('../shared/lib', '/src/app/main.ts'), ('../../config', '/src/app/main.ts'),
    ('@scope/package', None), ('/foo/bar', None), ('/foo/../bar', None), ('./m.ts', '/a/main.ts'), ('../../../x', '/a/b.ts'),
    ('/', None), ('./', '/a/b'), ('..', '/a/b'), ('/..', None), ('./a//b', '/x/y'), ('/a/b/', None),
]


def classify(spec, imp):
    rel = spec.startswith('./') or spec.startswith('../')
    if rel and imp is not None and imp.startswith('/') and imp.count('/') == 1:
        return KF_ROOT
    return 'C18/resolve/other'


def role_root(spec, has, imp):
    rel = z3.Or(s_starts_with(spec, lit(b'./')), s_starts_with(spec, lit(b'../')))
    return z3.And(has, rel, s_starts_with(imp, lit(b'/')), count_byte(imp, SL) == 1)


def run(rep):
    tier = rep.tier
    b = BOUNDS[tier]
    rep.bounds = dict(specifier_bytes=b['spec'], importer_bytes=b['imp'], slashes_in_inputs=b['slashes'],
                      segments_after_join=b['slashes'] + 1, alphabet=ALPHA.decode())
    rep.assumptions = [
        'inputs are byte strings over the alphabet %r (every non-/ byte is treated alike by the code: stated, not proved)' % ALPHA.decode(),
        'number of / in specifier plus importer <= %d (explicit assumption, loops are NOT truncated: unwinding check on)' % b['slashes'],
        'std models: str::{starts_with,rfind,get(..i),split(char),is_empty}, Vec<&str>::{new,push,pop}, [&str]::join, format! with {} only, Option::{and_then,unwrap_or}',
    ]
    rep.outside = ['paths longer than the byte bounds', 'non-ASCII bytes and backslashes', 'more segments than the bound']
    ex = common.executor(unwind=b['slashes'] + 4, str_cap=b['spec'])
    name = common.fn_name(ex, 'ModulePath', 'resolve')

    # -- encoder validation: repo's own inputs + seeded random ones through both the executor and the real build
    rnd = random.Random(rep.seed)
    vecs = list(REPO_VECTORS)
    for _ in range(30):
        s = ''.join(rnd.choice('/.ab') for _ in range(rnd.randint(0, 7)))
        if rnd.random() < 0.7:
            s = rnd.choice(['./', '../', '/', '']) + s
        i = None if rnd.random() < 0.2 else ''.join(rnd.choice('/.ab') for _ in range(rnd.randint(0, 7)))
        if i is not None and rnd.random() < 0.7:
            i = '/' + i
        vecs.append((s, i))
    exv = common.executor(unwind=24, str_cap=8)
    real = real_resolve(vecs)
    # concrete witnesses: the real function against the reference on the same vectors (a difference here is a violation
    # whatever the symbolic part can or cannot encode)
    for (s, i), r in zip(vecs, real):
        want = ref_concrete(s, i)
        if r != want:
            key = classify(s, i)
            if not rep.seen(key):
                p = rep.write_replay('vector', {'cmd': 'resolve', 'spec': s, 'importer': i, 'expected': want, 'observed_dev': r})
                rep.violation(key, 'resolve(%r, %r) = %r, reference %r (concrete vector)' % (s, i, r, want), p)
    for (s, i), r in zip(vecs, real):
        mine = concrete_run(exv, name, s, i)
        if mine != r:
            raise driver.Inconclusive('encoder validation failed: resolve(%r,%r): executor %r, real %r' % (s, i, mine, r))
        rep.validated += 1
    rep.absorb(exv)
    # oracle self-test: symbolic reference == concrete reference on the same vectors
    for s, i in vecs:
        sp = str_const(s.encode())
        im = str_const((i or '').encode())
        leaves = explore(exv, [], lambda br: ref_symbolic(br, sp, z3.BoolVal(i is not None), im, 40))
        assert len(leaves) == 1
        v = leaves[0][1]
        got = bytes(z3.simplify(x).as_long() for x in v.bytes[:z3.simplify(v.n).as_long()]).decode('latin-1')
        if got != ref_concrete(s, i):
            raise driver.Inconclusive('oracle self-test failed on (%r,%r): %r vs %r' % (s, i, got, ref_concrete(s, i)))

    phase = {}
    tph = time.time()
    # -- symbolic exploration
    st, spec, has, imp, base = setup(ex, b)
    ex.call_function(st, name, [spec, base])
    ends = ex.run(st)
    if not common.require_clean(rep, ends, 'resolve'):
        rep.absorb(ex)
        return
    rep.vacuity.append('resolve: %d feasible paths reach the assertions (each path condition checked satisfiable)' % len(ends))
    phase['explore_s'] = round(time.time() - tph, 1)
    tph = time.time()
    known_role = role_root(spec, has, imp)
    not_known = z3.Not(known_role)
    cross = []
    nviol = 0
    t0 = time.time()

    def report_cex(m, what, obl):
        nonlocal nviol
        s, i = model_inputs(m, spec, has, imp)
        want = ref_concrete(s, i)
        got_dev = real_resolve([(s, i)], 'dev')[0]
        got_rel = real_resolve([(s, i)], 'release')[0]
        rep.validated += 2
        key = classify(s, i)
        bad = None
        if obl == 'O1':
            if got_dev != want or got_rel != want:
                bad = 'resolve(%r, %r) = %r (release %r), reference %r' % (s, i, got_dev, got_rel, want)
        elif obl == 'O2':
            g = got_dev
            okp = g.startswith('/') and '//' not in g and '/./' not in g and '/../' not in g and not g.endswith('/.') \
                and not g.endswith('/..') and (g == '/' or not g.endswith('/'))
            if not okp:
                bad = 'resolve(%r, %r) = %r is not a canonical absolute path' % (s, i, g)
        elif obl == 'O3':
            again = real_resolve([(got_dev, i)], 'dev')[0]
            if again != got_dev:
                bad = 'resolve(%r, %r) = %r but resolving that again gives %r' % (s, i, got_dev, again)
        elif obl == 'O4':
            if got_dev != s:
                bad = 'bare specifier %r came back as %r' % (s, got_dev)
        if bad is None:
            rep.inconc('%s: solver counterexample (%r,%r) does not reproduce on the real build - encoding suspect' % (what, s, i))
            return
        p = rep.write_replay('%s-%d' % (obl, nviol), {'cmd': 'resolve', 'spec': s, 'importer': i, 'expected': want,
                                                        'observed_dev': got_dev, 'observed_release': got_rel, 'obligation': what})
        nviol += 1
        rep.violation(key, bad, p)

    def decide(pc, extra, what, obl, bound):
        """obligation: pc /\\ extra unsat.  Known-finding roles are split off and decided separately."""
        t = time.time()
        r, m = ex.check_sat_pc(pc, extra + [not_known])
        dt = time.time() - t
        if r == 'sat':
            rep.obligation(what, 'sat', bound, dt)
            report_cex(m, what, obl)
        else:
            rep.obligation(what, 'unsat', bound, dt)
            cross.append((what, list(pc) + extra + [not_known], 'unsat'))
        r2, m2 = ex.check_sat_pc(pc, extra + [known_role])
        if r2 == 'sat':
            report_cex(m2, what + ' [role importer-directly-under-root]', obl)

    bound_txt = '|spec|<=%d |importer|<=%d slashes<=%d' % (b['spec'], b['imp'], b['slashes'])
    n_ref_leaves = 0
    for k, e in enumerate(ends):
        pc = e.st.pc
        out = e.value.fields[0]
        # O1 reference equality
        leaves = explore(ex, pc, lambda br: ref_symbolic(br, spec, has, imp, b['slashes'] + 3))
        n_ref_leaves += len(leaves)
        for j, (conds, refv) in enumerate(leaves):
            decide(pc, conds + [z3.Not(s_eq(out, refv))], 'O1 path %d/ref %d: resolve == reference' % (k, j), 'O1', bound_txt)
        # O2 post-conditions
        nonbare = z3.Or(s_starts_with(spec, lit(b'/')), s_starts_with(spec, lit(b'./')), s_starts_with(spec, lit(b'../')))
        pre = z3.And(nonbare, z3.Or(s_starts_with(spec, lit(b'/')), z3.And(has, s_starts_with(imp, lit(b'/')))))
        post = z3.And(
            s_starts_with(out, lit(b'/')),
            z3.Not(s_contains(out, lit(b'//'))), z3.Not(s_contains(out, lit(b'/./'))), z3.Not(s_contains(out, lit(b'/../'))),
            z3.Not(s_ends_with(out, lit(b'/.'))), z3.Not(s_ends_with(out, lit(b'/..'))),
            z3.Or(out.n == 1, z3.Not(s_ends_with(out, lit(b'/')))))
        decide(pc, [pre, z3.Not(post)], 'O2 path %d: canonical absolute result' % k, 'O2', bound_txt)
        # O4 bare untouched
        decide(pc, [z3.Not(nonbare), z3.Not(s_eq(out, spec))], 'O4 path %d: bare specifier untouched' % k, 'O4', bound_txt)
    rep.sample({'kernel': 'resolve', 'paths': len(ends), 'reference_leaves': n_ref_leaves, 'bound': bound_txt})

    phase['O1_O2_O4_s'] = round(time.time() - tph, 1)
    tph = time.time()
    # O3 idempotence: compose the encoded function with itself on every path's output
    n2 = 0
    for k, e in enumerate(ends):
        st2 = e.st.clone()
        out = e.value.fields[0]
        pre = z3.And(has, s_starts_with(imp, lit(b'/')))
        if not ex.feasible(st2, pre):
            continue
        st2.assume(pre)
        st2.frames = []
        ex.call_function(st2, name, [out, base])
        ends2 = ex.run(st2)
        if not common.require_clean(rep, ends2, 'resolve∘resolve'):
            break
        for e2 in ends2:
            n2 += 1
            out2 = e2.value.fields[0]
            decide(e2.st.pc, [z3.Not(s_eq(out2, out))], 'O3 path %d.%d: resolve(resolve(s,b),b) == resolve(s,b)' % (k, n2), 'O3', bound_txt)
    rep.sample({'kernel': 'resolve∘resolve', 'paths': n2})
    rep.absorb(ex)

    phase['O3_s'] = round(time.time() - tph, 1)
    tph = time.time()
    # -- re-decide with two independent solver binaries
    rep.cross = driver.cross_check(cross, 300, 'QF_BV', rep.tier, rep.seed)
    rep.extra['cross_checked_obligations'] = len(cross)
    phase['cross_s'] = round(time.time() - tph, 1)
    rep.extra['phase_s'] = phase
    print('phases', phase)


def replay_file(path):
    d = json.load(open(path))
    got = real_resolve([(d['spec'], d['importer'])])[0]
    want = ref_concrete(d['spec'], d['importer'])
    print('resolve(%r, %r) = %r; reference %r' % (d['spec'], d['importer'], got, want))
    return 0 if got == want else 1
