"""C05 - every source text is accepted or rejected cleanly: compiler-side panic freedom at width boundaries.

(a) the size arithmetic of every compiler function that narrows a count (props/c10casts.py): no feasible arithmetic panic and no
    silent truncation for ANY literal / argument / parameter / template size (the "300-element array literal panics" clause);
(a'') RegisterAllocator::{alloc, free, reserve_range, save, restore} never panic from ANY allocator state (props/c10.py kernel (a));
(a') compile_enum_declaration never panics for any numeric literal initialiser (props/c04.py kernel);
(b) lexer position kernel - see props/lexk.py;
(c) Lexer::checkpoint / restore round trip (what every speculative parse relies on to rewind) - props/lexk.py check_checkpoint;
(d) every speculative parse that declines has rewound lexer and current token completely - props/parsebk.py.
The parser (recursion depth, speculative re-parsing cost) is outside the claim.
"""
import json
import z3

from emir import driver
from . import common, c10casts, c04, vmarms


def run(rep):
    rep.bounds = dict(construct_sizes='any usize (symbolic)', loops='loops over AST vectors abstracted to one arbitrary iteration')
    rep.assumptions = [
        'AST vectors have arbitrary length; every other Compiler method is havoc\'d; BytecodeBuilder is recorded as events',
        'reserve_registers obeys its contract (Ok(start) => start + count <= 255), which C10(a) decides',
    ]
    rep.outside = ['the parser: recursion depth and speculative re-parsing (native stack overflow, super-linear work)',
                   'identifiers / strings / numbers / templates in the lexer', '"bounded work"']
    cross = []
    c10casts.check(rep, cross, 'C05')
    # enum kernel: only the panic obligations count here; value obligations belong to C04
    sub = driver.Report('C04', rep.tier, rep.seed)
    c04.run(sub)
    rep.paths += sub.paths
    rep.queries += sub.queries
    rep.solver_s += sub.solver_s
    rep.validated += sub.validated
    rep.functions |= sub.functions
    rep.models |= sub.models
    rep.havoc |= sub.havoc
    for o in sub.obligations:
        rep.obligations.append(dict(o, obligation='[enum kernel] ' + o['obligation']))
    for key, what, p in sub.violations:
        if 'panic' in what:
            rep.violation(key.replace('C04/', 'C05/'), what, p)
    for m in sub.inconclusive:
        rep.inconc('[enum kernel] ' + m)
    # register allocator: only the panic obligations count here (the range/overlap obligations belong to C10)
    from . import c10
    sub2 = driver.Report('C10', rep.tier, rep.seed)
    c10.check_allocator(sub2, cross)
    rep.paths += sub2.paths
    rep.queries += sub2.queries
    rep.solver_s += sub2.solver_s
    rep.validated += sub2.validated
    rep.functions |= sub2.functions
    rep.models |= sub2.models
    rep.havoc |= sub2.havoc
    for o in sub2.obligations:
        rep.obligations.append(dict(o, obligation='[register allocator] ' + o['obligation']))
    for key, what, p in sub2.violations:
        if 'panic' in what or 'panic' in key:
            rep.violation(key.replace('C10/', 'C05/'), what + ' (reached from prepare() through the compiler\'s register reservations)', p)
    for m in sub2.inconclusive:
        rep.inconc('[register allocator] ' + m)
    try:
        from . import lexk
        lexk.check(rep, cross, 'C05')
        lexk.check_checkpoint(rep, cross, 'C05')
        from . import parsebk
        parsebk.check(rep, cross, 'C05')
    except ImportError:
        pass
    rep.cross = driver.cross_check(cross, 300, 'ALL', rep.tier, rep.seed)
    rep.extra['cross_checked_obligations'] = len(cross)


def replay_file(path):
    d = json.load(open(path))
    o = driver.replay([{'cmd': 'eval', 'src': d['src']}])[0]
    print(json.dumps(o)[:400])
    return 1 if 'panic' in o else 0
