"""C10 - meaning does not depend on size: width-crossing kernels.

(a) RegisterAllocator::{alloc, free, reserve_range, save, restore}: ONE operation from an ARBITRARY pre-state satisfying the
    representation invariant (inductive step => operation histories of any length).
(b) BytecodeBuilder::{add_constant, add_number, emit_load_number}: constant-pool index arithmetic at the u16 boundary.
(c) narrowing casts in the compiler: see props/c10casts.py (run from here).
"""
import json
import re
import time
import z3

from emir import driver
from emir.values import *
from emir.symex import State
from emir.models import deref
from . import common

BOUNDS = {'quick': dict(fl=3, saved=2), 'thorough': dict(fl=6, saved=4)}


def u8(name):
    return z3.BitVec(fresh_name(name), 8)


class AllocState:
    def __init__(self, next_, saved, max_used, fl):
        self.next, self.saved, self.max_used, self.fl = next_, saved, max_used, fl

    def live(self, x):
        return z3.And(z3.ULT(x, self.next), z3.And([f != x for f in self.fl] + [z3.BoolVal(True)]))

    def inv(self):
        cs = [z3.UGE(self.max_used, self.next)]
        for i, f in enumerate(self.fl):
            cs.append(z3.ULT(f, self.next))
            for g in self.fl[i + 1:]:
                cs.append(f != g)
        for s in self.saved:
            cs.append(z3.ULE(s, self.max_used))
        return z3.And(cs)

    def to_value(self):
        return Agg('struct', 'RegisterAllocator', {
            0: Int(self.next, False), 1: VecV([Int(s, False) for s in self.saved], 'u8'), 2: Int(self.max_used, False),
            3: VecV([Int(f, False) for f in self.fl], 'u8')})

    @staticmethod
    def from_value(v):
        return AllocState(v.fields[0].e, [x.e for x in v.fields[1].items], v.fields[2].e, [x.e for x in v.fields[3].items])


def havoc_error(ex, st, call):
    ex.havoc_used.add(call.norm + ' (opaque error value)')
    return ex.ret(st, call, Opaque('JsError', tag=str(call.args[0]) if call.args else None))


def check_allocator(rep, cross):
    b = BOUNDS[rep.tier]
    nq = 0
    for nfl in range(b['fl'] + 1):
        for nsv in range(b['saved'] + 1):
            if rep.tier == 'quick' and nsv > 0 and nfl > 1:
                continue   # saved only interacts with restore; covered with small free lists in quick
            for opname in ('alloc', 'free', 'reserve_range', 'save', 'restore'):
                ex = common.executor(unwind=b['fl'] + 3)
                ex.overrides.append((re.compile(r'^JsError::internal_error$'), havoc_error))
                fn = common.fn_name(ex, 'RegisterAllocator', opname)
                st = State()
                pre = AllocState(u8('next'), [u8('sv%d' % i) for i in range(nsv)], u8('max_used'), [u8('fl%d' % i) for i in range(nfl)])
                st.assume(pre.inv())
                a = st.alloc(pre.to_value())
                args = [Ref(a)]
                arg = None
                if opname == 'free':
                    arg = u8('r')
                    st.assume(pre.live(arg))       # callers' contract: only live registers are freed
                    args.append(Int(arg, False))
                elif opname == 'reserve_range':
                    arg = u8('count')
                    args.append(Int(arg, False))
                ex.call_function(st, fn, args)
                ends = ex.run(st)
                x = u8('x')     # universally quantified register
                bound = '|free_list|=%d |saved|=%d, any next/max_used/contents' % (nfl, nsv)
                for k, e in enumerate(ends):
                    what0 = 'RegisterAllocator::%s [%s] path %d' % (opname, bound, k)
                    if e.status == 'panic':
                        r, m = ex.check_sat_pc(e.st.pc, [])
                        rep.obligation(what0 + ': no panic', 'sat', bound, 0.0)
                        report_alloc(rep, ex, m, pre, opname, arg, 'panics: ' + e.detail)
                        continue
                    if e.status != 'return':
                        rep.inconc('%s: %s %s' % (what0, e.status, e.detail))
                        continue
                    post = AllocState.from_value(e.st.store[a])
                    goals = []   # list of (label, z3 Bool that must hold)
                    goals.append(('invariant preserved', post.inv()))
                    rv = e.value
                    if opname == 'alloc':
                        if rv.discr == 0:
                            r_ = rv.payload[0][0].e
                            goals.append(('returned register was not live', z3.Not(pre.live(r_))))
                            goals.append(('live set grows by exactly the returned register', post.live(x) == z3.Or(pre.live(x), x == r_)))
                            goals.append(('returned register < max_used (inside the register file)', z3.ULT(r_, post.max_used)))
                        else:
                            goals.append(('Err only when nothing is free', z3.And(pre.next == 255, z3.BoolVal(len(pre.fl) == 0))))
                            goals.append(('Err leaves the live set unchanged', post.live(x) == pre.live(x)))
                    elif opname == 'free':
                        goals.append(('live set shrinks by exactly r', post.live(x) == z3.And(pre.live(x), x != arg)))
                        goals.append(('max_used unchanged', post.max_used == pre.max_used))
                    elif opname == 'reserve_range':
                        if rv.discr == 0:
                            s_ = rv.payload[0][0].e
                            s9, c9, x9 = z3.ZeroExt(1, s_), z3.ZeroExt(1, arg), z3.ZeroExt(1, x)
                            inr = z3.And(z3.ULE(s9, x9), z3.ULT(x9, s9 + c9))
                            goals.append(('reserved registers were not live', z3.Implies(inr, z3.Not(pre.live(x)))))
                            goals.append(('live set grows by exactly the range', post.live(x) == z3.Or(pre.live(x), inr)))
                            goals.append(('range ends inside the register file', z3.ULE(s9 + c9, z3.ZeroExt(1, post.max_used))))
                        else:
                            goals.append(('Err only when the range does not fit', z3.UGT(z3.ZeroExt(1, pre.next) + z3.ZeroExt(1, arg), 255)))
                            goals.append(('Err leaves the live set unchanged', post.live(x) == pre.live(x)))
                    elif opname == 'save':
                        ok = z3.BoolVal(len(post.saved) == len(pre.saved) + 1)
                        if len(post.saved) == len(pre.saved) + 1:
                            ok = z3.And([p == q for p, q in zip(post.saved, pre.saved)] + [post.saved[-1] == pre.next])
                        goals.append(('saved stack gets the current position pushed', ok))
                        goals.append(('live set unchanged', post.live(x) == pre.live(x)))
                    elif opname == 'restore':
                        if pre.saved:
                            pos = pre.saved[-1]
                            goals.append(('next restored to the saved position', post.next == pos))
                            goals.append(('registers below the saved position keep their state',
                                          z3.Implies(z3.And(z3.ULT(x, pos), z3.ULT(x, pre.next)), post.live(x) == pre.live(x))))
                            goals.append(('saved stack popped', z3.BoolVal(len(post.saved) == len(pre.saved) - 1)))
                        else:
                            goals.append(('no saved position: state unchanged', z3.And(post.next == pre.next, post.live(x) == pre.live(x))))
                    for label, g in goals:
                        t = time.time()
                        r, m = ex.check_sat_pc(e.st.pc, [z3.Not(g)])
                        nq += 1
                        rep.obligation(what0 + ': ' + label, r, bound, time.time() - t)
                        if r == 'unsat':
                            cross.append((what0 + ': ' + label, list(e.st.pc) + [z3.Not(g)], 'unsat'))
                        else:
                            report_alloc(rep, ex, m, pre, opname, arg, label)
                if ends:
                    rep.vacuity.append('RegisterAllocator::%s %s: %d feasible paths' % (opname, bound, len(ends)))
                rep.absorb(ex)
    rep.sample({'kernel': 'RegisterAllocator inductive step', 'obligations': nq, 'free_list_lengths': list(range(b['fl'] + 1)),
                'saved_lengths': list(range(b['saved'] + 1))})


def report_alloc(rep, ex, m, pre, opname, arg, label):
    ev = lambda e: m.eval(e, model_completion=True).as_long()
    state = dict(next=ev(pre.next), saved=[ev(s) for s in pre.saved], max_used=ev(pre.max_used), free_list=[ev(f) for f in pre.fl])
    a = ev(arg) if arg is not None else None
    # reproduce through the public API of the real allocator: build the pre-state by a history, then apply the operation
    hist = history_for(state)
    if hist is None:
        rep.inconc('RegisterAllocator::%s: counterexample pre-state %r is not reachable by my history builder (invariant too weak?)' % (opname, state))
        return
    o = driver.replay([{'cmd': 'regalloc', 'history': hist, 'op': opname, 'arg': a}])[0]
    rep.validated += 1
    p = rep.write_replay('regalloc-%s' % opname, {'cmd': 'regalloc', 'history': hist, 'op': opname, 'arg': a, 'pre_state': state,
                                                   'violated': label, 'observed': o})
    rep.violation('C10/RegisterAllocator::%s/%s' % (opname, re.sub(r'[^a-z]+', '-', label.lower())[:40]),
                  'RegisterAllocator::%s from state %r (arg %r): %s; real allocator: %r' % (opname, state, a, label, o), p)


def history_for(state):
    """a sequence of public operations producing the given pre-state (next, free_list order, saved, max_used)"""
    nxt, fl, saved, mx = state['next'], state['free_list'], state['saved'], state['max_used']
    if mx < nxt or any(f >= nxt for f in fl) or len(set(fl)) != len(fl) or any(s > mx for s in saved):
        return None
    h = []
    # saved positions must be pushed when next equals them: raise next to each saved value via reserve, save, ...
    cur = 0
    hi = 0
    for s in saved:
        if s >= cur:
            h.append(['reserve', s - cur])
        else:
            # lower next: free from the top
            for r in range(cur - 1, s - 1, -1):
                h.append(['free', r])
        cur = s
        hi = max(hi, cur)
        h.append(['save'])
    if mx > hi:
        if mx >= cur:
            h.append(['reserve', mx - cur])
            cur = mx
        hi = mx
    if cur > nxt:
        for r in range(cur - 1, nxt - 1, -1):
            h.append(['free', r])
    elif cur < nxt:
        h.append(['reserve', nxt - cur])
    cur = nxt
    if max(hi, cur) != mx:
        return None
    for f in fl:
        if f == cur - 1:
            return None   # freeing the top register lowers next instead of entering the free list
        h.append(['free', f])
    return h


def check_constants(rep, cross):
    ex = common.executor(unwind=4)
    ex.overrides.append((re.compile(r'^JsError::internal_error$'), havoc_error))
    fn = common.fn_name(ex, 'BytecodeBuilder', 'add_constant')
    st = State()
    n = z3.BitVec('constants_len', 64)
    st.assume(z3.ULE(n, 1 << 40))
    names = ex.src.structs['BytecodeBuilder']
    ci = names.index('constants')
    bld = Agg('struct', 'BytecodeBuilder', {ci: AbsVec(n, 'constants0', 'Constant')}, lazy=True)
    a = st.alloc(bld)
    ex.call_function(st, fn, [Ref(a), Opaque('Constant')])
    ends = ex.run(st)
    if not common.require_clean(rep, ends, 'add_constant'):
        rep.absorb(ex)
        return
    for k, e in enumerate(ends):
        post = e.st.store[a].fields[ci]
        rv = e.value
        if rv.discr == 0:
            idx = rv.payload[0][0].e
            g = z3.And(z3.ZeroExt(48, idx) == n, z3.ULT(n, 65535), post.n == n + 1)
            label = 'Ok(idx): idx == old length < 65535 and exactly one constant was pushed'
        else:
            g = z3.And(z3.UGE(n, 65535), post.n == n)
            label = 'Err only when the pool is full, pool unchanged'
        t = time.time()
        r, m = ex.check_sat_pc(e.st.pc, [z3.Not(g)])
        what = 'add_constant path %d: %s' % (k, label)
        rep.obligation(what, r, 'any pool length', time.time() - t)
        if r == 'unsat':
            cross.append((what, list(e.st.pc) + [z3.Not(g)], 'unsat'))
        else:
            ln = m.eval(n, model_completion=True).as_long()
            o = driver.replay([{'cmd': 'add_constants', 'count': min(ln + 2, 70000)}])[0]
            rep.validated += 1
            p = rep.write_replay('add_constant', {'cmd': 'add_constants', 'count': min(ln + 2, 70000), 'observed': o})
            rep.violation('C10/add_constant/index-arithmetic', 'add_constant with %d constants in the pool: %s fails; real builder: %r' % (ln, label, o), p)
    rep.sample({'kernel': 'BytecodeBuilder::add_constant', 'paths': len(ends), 'pool_length': 'symbolic, any'})
    rep.absorb(ex)

    # emit_load_number: LoadInt only for values it represents exactly; otherwise the number goes to the pool
    ex = common.executor(unwind=4)
    ex.overrides.append((re.compile(r'^JsError::internal_error$'), havoc_error))
    emitted = []

    def h_emit(e, s, c):
        s.event('emit', c.args[1])
        e.havoc_used.add('BytecodeBuilder::emit (recorded as an event)')
        return e.ret(s, c, Int(z3.BitVecVal(0, 64), False))

    def h_add_number(e, s, c):
        s.event('add_number', c.args[1])
        e.havoc_used.add('BytecodeBuilder::add_number (recorded; fresh result)')
        d = z3.BitVec(fresh_name('addnum_discr'), 64)
        s.assume(z3.ULT(d, 2))
        idx = z3.BitVec(fresh_name('idx'), 16)
        return e.ret(s, c, EnumV('Result', d, {0: {0: Int(idx, False)}, 1: {0: Opaque('JsError')}}))
    ex.overrides.append((re.compile(r'^BytecodeBuilder::emit$'), h_emit))
    ex.overrides.append((re.compile(r'^BytecodeBuilder::add_number$'), h_add_number))
    fn = common.fn_name(ex, 'BytecodeBuilder', 'emit_load_number')
    st = State()
    nb = z3.BitVec('num_bits', 64)
    x = z3.fpBVToFP(nb, F64)
    # documented precondition: the only callers pass the value of a numeric literal, which is never -0
    # (probe: emit_load_number(-0.0) would emit LoadInt 0; the program `-0` is compiled as Neg(0) and evaluates correctly)
    st.assume(nb != z3.BitVecVal(0x8000000000000000, 64))
    a = st.alloc(Agg('struct', 'BytecodeBuilder', {}, lazy=True))
    ex.call_function(st, fn, [Ref(a), Int(z3.BitVecVal(0, 8), False), Float(x)])
    ends = ex.run(st)
    if common.require_clean(rep, ends, 'emit_load_number'):
        li = ex.variant_index('Op', 'LoadInt')
        lc = ex.variant_index('Op', 'LoadConst')
        for k, e in enumerate(ends):
            emits = [ev for ev in e.st.events if ev[0] == 'emit']
            adds = [ev for ev in e.st.events if ev[0] == 'add_number']
            if e.value.discr == 1:
                g = z3.BoolVal(len(emits) == 0 and len(adds) == 1)
                label = 'Err only propagated from add_number, nothing emitted'
            elif len(emits) == 1 and emits[0][1].discr == li:
                iv = emits[0][1].payload[li][1].e
                # the VM executes LoadInt as `value as f64`: must be the same JS number (note: -0 is not an i32)
                g = z3.fpSignedToFP(RNE, iv, F64) == x
                label = 'LoadInt{value} only when value as f64 is exactly the literal'
            elif len(emits) == 1 and emits[0][1].discr == lc and len(adds) == 1:
                g = z3.And(adds[0][1].e == x)
                label = 'LoadConst refers to add_number(n) of the same n'
            else:
                g = z3.BoolVal(False)
                label = 'exactly one instruction is emitted'
            t = time.time()
            r, m = ex.check_sat_pc(e.st.pc, [z3.Not(g)])
            what = 'emit_load_number path %d: %s' % (k, label)
            rep.obligation(what, r, 'every f64 bit pattern', time.time() - t)
            if r == 'unsat':
                cross.append((what, list(e.st.pc) + [z3.Not(g)], 'unsat'))
            else:
                bits = m.eval(nb, model_completion=True).as_long()
                from . import vmarms
                xf = vmarms.bits_f64(bits)
                # a numeric literal is never negative or NaN; only report what a program can reach
                src = 'const v = %s; [1 / v, v].join(",")' % vmarms.js_literal(3, False, bits)
                o = driver.replay([{'cmd': 'eval', 'src': src}])[0]
                rep.validated += 1
                want = '%s,%s' % (js_num(1 / xf if xf != 0 else (float('inf') if str(xf)[0] != '-' else float('-inf'))), js_num(xf))
                got = o.get('value', {}).get('v')
                if got == want:
                    rep.inconc('%s: counterexample literal %r does not reproduce through the public API (%s)' % (what, xf, got))
                else:
                    p = rep.write_replay('emit_load_number', {'cmd': 'eval', 'src': src, 'expected': want, 'observed': o})
                    rep.violation('C10/emit_load_number/literal-value', 'literal %r is loaded as a different number: %s -> %r, expected %r' % (xf, src, got, want), p)
        rep.sample({'kernel': 'BytecodeBuilder::emit_load_number', 'paths': len(ends)})
    rep.absorb(ex)


def js_num(x):
    import math
    if math.isnan(x):
        return 'NaN'
    if math.isinf(x):
        return 'Infinity' if x > 0 else '-Infinity'
    if x == int(x) and abs(x) < 1e21:
        return str(int(x))
    return repr(x)


def validate_allocator(rep):
    """encoder validation: seeded random operation histories through the executor (concrete) and the real allocator"""
    import random
    rnd = random.Random(rep.seed + 10)
    ex = common.executor(unwind=40)
    ex.overrides.append((re.compile(r'^JsError::internal_error$'), havoc_error))
    fns = {n: common.fn_name(ex, 'RegisterAllocator', n) for n in ('alloc', 'free', 'reserve_range', 'save', 'restore')}

    def apply(st, a, op, arg):
        st.frames = []
        args = [Ref(a)] + ([Int(z3.BitVecVal(arg, 8), False)] if op in ('free', 'reserve_range') else [])
        ex.call_function(st, fns[op], args)
        ends = ex.run(st)
        if len(ends) != 1 or ends[0].status != 'return':
            raise driver.Inconclusive('concrete allocator run did not return: %r' % (ends,))
        return ends[0].value
    cases = []
    for _ in range(25):
        hist = []
        live = []
        nxt = 0
        for _ in range(rnd.randint(0, 10)):
            c = rnd.random()
            if c < 0.35:
                hist.append(['alloc', 0])
            elif c < 0.55:
                hist.append(['reserve', rnd.choice([0, 1, 2, 3, 100, 200])])
            elif c < 0.8:
                hist.append(['free', rnd.randint(0, 6)])
            elif c < 0.9:
                hist.append(['save', 0])
            else:
                hist.append(['restore', 0])
        op = rnd.choice(['alloc', 'free', 'reserve_range', 'save', 'restore'])
        cases.append((hist, op, rnd.choice([0, 1, 2, 5, 250, 255])))
    outs = driver.replay([{'cmd': 'regalloc', 'history': h, 'op': op, 'arg': a} for h, op, a in cases])
    for (hist, op, arg), o in zip(cases, outs):
        st = State()
        a = st.alloc(Agg('struct', 'RegisterAllocator', {0: Int(z3.BitVecVal(0, 8), False), 1: VecV((), 'u8'), 2: Int(z3.BitVecVal(0, 8), False), 3: VecV((), 'u8')}))
        for name, x in hist:
            apply(st, a, {'reserve': 'reserve_range'}.get(name, name), x)
        cur = lambda: (z3.simplify(st.store[a].fields[0].e).as_long(), z3.simplify(st.store[a].fields[2].e).as_long())
        pre = cur()
        rv = apply(st, a, op, arg)
        post = cur()
        follow = []
        for _ in range(4):
            r = apply(st, a, 'alloc', 0)
            follow.append(z3.simplify(r.payload[0][0].e).as_long() if r.discr == 0 else 'err')
        mine = {'pre': {'next': pre[0], 'max_used': pre[1]}, 'post': {'next': post[0], 'max_used': post[1]}, 'next_allocs': follow}
        if op in ('alloc', 'reserve_range'):
            mine['result'] = {'ok': z3.simplify(rv.payload[0][0].e).as_long()} if rv.discr == 0 else 'err'
            real_res = {'ok': o['result']['ok']} if 'ok' in o['result'] else 'err'
        else:
            mine['result'] = real_res = {}
        real = {'pre': o['pre'], 'post': o['post'], 'next_allocs': o['next_allocs'], 'result': real_res}
        if mine != real:
            raise driver.Inconclusive('encoder validation failed for RegisterAllocator history %r then %s(%r): executor %r, real %r' % (hist, op, arg, mine, real))
        rep.validated += 1
    rep.absorb(ex)


def run(rep):
    b = BOUNDS[rep.tier]
    rep.bounds = dict(free_list_len_max=b['fl'], saved_len_max=b['saved'], register_values='any u8', constant_pool_len='any')
    rep.assumptions = [
        'pre-state satisfies the representation invariant (free_list distinct and below next; max_used >= next; saved positions <= max_used); the invariant is itself an obligation of every operation (inductive)',
        'free(r) is only called for a live register (callers\' contract)',
        'JsError::internal_error returns an opaque error value (its text is not the subject)',
        'emit_load_number is never called with -0.0 (numeric literals are non-negative; confirmed through the public API)',
    ]
    rep.outside = ['"limits are per construct, never cumulative" (register leakage across statements)', 'nesting depth', 'run-time string/array lengths']
    cross = []
    validate_allocator(rep)
    check_allocator(rep, cross)
    check_constants(rep, cross)
    try:
        from . import c10casts
        c10casts.check(rep, cross, 'C10')
    except ImportError:
        pass
    rep.cross = driver.cross_check(cross, 300, 'ALL', rep.tier, rep.seed)
    rep.extra['cross_checked_obligations'] = len(cross)


def replay_file(path):
    d = json.load(open(path))
    o = driver.replay([{k: v for k, v in d.items() if k in ('cmd', 'history', 'op', 'arg', 'count', 'src')}])[0]
    print(json.dumps(o))
    return 0
