"""Shared harness for C08 / C19 / C11: Interpreter::{process_vm_result, run_vm_to_completion, step} on a lazily
materialised symbolic Interpreter (ledger fields explicit, everything else materialised on first read)."""
import re
import z3

from emir import driver
from emir.values import *
from emir.symex import State, Abort
from . import common

LEDGER = ['pending_orders', 'cancelled_orders', 'suspended_for_order', 'wait_graph', 'order_responses', 'next_order_id',
          'next_context_id', 'next_promise_id', 'promise_ids']
RUNSTATE = ['active_vm', 'active_saved_env', 'active_module_env', 'active_module_path', 'env', 'pending_program']

EXPECT_TYPES = {
    'pending_orders': 'Vec<', 'cancelled_orders': 'Vec<', 'suspended_for_order': 'Option<', 'wait_graph': 'WaitGraph',
    'active_vm': 'Option<', 'active_saved_env': 'Option<', 'active_module_env': 'Option<', 'active_module_path': 'Option<',
    'env': 'EnvRef', 'next_context_id': 'u64', 'next_promise_id': 'u64', 'promise_ids': 'HashMap<',
}


class InterpFields:
    def __init__(self, ex):
        names = ex.src.structs.get('Interpreter')
        types = ex.src.struct_types.get('Interpreter')
        if not names:
            raise driver.Inconclusive('struct Interpreter not found in the current source')
        self.idx = {n: i for i, n in enumerate(names)}
        self.types = {n: t for n, t in zip(names, types)}
        for n, frag in EXPECT_TYPES.items():
            if n not in self.idx:
                raise driver.Inconclusive('Interpreter.%s not found in the current source (renamed?)' % n)
            if frag not in self.types[n].replace('FxHashMap', 'HashMap'):
                raise driver.Inconclusive('Interpreter.%s has type %s, expected %s... (field map out of date)' % (n, self.types[n], frag))
        wg = ex.src.structs.get('WaitGraph')
        self.wg = {n: i for i, n in enumerate(wg)}

    def __getitem__(self, n):
        return self.idx[n]


def setup_executor(unwind=6):
    ex = common.executor(unwind=unwind)
    # maps whose contents the kernels never inspect: tracked by size only
    ex.fresh_hooks.append((re.compile(r'^(Fx)?HashMap<|^VecDeque<'), absmap))
    ex.opaque_types = [p for p in ex.opaque_types if 'HashMap' not in p.pattern]
    ex.opaque_types.append(re.compile(r'^BytecodeVM$|^SavedVmState$|^Guarded$|^RuntimeValue$|^JsError$|^ModulePath$|^Program$|^PendingProgram$|^ThrownValue$'))
    return ex


def absmap(ex, st, t, name):
    n = z3.BitVec(name + '_len', 64)
    st.assume(z3.ULE(n, 1 << 40))
    return AbsVec(n, name + ':map', None)


def fresh_interp(ex, st, F):
    """-> (address of the Interpreter cell, dict of the explicit symbolic ledger parts)"""
    sym = {}
    fields = {}

    def absvec(nm):
        n = z3.BitVec(nm + '_len', 64)
        st.assume(z3.ULE(n, 1 << 40))
        sym[nm + '_len'] = n
        return AbsVec(n, nm + '0', None)
    fields[F['pending_orders']] = absvec('pending')
    fields[F['cancelled_orders']] = absvec('cancelled')
    sus = z3.BitVec('suspended_discr', 64)
    st.assume(z3.ULT(sus, 2))
    sym['suspended'] = sus
    fields[F['suspended_for_order']] = EnumV('Option<VmOrderSuspension>', sus, {}, lazy=True)
    ctxn = z3.BitVec('contexts_len', 64)
    st.assume(z3.ULE(ctxn, 1 << 40))
    sym['contexts_len'] = ctxn
    fields[F['wait_graph']] = Agg('struct', 'WaitGraph', {F.wg['contexts']: AbsVec(ctxn, 'contexts0', None)}, lazy=True)
    for cnt in ('next_context_id', 'next_promise_id'):
        c = z3.BitVec(cnt, 64)
        st.assume(z3.ULT(c, 1 << 63))      # id counters never reach 2^63 (one increment per suspension)
        fields[F[cnt]] = Int(c, False)
        sym[cnt] = c
    a = st.alloc(Agg('struct', 'Interpreter', fields, lazy=True))
    return a, sym


def ledger_of(ex, st, a, F):
    """read the ledger fields of the interpreter cell in state st"""
    v = st.store[a]
    out = {}
    for n in ('pending_orders', 'cancelled_orders', 'suspended_for_order'):
        out[n] = v.fields.get(F[n])
    wg = v.fields.get(F['wait_graph'])
    out['contexts'] = wg.fields.get(F.wg['contexts']) if wg is not None else None
    return out


def is_empty_vec(v):
    if isinstance(v, VecV):
        return z3.BoolVal(len(v.items) == 0)
    return v.n == 0


def same_contents(v, old):
    """z3 Bool: vector value v has exactly the contents of the initial abstract vector old"""
    if isinstance(v, AbsVec):
        return z3.BoolVal(v.tok == old.tok)
    if isinstance(v, VecV):
        return z3.And(z3.BoolVal(len(v.items) == 0), old.n == 0)
    return z3.BoolVal(False)


def add_context_stub(F):
    """WaitGraph::add_context recorded as an event; its effect on `contexts` (one more waiting context) is kept"""
    def h(ex, st, call):
        ex.havoc_used.add('WaitGraph::add_context (event; contexts grows by one; WaitGraph itself is checked separately)')
        st.event('call', 'WaitGraph::add_context', tuple(call.args[1:]))
        r = call.args[0]
        wg = ex.load(st, r.addr, r.path)
        c = wg.fields.get(F.wg['contexts'])
        if isinstance(c, AbsVec):
            ex.store(st, r.addr, r.path + (('f', F.wg['contexts'], None),), AbsVec(c.n + 1, (c.tok, 'add_context'), None))
        return ex.ret(st, call, UNIT)
    return (re.compile(r'^WaitGraph::add_context$'), h)


def events_key(ex, evs):
    """comparable rendering of an event trace"""
    out = []
    for e in evs:
        out.append(tuple(render(x) for x in e))
    return out


def render(x):
    if isinstance(x, tuple):
        return tuple(render(y) for y in x)
    if isinstance(x, Opaque):
        return ('opq', str(x.id))
    if isinstance(x, Int):
        return ('int', str(z3.simplify(x.e)))
    if isinstance(x, Bool):
        return ('bool', str(z3.simplify(x.e)))
    if isinstance(x, AbsVec):
        return ('absvec', norm_tok(str(x.tok)), norm_tok(str(z3.simplify(x.n))))
    if isinstance(x, VecV):
        return ('vec', tuple(render(i) for i in x.items))
    if isinstance(x, Ref):
        return ('ref', x.addr, tuple(p[:2] for p in x.path))
    if isinstance(x, EnumV):
        d = x.discr if isinstance(x.discr, int) else str(z3.simplify(x.discr))
        return ('enum', x.ty, d, tuple(sorted((vi, tuple(sorted((fi, render(fv)) for fi, fv in pl.items()))) for vi, pl in x.payload.items())))
    if isinstance(x, Agg):
        return ('agg', x.kind, x.ty, tuple(sorted((i, render(v)) for i, v in x.fields.items())))
    if isinstance(x, Lazy):
        return ('lazy', x.ty)
    if isinstance(x, Str):
        return ('str', str(z3.simplify(x.n)))
    return norm_tok(str(x))


_GEN = re.compile(r'\$(?:hvm|ahm):[^ ]*?\.\d+\.\d+(?=\.\d)|\$\d+(?=\.\d)')


def norm_tok(t):
    """cells rewritten by an abstracted callee carry a generation name ($hvm:<callee>.<k>.<arg>...); two functions that are compared
    reach the same field of the same object through different generations (one of them calls the abstracted callee itself), so tokens
    are compared by field path only"""
    return _GEN.sub('$cell', t)
