"""C14 - garbage is reclaimed: function-local env-guard balance.

Decided on the real MIR with every callee abstracted by assume-guarantee (auto-havoc: arbitrary result, arbitrary contents
behind &mut arguments, no env-guard effect of its own) and Interpreter::push_env_guard / pop_env_guard recorded as events:
  * resume_bytecode_generator, call_bytecode_function_with_new_target: pushes == pops on EVERY path to any return (Ok or Err);
  * BytecodeVM::push_trampoline_frame_and_call_bytecode(_construct): a guard is pushed iff a trampoline frame is pushed;
  * BytecodeVM::restore_from_trampoline_frame: exactly one pop;
  * BytecodeVM::handle_error_with_trampoline_unwind: one pop per trampoline frame popped.
Concrete companion: live-object counts after collect() over repeated runs of self-contained programs (witness / replay route).
"""
import json
import re
import time
import z3

from emir import driver
from emir.values import *
from emir.symex import State
from . import common, ledger

KF_ABANDONED = 'C14/env_guards/generator-abandoned-inside-block-scope'

PROGRAMS = [
    ('function* g(){ yield 1; yield 2 } const it = g(); it.next(); it.next(); it.next(); 1', 'C14/resume_bytecode_generator/unpaired-env-guard'),
    ('function* g(){ yield 1 } for (const x of g()) {} 1', 'C14/resume_bytecode_generator/unpaired-env-guard'),
    ('function f(){ return {a:1} } f(); 1', 'C14/call/leak'),
    ('function f(n){ if (n) { throw new Error("x") } } try { f(1) } catch (e) {} 1', 'C14/call-error/leak'),
    ('class A { constructor(){ this.x = 1 } } new A(); 1', 'C14/construct/leak'),
    ('let o = {}; o.self = o; 1', 'C14/cycle/leak'),
    ('const p = new Promise(r => r(1)); p.then(x => x); 1', 'C14/promise/leak'),
    ('async function f(){ return 1 } f(); 1', 'C14/async/leak'),
    ('function* g(){ { let a = 1; yield a; } } const it = g(); it.next(); 1', KF_ABANDONED),
]


def balance_kernel(rep, cross, ty, meth, expect, label):
    ex = common.executor(unwind=4)
    ex.auto_havoc = True

    def key(s):
        # merge states that are at the same control location with the same event counters and loop counters
        ev = tuple((x[0] if x[0] != 'call' else None) for x in s.events if x[0] in ('push', 'pop', 'abs_push', 'abs_pop'))
        loc = tuple((f.fn.name, f.block, f.ret_block, id(f.on_return), tuple(sorted(f.visits.items()))) for f in s.frames)
        return (loc, ev, ex.control_digest(s))
    ex.subsume_key = key

    def ev(kind):
        def h(e, s, c):
            s.event(kind)
            return e.ret(s, c, UNIT)
        return h
    ex.overrides.append((re.compile(r'^Interpreter::push_env_guard$'), ev('push')))
    ex.overrides.append((re.compile(r'^Interpreter::pop_env_guard$'), ev('pop')))
    fn = common.fn_name(ex, ty, meth)
    f = ex.mir.get(fn)
    st = State()
    args = [ex.fresh(st, t, '$a%d' % i) for i, (a, t) in enumerate(f.args)]
    ex.call_function(st, fn, args)
    ends = ex.run(st, max_paths=40000)
    n_ok = 0
    skipped = {}
    bad = []
    for e in ends:
        if e.status in ('bound', 'panic'):
            skipped[e.detail[:70]] = skipped.get(e.detail[:70], 0) + 1
            continue
        if e.status != 'return':
            rep.inconc('%s::%s: %s %s' % (ty, meth, e.status, e.detail[:160]))
            continue
        n_ok += 1
        pushes = sum(1 for x in e.st.events if x[0] == 'push')
        pops = sum(1 for x in e.st.events if x[0] == 'pop')
        tidx = ex.src.structs['BytecodeVM'].index('trampoline_stack')

        def is_tramp(tok):
            while isinstance(tok, tuple):
                tok = tok[0]
            return str(tok).endswith('.%d:vec' % tidx)
        fpush = sum(1 for x in e.st.events if x[0] == 'abs_push' and is_tramp(x[1]))
        fpop = sum(1 for x in e.st.events if x[0] == 'abs_pop' and is_tramp(x[1]))
        ok = expect(pushes, pops, fpush, fpop, e)
        if not ok:
            bad.append((pushes, pops, fpush, fpop, e))
    what = '%s::%s: %s' % (ty, meth, label)
    rep.obligation(what, 'sat' if bad else 'unsat', 'all %d paths to a return (loops unrolled 4 times)' % n_ok, 0.0)
    if bad:
        p_, q_, fp, fq, e = bad[0]
        r, m = ex.check_sat_pc(e.st.pc, [])
        res = 'Ok' if (isinstance(e.value, EnumV) and e.value.discr == 0) else ('Err' if isinstance(e.value, EnumV) else 'return')
        key = 'C14/%s/unpaired-env-guard' % meth
        outs = driver.replay([{'cmd': 'gc_repeat', 'src': s, 'times': 6} for s, _ in PROGRAMS])
        rep.validated += len(outs)
        growing = [(s, o['live']) for (s, k), o in zip(PROGRAMS, outs) if o['live'][-1] > o['live'][1] and k != KF_ABANDONED]
        p = rep.write_replay('balance-%s' % meth, {'function': meth, 'pushes': p_, 'pops': q_, 'frame_pushes': fp, 'frame_pops': fq, 'returns': res,
                                                    'programs_with_growing_heap': growing})
        rep.violation(key, '%s has a path (returning %s) with %d push_env_guard and %d pop_env_guard (frames pushed %d, popped %d)%s' % (
            meth, res, p_, q_, fp, fq, '; heap grows on repetition: %r' % growing[:1] if growing else ''), p)
    if skipped:
        rep.extra.setdefault('paths_beyond_unwinding', {})['%s::%s' % (ty, meth)] = skipped
    if n_ok == 0:
        rep.inconc('%s::%s: no path reaches a return (vacuity)' % (ty, meth))
    rep.vacuity.append('%s::%s: %d return paths' % (ty, meth, n_ok))
    rep.sample({'kernel': '%s::%s env-guard balance' % (ty, meth), 'return_paths': n_ok})
    rep.absorb(ex)


def run(rep):
    rep.bounds = dict(paths='all paths to a return; loops over argument lists unrolled 4 times (paths needing more are listed, not judged)')
    rep.assumptions = [
        'assume-guarantee: every callee other than push_env_guard/pop_env_guard leaves the env-guard stack as it found it (checked for the callees that are kernels here, assumed for the rest)',
        'callees return arbitrary values and may rewrite anything behind &mut arguments',
        'states reaching the same control location with the same loop counters and the same push/pop history and the same decided Result/ControlFlow cases (what steers early returns) are merged; symbolic data differences after the merge are ignored (every callee result is arbitrary anyway)',
    ]
    rep.outside = ['cross-opcode pairing inside the VM beyond the four trampoline functions', 'root_guard misuse', 'the collector itself (C13)',
                   'push_scope/pop_scope pairing across yields (see known finding)']
    cross = []
    # concrete companion: repeated runs keep the live-object count constant
    outs = driver.replay([{'cmd': 'gc_repeat', 'src': s, 'times': 6} for s, _ in PROGRAMS])
    for (s, key), o in zip(PROGRAMS, outs):
        rep.validated += 1
        live = o['live']
        if live[-1] > live[1]:
            p = rep.write_replay('growth', {'cmd': 'gc_repeat', 'src': s, 'times': 6, 'live_objects_after_collect': live})
            rep.violation(key, 'live objects after collect() grow when %r is run repeatedly on one interpreter: %r' % (s, live), p)
    balance_kernel(rep, cross, 'Interpreter', 'resume_bytecode_generator', lambda pu, po, fp, fq, e: pu == po, 'push_env_guard and pop_env_guard are balanced on every path')
    balance_kernel(rep, cross, 'Interpreter', 'call_bytecode_function_with_new_target', lambda pu, po, fp, fq, e: pu == po, 'push_env_guard and pop_env_guard are balanced on every path')
    for m in ('push_trampoline_frame_and_call_bytecode', 'push_trampoline_frame_and_call_bytecode_construct'):
        balance_kernel(rep, cross, 'BytecodeVM', m, lambda pu, po, fp, fq, e: po == 0 and pu == fp and pu <= 1, 'an env guard is pushed iff a trampoline frame is pushed')
    balance_kernel(rep, cross, 'BytecodeVM', 'restore_from_trampoline_frame', lambda pu, po, fp, fq, e: pu == 0 and po == 1, 'exactly one env guard is popped per restored frame')
    balance_kernel(rep, cross, 'BytecodeVM', 'handle_error_with_trampoline_unwind', lambda pu, po, fp, fq, e: pu == 0 and po == fq, 'one env guard is popped per trampoline frame popped')
    rep.cross = driver.cross_check(cross, 300, 'ALL', rep.tier, rep.seed)
    rep.extra['cross_checked_obligations'] = len(cross)


def replay_file(path):
    d = json.load(open(path))
    if d.get('cmd') == 'gc_repeat':
        o = driver.replay([{'cmd': 'gc_repeat', 'src': d['src'], 'times': d.get('times', 6)}])[0]
        print(json.dumps(o))
        return 1 if o['live'][-1] > o['live'][1] else 0
    print(json.dumps(d))
    return 0
