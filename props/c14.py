"""C14 - garbage is reclaimed: the env-guard ledger of the interpreter.

Interpreter::env_guards is a stack of guards that root the scope chain.  Four primitives touch it: push_env_guard / pop_env_guard
(one entry per bytecode call frame) and push_scope / pop_scope (one entry per block scope).  Every entry that is pushed and never
popped keeps an environment - and everything bound in it - alive for the lifetime of the interpreter: the heap then grows with
every repetition of a program.

Decided on the real MIR, for EVERY function that calls one of the four primitives directly (the set is recomputed from the MIR
dump on every run, so a new user cannot hide), with all other callees abstracted by assume-guarantee (arbitrary result, arbitrary
contents behind &mut arguments except the two bookkeeping vectors, no env-guard effect of their own):

  the ledger invariant      G  ==  B + T + |vm.saved_env_stack|          (an inductive invariant: one step from an ARBITRARY state)
     G = number of entries of env_guards, B = entries that belong to the callers of this VM,
     T = sum over the frames of vm.trampoline_stack of (1 + |frame.saved_env_stack|)

  * BytecodeVM::restore_from_trampoline_frame, handle_error_with_trampoline_unwind (with find_exception_handler and
    unwind_frame_scopes executed for real), push_trampoline_frame_and_call_bytecode(_construct), find_exception_handler,
    unwind_frame_scopes, and the PushScope / PopScope arms of execute_op preserve the invariant on every path to a return,
    for symbolic vector lengths (solver query per path: pc => delta(G) == delta(T) + delta(|saved_env_stack|));
  * when handle_error_with_trampoline_unwind gives up (returns Err) and when step() reports Terminal(Complete), nothing of this
    VM is left: the trampoline stack and saved_env_stack are empty (so G == B: the guards of the finished run are all popped);
  * every other direct user (call_bytecode_function_with_new_target, eval_code_in_scope_with_this, any new one) is balanced:
    pushes == pops on every path to any return, Ok or Err;
  * execute_op contains no call of a primitive outside the two arms above.
Concrete companion: live-object counts after collect() over repeated runs of self-contained programs (witness / replay route).
"""
import json
import re
import time
import z3

from emir import driver
from emir.values import *
from emir.symex import State
from emir.models import two_way, deref
from . import common

KF_ABANDONED = 'C14/env_guards/generator-abandoned-inside-block-scope'
KF_ITER = 'C14/root_guard/collection-iterator-methods'
KF_SCOPE_EXIT = 'C14/env_guards/frame-left-with-open-block-scopes'

PROGRAMS = [
    ('function* g(){ yield 1; yield 2 } const it = g(); it.next(); it.next(); it.next(); 1', 'C14/resume_bytecode_generator/unpaired-env-guard'),
    ('function* g(){ yield 1 } for (const x of g()) {} 1', 'C14/resume_bytecode_generator/unpaired-env-guard'),
    ('function f(){ return {a:1} } f(); 1', 'C14/call/leak'),
    ('function f(n){ if (n) { throw new Error("x") } } try { f(1) } catch (e) {} 1', 'C14/call-error/leak'),
    ('class A { constructor(){ this.x = 1 } } new A(); 1', 'C14/construct/leak'),
    ('let o = {}; o.self = o; 1', 'C14/cycle/leak'),
    ('const p = new Promise(r => r(1)); p.then(x => x); 1', 'C14/promise/leak'),
    ('async function f(){ return 1 } f(); 1', 'C14/async/leak'),
    ('function* g(){ { let a = 1; yield a; } } const it = g(); it.next(); 1', KF_ABANDONED),
    # frames left from inside block scopes (return / uncaught error / error caught two frames up)
    ('function f(){ for (let i = 0; i < 3; i++) { if (i == 1) return i } return -1 } f(); 1', KF_SCOPE_EXIT),
    ('function f(){ try { throw 1 } catch (e) { return 2 } } f(); 1', KF_SCOPE_EXIT),
    ('function f(){ { let a = 1; return a } } [1].map(f); 1', KF_SCOPE_EXIT),
    ('try { [1,2,3].map(x => { if (x > 1) { throw x } return x }) } catch (e) {} 1', KF_SCOPE_EXIT),
    ('function inner(){ { let a = 1; throw new Error("x") } } function mid(){ return inner() } try { mid() } catch (e) {} 1', 'C14/call-error/leak'),
    ('function f(){ while (true) { let q = 1; break } return 1 } f(); 1', KF_SCOPE_EXIT),
    ('class A { m(){ { let a = 1; return a } } } new A().m(); 1', KF_SCOPE_EXIT),
    # explicit collection iterators: next / [Symbol.iterator] are built with create_native_function, i.e. on root_guard (known finding)
    ('(function(){ const it = [1,2,3].values(); it.next(); })(); 1', KF_ITER),
    ('const m = new Map([[1,2]]); for (const e of m.entries()) {} 1', KF_ITER),
    ('[...new Set([1,2])].length', KF_ITER),
    ('for (const x of [1,2,3]) {} 1', 'C14/for-of-array/leak'),
]

PRIMS = {'Interpreter::push_env_guard': 'push', 'Interpreter::pop_env_guard': 'pop', 'Interpreter::push_scope': 'spush', 'Interpreter::pop_scope': 'spop'}
PRIM_RX = re.compile(r'\bInterpreter::(push_env_guard|pop_env_guard|push_scope|pop_scope)\(')


def direct_users(ex):
    """{MIR function name: number of call sites of the four primitives}, from the current dump"""
    out = {}
    m = ex.mir
    for name, (s, e) in m.fn_index.items():
        n = sum(1 for l in m.lines[s:e] if PRIM_RX.search(l) and '=' in l)
        if n:
            out[name] = n
    return out


def short(name):
    return name.split('>::')[-1].split('::')[-1]


class Ledger:
    """one kernel run: executor with the primitives as events and the bookkeeping vectors tracked"""

    def __init__(self, rep, inline, unwind=3, summarise=()):
        ex = common.executor(unwind=unwind)
        self.ex = ex
        self.rep = rep
        ex.auto_havoc = True
        vm_f = ex.src.structs['BytecodeVM']
        vm_t = ex.src.struct_types['BytecodeVM']
        fr_f = ex.src.structs['TrampolineFrame']
        fr_t = ex.src.struct_types['TrampolineFrame']
        for need, fl in (('saved_env_stack', vm_f), ('trampoline_stack', vm_f), ('saved_env_stack', fr_f)):
            if need not in fl:
                raise driver.Inconclusive('field %s not found (renamed?)' % need)
        self.sidx, self.tidx, self.fsidx = vm_f.index('saved_env_stack'), vm_f.index('trampoline_stack'), fr_f.index('saved_env_stack')
        self.s_ty, self.t_ty, self.fs_ty = vm_t[self.sidx], vm_t[self.tidx], fr_t[self.fsidx]
        # callees that are not users of the primitives are assumed not to touch the two bookkeeping vectors
        ex.auto_frames = {'BytecodeVM': {self.sidx, self.tidx}}
        ex.execute_real = [re.compile('^BytecodeVM::(%s)$' % '|'.join(inline))] if inline else []
        for prim, kind in PRIMS.items():
            ex.overrides.append((re.compile('^%s$' % re.escape(prim)), self._ev(kind)))
        ex.overrides.append((re.compile(r'^Vec::pop$'), self._tramp_pop))
        if 'find_exception_handler' in summarise:
            ex.overrides.append((re.compile(r'^BytecodeVM::find_exception_handler$'), self._feh_summary))

    @staticmethod
    def _ev(kind):
        def h(e, s, c):
            s.event(kind)
            if kind == 'spush':
                return e.ret(s, c, e.fresh(s, c.dest_ty or 'Gc<JsObject>', 'oldenv'))
            return e.ret(s, c, UNIT)
        return h

    def is_tramp(self, tok):
        while isinstance(tok, tuple):
            tok = tok[0]
        return str(tok).endswith('.%d:vec' % self.tidx)

    def _tramp_pop(self, ex, st, call):
        """Vec::pop on the trampoline stack: the popped frame carries an explicit symbolic saved_env_stack length"""
        r = call.args[0]
        v = deref(ex, st, r)
        if not (isinstance(v, AbsVec) and self.is_tramp(v.tok)):
            return None

        def some(s):
            vv = deref(ex, s, r)
            k = sum(1 for x in s.events if x[0] == 'tpop')
            n = z3.BitVec('frame%d_scopes' % k, 64)
            s.assume(z3.ULE(n, 1 << 40))
            s.event('tpop', n)
            ex.store(s, r.addr, r.path, AbsVec(vv.n - 1, (vv.tok, 'pop', len(s.events)), vv.elem_ty))
            fr = Agg('struct', 'TrampolineFrame', {self.fsidx: AbsVec(n, 'frame%d.scopes' % k, None)}, lazy=True, nm='$frame%d' % k)
            return ex.ret(s, call, ex.some(fr))
        return two_way(ex, st, v.n != 0, some, lambda s: ex.ret(s, call, ex.none()))

    def _feh_summary(self, ex, st, call):
        """contract of find_exception_handler (its own kernel shows it): it leaves k of the open block scopes, 0 <= k <= |saved_env_stack|,
        with one pop_scope each; everything else it does is arbitrary (falls through to the generic abstraction)"""
        r = call.args[0]
        ses = ex.load(st, r.addr, r.path + (('f', self.sidx, self.s_ty),))
        n = ex.vec_len(ses).e
        j = sum(1 for x in st.events if x[0] == 'spopn')
        k = z3.BitVec('handler%d_scopes_left' % j, 64)
        st.assume(z3.ULE(k, n))
        st.event('spopn', k)
        ex.store(st, r.addr, r.path + (('f', self.sidx, self.s_ty),), AbsVec(n - k, ('scopes-after-handler', j), None))
        ex.havoc_used.add('BytecodeVM::find_exception_handler (contract: pops k <= |saved_env_stack| scopes, one pop_scope each; checked by its own kernel)')
        return None

    def fresh_vm(self, st):
        n0 = z3.BitVec('scopes0', 64)
        t0 = z3.BitVec('frames0', 64)
        st.assume(z3.ULE(n0, 1 << 40))
        st.assume(z3.ULE(t0, 1 << 40))
        vm = Agg('struct', 'BytecodeVM', {self.sidx: AbsVec(n0, 'scopes0', None), self.tidx: AbsVec(t0, '$vm.%d:vec' % self.tidx, 'TrampolineFrame')}, lazy=True, nm='$vm')
        return st.alloc(vm), n0, t0

    def account(self, e, a_vm, n0, extra_popped=()):
        """-> (G delta as int, z3 expr of delta(T) + delta(|saved_env_stack|), final scopes length, final trampoline length)"""
        ex = self.ex
        g = z3.BitVecVal(0, 64)
        dT = z3.BitVecVal(0, 64)
        for x in e.st.events:
            if x[0] in ('push', 'spush'):
                g = g + 1
            elif x[0] in ('pop', 'spop'):
                g = g - 1
            elif x[0] == 'spopn':
                g = g - x[1]
            elif x[0] == 'tpop':
                dT = dT - (1 + x[1])
            elif x[0] == 'abs_push' and self.is_tramp(x[1]):
                fr = x[2]
                sv = fr.fields.get(self.fsidx) if isinstance(fr, Agg) else None
                if sv is None:
                    raise driver.Inconclusive('trampoline frame pushed without a materialised saved_env_stack')
                dT = dT + 1 + ex.vec_len(sv).e
        for n in extra_popped:
            dT = dT - (1 + n)
        fin = ex.load(e.st, a_vm, (('f', self.sidx, self.s_ty),))
        tfin = ex.load(e.st, a_vm, (('f', self.tidx, self.t_ty),))
        nf = ex.vec_len(fin).e
        return g, dT + nf - n0, nf, ex.vec_len(tfin).e


def find_result(v, ty, depth=0, st=None):
    """first EnumV of type ty inside value v (through boxes / payloads / references)"""
    if depth > 8:
        return None
    if isinstance(v, Ref) and st is not None and v.addr in st.store:
        return find_result(st.store[v.addr], ty, depth + 1, st)
    if isinstance(v, EnumV):
        if v.ty.split('<')[0].split('::')[-1] == ty:
            return v
        for pl in v.payload.values():
            for x in pl.values():
                r = find_result(x, ty, depth + 1, st)
                if r is not None:
                    return r
    if isinstance(v, Agg):
        for x in v.fields.values():
            r = find_result(x, ty, depth + 1, st)
            if r is not None:
                return r
    return None


def report_bad(rep, key, meth, msg, detail):
    outs = driver.replay([{'cmd': 'gc_repeat', 'src': s, 'times': 6} for s, _ in PROGRAMS])
    rep.validated += len(outs)
    growing = [(s, o['live']) for (s, k), o in zip(PROGRAMS, outs) if o['live'][-1] > o['live'][1] and k not in (KF_ABANDONED, KF_ITER)]
    detail = dict(detail)
    detail['programs_with_growing_heap'] = growing
    p = rep.write_replay('ledger-%s' % meth, detail)
    rep.violation(key, msg + ('; heap grows on repetition: %r' % (growing[:1],) if growing else ''), p)


def invariant_kernel(rep, cross, meth, inline=(), arm=None, unwind=3, terminal=None, summarise=()):
    """the ledger invariant is preserved by BytecodeVM::<meth> (arm: run execute_op on that Op variant only)"""
    L = Ledger(rep, inline, unwind, summarise)
    ex = L.ex
    fn = common.fn_name(ex, 'BytecodeVM', meth)
    f = ex.mir.get(fn)
    st = State()
    a_vm, n0, t0 = L.fresh_vm(st)
    args = [Ref(a_vm)]
    extra = []
    for i, (a, t) in enumerate(f.args[1:], 1):
        ts = t.split('::')[-1]
        if ts == 'TrampolineFrame':
            n = z3.BitVec('frameA_scopes', 64)
            st.assume(z3.ULE(n, 1 << 40))
            extra.append(n)
            args.append(Agg('struct', 'TrampolineFrame', {L.fsidx: AbsVec(n, 'frameA.scopes', None)}, lazy=True, nm='$frameA'))
        elif ts == 'Op' and arm is not None:
            vi = ex.variant_index('Op', arm)
            args.append(EnumV('Op', vi, {vi: {}}))
        else:
            args.append(ex.fresh(st, t, '$a%d' % i))
    if meth.startswith('push_trampoline_frame'):
        # long argument-binding code with no loop over the bookkeeping vectors: merge states that agree on location, loop counters,
        # ledger events and decided Result/ControlFlow cases
        def key(s_):
            ev = tuple(x[0] for x in s_.events if x[0] in ('push', 'pop', 'spush', 'spop', 'tpop', 'abs_push', 'abs_pop'))
            loc = tuple((f_.fn.name, f_.block, f_.ret_block, id(f_.on_return), tuple(sorted(f_.visits.items()))) for f_ in s_.frames)
            return (loc, ev, ex.control_digest(s_))
        ex.subsume_key = key
    ex.call_function(st, fn, args)
    ends = ex.run(st, max_paths=40000)
    label = '%s%s' % (meth, '[Op::%s]' % arm if arm else '')
    n_ok = 0
    skipped = {}
    sites = 0
    for k, e in enumerate(ends):
        if e.status in ('bound', 'panic'):
            skipped[e.detail[:70]] = skipped.get(e.detail[:70], 0) + 1
            continue
        if e.status != 'return':
            rep.inconc('%s: %s %s' % (label, e.status, e.detail[:160]))
            continue
        n_ok += 1
        g, rhs, nf, tf = L.account(e, a_vm, n0, extra)
        sites = max(sites, sum(1 for x in e.st.events if x[0] in ('push', 'pop', 'spush', 'spop')))
        goal = g == rhs
        t = time.time()
        r, m = ex.check_sat_pc(e.st.pc, [z3.Not(goal)])
        what = '%s path %d: delta(env_guards) == delta(T) + delta(|saved_env_stack|)' % (label, k)
        rep.obligation(what, r, 'vector lengths symbolic (<= 2^40), loops unrolled %d times' % unwind, time.time() - t)
        if r == 'unsat':
            cross.append((what, list(e.st.pc) + [z3.Not(goal)], 'unsat'))
        elif not rep.seen('C14/%s/ledger' % meth):
            small = [z3.ULE(n0, 2)] + [z3.ULE(x[1], 2) for x in e.st.events if x[0] in ('tpop', 'spopn')] + [z3.ULE(n_, 2) for n_ in extra]
            r_s, m_s = ex.check_sat_pc(e.st.pc, [z3.Not(goal)] + small)      # prefer a readable counterexample
            if r_s == 'sat':
                m = m_s
            mv = lambda x: m.eval(x, model_completion=True).as_long()
            sg = lambda x: (mv(x) + (1 << 63)) % (1 << 64) - (1 << 63)
            tp = [mv(x[1]) for x in e.st.events if x[0] == 'tpop']
            evs = [x[0] for x in e.st.events if x[0] in ('push', 'pop', 'spush', 'spop', 'spopn', 'tpop')]
            res = find_result(e.value, 'Result')
            msg = ('%s has a path (%s) on which env_guards changes by %+d but the frames and scopes it accounts for change by %+d: '
                   'open scopes at entry %d, frames popped with %r open scopes, open scopes at exit %d; events %r' % (
                       label, 'returning Err' if (res is not None and res.discr == 1) else 'to a return', sg(g),
                       sg(rhs), mv(n0), tp, mv(nf), evs))
            report_bad(rep, 'C14/%s/ledger' % meth, meth, msg, {'function': meth, 'arm': arm, 'delta_env_guards': sg(g), 'scopes_at_entry': mv(n0),
                                                                  'frames_popped_open_scopes': tp, 'scopes_at_exit': mv(nf), 'events': evs})
        if terminal is not None and terminal(e):
            goal2 = z3.And(nf == 0, tf == 0)
            r2, m2 = ex.check_sat_pc(e.st.pc, [z3.Not(goal2)])
            what2 = '%s path %d: when the VM is finished nothing of it is left (trampoline stack and saved_env_stack empty)' % (label, k)
            rep.obligation(what2, r2, 'vector lengths symbolic', 0.0)
            if r2 == 'unsat':
                cross.append((what2, list(e.st.pc) + [z3.Not(goal2)], 'unsat'))
            elif not rep.seen('C14/%s/finished-with-open-scopes' % meth):
                report_bad(rep, 'C14/%s/finished-with-open-scopes' % meth, meth,
                           '%s ends the VM (error or completion) with %d block scopes still open and %d frames on the trampoline stack: their env guards are never popped' % (
                               label, m2.eval(nf, model_completion=True).as_long(), m2.eval(tf, model_completion=True).as_long()),
                           {'function': meth, 'open_scopes': m2.eval(nf, model_completion=True).as_long()})
    if skipped:
        rep.extra.setdefault('paths_beyond_unwinding', {})[label] = skipped
    if n_ok == 0:
        rep.inconc('%s: no path reaches a return (vacuity)' % label)
    rep.vacuity.append('%s: %d return paths' % (label, n_ok))
    rep.sample({'kernel': '%s ledger invariant' % label, 'return_paths': n_ok})
    rep.absorb(ex)
    return sites


def balance_kernel(rep, cross, fn, label):
    """pushes == pops on every path to a return (users of the primitives outside the VM's frame bookkeeping)"""
    ex = common.executor(unwind=4)
    ex.auto_havoc = True

    def key(s):
        ev = tuple(x[0] for x in s.events if x[0] in ('push', 'pop', 'spush', 'spop', 'abs_push', 'abs_pop'))
        loc = tuple((f.fn.name, f.block, f.ret_block, id(f.on_return), tuple(sorted(f.visits.items()))) for f in s.frames)
        return (loc, ev, ex.control_digest(s))
    ex.subsume_key = key
    for prim, kind in PRIMS.items():
        ex.overrides.append((re.compile('^%s$' % re.escape(prim)), Ledger._ev(kind)))
    f = ex.mir.get(fn)
    st = State()
    args = [ex.fresh(st, t, '$a%d' % i) for i, (a, t) in enumerate(f.args)]
    ex.call_function(st, fn, args)
    ends = ex.run(st, max_paths=40000)
    n_ok = 0
    skipped = {}
    bad = []
    for e in ends:
        if e.status in ('bound', 'panic'):
            skipped[e.detail[:70]] = skipped.get(e.detail[:70], 0) + 1
            continue
        if e.status != 'return':
            rep.inconc('%s: %s %s' % (label, e.status, e.detail[:160]))
            continue
        n_ok += 1
        pu = sum(1 for x in e.st.events if x[0] in ('push', 'spush'))
        po = sum(1 for x in e.st.events if x[0] in ('pop', 'spop'))
        if pu != po:
            bad.append((pu, po, e))
    what = '%s: env-guard pushes and pops are balanced on every path' % label
    rep.obligation(what, 'sat' if bad else 'unsat', 'all %d paths to a return (loops unrolled 4 times)' % n_ok, 0.0)
    if bad:
        pu, po, e = bad[0]
        res = 'Ok' if (isinstance(e.value, EnumV) and e.value.discr == 0) else ('Err' if isinstance(e.value, EnumV) else 'return')
        report_bad(rep, 'C14/%s/unpaired-env-guard' % label, label,
                   '%s has a path (returning %s) with %d env-guard pushes and %d pops' % (label, res, pu, po),
                   {'function': label, 'pushes': pu, 'pops': po, 'returns': res})
    if skipped:
        rep.extra.setdefault('paths_beyond_unwinding', {})[label] = skipped
    if n_ok == 0:
        rep.inconc('%s: no path reaches a return (vacuity)' % label)
    rep.vacuity.append('%s: %d return paths' % (label, n_ok))
    rep.sample({'kernel': '%s env-guard balance' % label, 'return_paths': n_ok})
    rep.absorb(ex)


VM_KERNELS = {
    # method -> functions executed for real inside it
    'restore_from_trampoline_frame': ('unwind_frame_scopes',),
    'handle_error_with_trampoline_unwind': ('unwind_frame_scopes',),
    'push_trampoline_frame_and_call_bytecode': (),
    'push_trampoline_frame_and_call_bytecode_construct': (),
    'find_exception_handler': (),
    'unwind_frame_scopes': (),
}


def run(rep):
    rep.bounds = dict(paths='all paths to a return; loops unrolled 3 times in the VM kernels (4 in the balance kernels); paths needing more are listed, not judged',
                      vectors='lengths symbolic up to 2^40')
    rep.assumptions = [
        'assume-guarantee: a callee that does not call one of the four primitives directly leaves env_guards, vm.saved_env_stack and vm.trampoline_stack as it found them '
        '(the direct users are all kernels here; deeper effects go through them)',
        'callees return arbitrary values and may rewrite anything else behind &mut arguments',
        'pop on an empty env_guards is not modelled (the invariant gives G >= T + |saved_env_stack|)',
        'balance kernels: states at the same control location with the same loop counters, the same push/pop history and the same decided Result/ControlFlow cases are merged',
    ]
    rep.outside = ['generators: the saved generator state does not carry saved_env_stack (see known finding)', 'root_guard misuse', 'the collector itself (C13)',
                   'break / continue out of a block scope inside one activation (scopes stay open until the frame is left; see DESIGN.md)']
    cross = []
    # concrete companion: repeated runs keep the live-object count constant
    outs = driver.replay([{'cmd': 'gc_repeat', 'src': s, 'times': 6} for s, _ in PROGRAMS])
    for (s, key), o in zip(PROGRAMS, outs):
        rep.validated += 1
        live = o['live']
        if live[-1] > live[1]:
            p = rep.write_replay('growth', {'cmd': 'gc_repeat', 'src': s, 'times': 6, 'live_objects_after_collect': live})
            rep.violation(key, 'live objects after collect() grow when %r is run repeatedly on one interpreter: %r' % (s, live), p)
    # every direct user of the primitives, from the current MIR
    ex0 = common.executor(unwind=2)
    users = direct_users(ex0)
    names = {}
    for (ty, trait, meth), fns in ex0._fnkeys.items():
        for n in fns:
            names[n] = (ty, meth)
    rep.extra['direct_users_of_env_guard_primitives'] = {short(n): c for n, c in users.items()}
    seen_kernels = set()
    exec_sites = 0
    for n, c in sorted(users.items()):
        ty, meth = names.get(n, (None, short(n)))
        if ty == 'Interpreter' and meth in ('push_env_guard', 'pop_env_guard', 'push_scope', 'pop_scope'):
            continue
        if ty == 'BytecodeVM' and meth in VM_KERNELS:
            invariant_kernel(rep, cross, meth, VM_KERNELS[meth], summarise=('find_exception_handler',) if meth == 'handle_error_with_trampoline_unwind' else (),
                             terminal=(lambda e: (lambda r: r is not None and r.discr == 1)(find_result(e.value, 'Result'))) if meth == 'handle_error_with_trampoline_unwind' else None)
            seen_kernels.add(meth)
        elif ty == 'BytecodeVM' and meth == 'execute_op':
            s1 = invariant_kernel(rep, cross, 'execute_op', (), arm='PushScope')
            s2 = invariant_kernel(rep, cross, 'execute_op', (), arm='PopScope')
            exec_sites = s1 + s2
            if exec_sites != c:
                rep.inconc('execute_op calls the env-guard primitives at %d sites but the PushScope/PopScope arms account for %d: another arm touches env_guards and has no contract here' % (c, exec_sites))
        else:
            balance_kernel(rep, cross, n, ('%s::%s' % (ty, meth)) if ty else meth)
    for meth in ('restore_from_trampoline_frame', 'handle_error_with_trampoline_unwind', 'push_trampoline_frame_and_call_bytecode'):
        if meth not in seen_kernels:
            rep.inconc('%s no longer calls an env-guard primitive directly: the frame bookkeeping moved, contracts out of date' % meth)
    # a finished VM leaves nothing behind: step() reporting Terminal(Complete)
    invariant_step_complete(rep, cross)
    rep.cross = driver.cross_check(cross, 300, 'ALL', rep.tier, rep.seed)
    rep.extra['cross_checked_obligations'] = len(cross)


def invariant_step_complete(rep, cross):
    L = Ledger(rep, ('unwind_frame_scopes', 'restore_from_trampoline_frame'), unwind=3)
    ex = L.ex
    fn = common.fn_name(ex, 'BytecodeVM', 'step')
    f = ex.mir.get(fn)
    st = State()
    a_vm, n0, t0 = L.fresh_vm(st)
    args = [Ref(a_vm)] + [ex.fresh(st, t, '$a%d' % i) for i, (a, t) in enumerate(f.args[1:], 1)]
    ex.call_function(st, fn, args)
    ends = ex.run(st, max_paths=20000)
    vs = ex.enum_variants('VmResult')
    n_c = 0
    for k, e in enumerate(ends):
        if e.status in ('bound', 'panic'):
            continue
        if e.status != 'return':
            rep.inconc('step: %s %s' % (e.status, e.detail[:160]))
            continue
        r = find_result(e.value, 'VmResult', 0, e.st)
        if r is None or not isinstance(r.discr, int) or vs[r.discr] != 'Complete':
            continue
        n_c += 1
        fin = ex.load(e.st, a_vm, (('f', L.sidx, L.s_ty),))
        tfin = ex.load(e.st, a_vm, (('f', L.tidx, L.t_ty),))
        goal = z3.And(ex.vec_len(fin).e == 0, ex.vec_len(tfin).e == 0)
        rr, m = ex.check_sat_pc(e.st.pc, [z3.Not(goal)])
        what = 'step path %d: Terminal(Complete) leaves no open block scope and no trampoline frame behind' % k
        rep.obligation(what, rr, 'vector lengths symbolic; execute_op abstracted (arbitrary result, bookkeeping vectors arbitrary after it)', 0.0)
        if rr == 'unsat':
            cross.append((what, list(e.st.pc) + [z3.Not(goal)], 'unsat'))
        elif not rep.seen('C14/step/finished-with-open-scopes'):
            report_bad(rep, 'C14/step/finished-with-open-scopes', 'step',
                       'step() reports Terminal(Complete) with %d block scopes still open: their env guards are never popped' % m.eval(ex.vec_len(fin).e, model_completion=True).as_long(),
                       {'function': 'step', 'open_scopes': m.eval(ex.vec_len(fin).e, model_completion=True).as_long()})
    if n_c == 0:
        rep.inconc('step: no path reports Terminal(Complete) (vacuity)')
    rep.vacuity.append('step: %d paths reporting Terminal(Complete)' % n_c)
    rep.sample({'kernel': 'step Terminal(Complete) leaves nothing behind', 'paths': n_c})
    rep.absorb(ex)


def replay_file(path):
    d = json.load(open(path))
    if d.get('cmd') == 'gc_repeat':
        o = driver.replay([{'cmd': 'gc_repeat', 'src': d['src'], 'times': d.get('times', 6)}])[0]
        print(json.dumps(o))
        return 1 if o['live'][-1] > o['live'][1] else 0
    print(json.dumps(d))
    return 0
