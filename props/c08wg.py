"""C08 (continued): WaitGraph::{add_context, promise_resolved, take_ready} as a data structure.

Maps are association lists with symbolic keys; every sequence of up to N operations over up to 3 contexts and 2 promise ids is
executed on the real MIR; the sequence of take_ready() results must equal the reference wait-graph (a context whose promise was
resolved is returned exactly once, in the order the promises were resolved and, per promise, in arrival order; nothing else is
ever returned; has_waiting_contexts() is true iff some context has not been taken)."""
import itertools
import re
import time
import z3

from emir import driver
from emir.values import *
from emir.symex import State
from emir.refrun import explore
from . import common

BOUNDS = {'quick': 4, 'thorough': 5}
# 5-operation shapes that matter most (two waiters on one promise; wake-ups in order) are always included
EXTRA = ['AARTT', 'AARRT', 'ARATT', 'AAART', 'ARTAT', 'AARTR']


def reference(br, ops, pids, qids):
    """ops: string over A(dd) R(esolve) T(ake) H(as waiting); pids[i]: promise id of the i-th added context; qids[j]: id of j-th resolve.
    -> list of results per T/H op: ('T', ctx index or None) / ('H', bool)"""
    waiting = {}          # ctx index -> promise expr
    waiters = []          # list of (promise expr, [ctx indices]) in creation order
    ready = []
    out = []
    ai = ri = 0
    for op in ops:
        if op == 'A':
            p = pids[ai]
            waiting[ai] = p
            for ent in waiters:
                if br(ent[0] == p):
                    ent[1].append(ai)
                    break
            else:
                waiters.append((p, [ai]))
            ai += 1
        elif op == 'R':
            q = qids[ri]
            ri += 1
            for k, ent in enumerate(waiters):
                if br(ent[0] == q):
                    ready.extend(ent[1])
                    del waiters[k]
                    break
        elif op == 'T':
            res = None
            while ready:
                c = ready.pop(0)
                if c in waiting:
                    del waiting[c]
                    res = c
                    break
            out.append(('T', res))
        else:
            out.append(('H', len(waiting) > 0))
    return out


def check(rep, cross):
    N = BOUNDS[rep.tier]
    ex = common.executor(unwind=8)
    f_add = common.fn_name(ex, 'WaitGraph', 'add_context')
    f_res = common.fn_name(ex, 'WaitGraph', 'promise_resolved')
    f_take = common.fn_name(ex, 'WaitGraph', 'take_ready')
    f_has = common.fn_name(ex, 'WaitGraph', 'has_waiting_contexts')
    W = {n: i for i, n in enumerate(ex.src.structs['WaitGraph'])}
    SC = {n: i for i, n in enumerate(ex.src.structs['SuspendedContext'])}
    seqs = set()
    for n in range(1, N + 1):
        for s in itertools.product('ARTH', repeat=n):
            s = ''.join(s)
            if s.count('A') <= 3 and s[-1] in 'TH' and s.count('H') <= 1:
                seqs.add(s)
    for s in EXTRA:
        seqs.add(s)
    nobl = 0
    npaths = 0
    for ops in sorted(seqs):
        st = State()
        wg = Agg('struct', 'WaitGraph', {W['contexts']: VecV((), '__map__'), W['promise_waiters']: VecV((), '__map__'), W['ready_queue']: VecV(())})
        a = st.alloc(wg)
        pids = [z3.BitVec('p%d' % i, 64) for i in range(ops.count('A'))]
        qids = [z3.BitVec('q%d' % i, 64) for i in range(ops.count('R'))]
        for v in pids + qids:
            st.assume(z3.ULT(v, 2))
        states = [(st, [])]
        ai = ri = 0
        for op in ops:
            nxt = []
            for s0, res in states:
                s0.frames = []
                if op == 'A':
                    ctx = Agg('struct', 'SuspendedContext', {SC['id']: Agg('struct', 'ContextId', {0: Int(z3.BitVecVal(ai, 64), False)}),
                                                             SC['waiting_on_id']: Agg('struct', 'PromiseId', {0: Int(pids[ai], False)})}, lazy=True)
                    ex.call_function(s0, f_add, [Ref(a), ctx])
                elif op == 'R':
                    ex.call_function(s0, f_res, [Ref(a), Agg('struct', 'PromiseId', {0: Int(qids[ri], False)})])
                elif op == 'T':
                    ex.call_function(s0, f_take, [Ref(a)])
                else:
                    ex.call_function(s0, f_has, [Ref(a)])
                for e in ex.run(s0):
                    if e.status != 'return':
                        rep.inconc('WaitGraph ops %s: %s %s' % (ops, e.status, e.detail[:160]))
                        continue
                    r2 = list(res)
                    if op == 'T':
                        v = e.value
                        if v.discr == 0:
                            r2.append(('T', None))
                        else:
                            r2.append(('T', v.payload[1][0].fields[SC['id']].fields[0].e))
                    elif op == 'H':
                        r2.append(('H', e.value.e))
                    nxt.append((e.st, r2))
            if op == 'A':
                ai += 1
            elif op == 'R':
                ri += 1
            states = nxt
        for s_end, got in states:
            npaths += 1
            leaves = explore(ex, s_end.pc, lambda br: reference(br, ops, pids, qids))
            for conds, want in leaves:
                gs = []
                for (k1, g), (k2, w) in zip(got, want):
                    if k1 == 'T':
                        if w is None:
                            gs.append(z3.BoolVal(g is None))
                        else:
                            gs.append(z3.BoolVal(False) if g is None else g == z3.BitVecVal(w, 64))
                    else:
                        gs.append(g == z3.BoolVal(w))
                goal = z3.And(gs + [z3.BoolVal(len(got) == len(want))])
                t = time.time()
                r, m = ex.check_sat_pc(s_end.pc, conds + [z3.Not(goal)])
                nobl += 1
                what = 'WaitGraph ops %s: take_ready / has_waiting_contexts results equal the reference wait graph' % ops
                rep.obligation(what, r, '<= %d operations, <= 3 contexts, 2 promise ids' % N, time.time() - t)
                if r == 'unsat':
                    cross.append((what, list(s_end.pc) + conds + [z3.Not(goal)], 'unsat'))
                elif not rep.seen('C08/WaitGraph/wake-up-order'):
                    ev = lambda e: m.eval(e, model_completion=True).as_long()
                    hist = dict(ops=ops, promise_of_context=[ev(p) for p in pids], resolved=[ev(q) for q in qids])
                    gotc = [(k, (None if g is None else ev(g)) if k == 'T' else z3.is_true(m.eval(g, model_completion=True))) for k, g in got]
                    o = driver.replay([{'cmd': 'two_waiters'}])[0]
                    rep.validated += 1
                    p = rep.write_replay('waitgraph', {'cmd': 'two_waiters', 'history': hist, 'real_code_results': gotc, 'reference': want, 'observed': o})
                    rep.violation('C08/WaitGraph/wake-up-order',
                                  'WaitGraph history %r: the real code returns %r, the reference wait graph %r; program with two waiters on one promise: %r' % (hist, gotc, want, o), p)
    rep.sample({'kernel': 'WaitGraph add_context/promise_resolved/take_ready', 'operation_sequences': len(seqs), 'paths': npaths, 'obligations': nobl})
    rep.vacuity.append('WaitGraph: %d sequences, %d end states' % (len(seqs), npaths))
    rep.absorb(ex)
