"""C02 - garbage collection is invisible: register-write guarding only (a necessary condition, nothing more).

Decided (event traces on the real MIR): in BytecodeVM::set_reg, BytecodeVM::set_resume_value and BytecodeVM::from_saved_state,
on every feasible path an object value that ends up in a register slot has been passed to Guard::guard on the guard the VM owns
(register_guard) BEFORE the store / before the VM is handed out, and a displaced object is unguarded only after the new value
was guarded.  The guard discipline of ~400 natives, Traceable for JsObject and the collector itself are outside the claim.
"""
import json
import re
import time
import z3

from emir import driver
from emir.values import *
from emir.symex import State
from . import common, vmarms


def jsv(st, name):
    d = z3.BitVec(name + '_k', 64)
    st.assume(z3.Or(d == 0, d == 3, d == 6))
    return EnumV('JsValue', d, {3: {0: Float(z3.FP(name + '_x', F64))}, 6: {0: Opaque('Gc<JsObject>', z3.Int('$' + name + '_obj'))}})


def setup(ex):
    def guard_ev(e, s, c):
        g = e.load(s, c.args[0].addr, c.args[0].path) if isinstance(c.args[0], Ref) else c.args[0]
        s.event('guard', g, c.args[1])
        e.havoc_used.add('Guard::guard (event)')
        return e.ret(s, c, UNIT)

    def unguard_ev(e, s, c):
        g = e.load(s, c.args[0].addr, c.args[0].path) if isinstance(c.args[0], Ref) else c.args[0]
        o = e.load(s, c.args[1].addr, c.args[1].path) if isinstance(c.args[1], Ref) else c.args[1]
        s.event('unguard', g, o)
        e.havoc_used.add('Guard::unguard (event)')
        return e.ret(s, c, Bool(z3.Bool(fresh_name('was_guarded'))))
    ex.overrides.append((re.compile(r'^Guard::guard$'), guard_ev))
    ex.overrides.append((re.compile(r'^Guard::unguard$'), unguard_ev))
    ex.havoc(r'^Heap::create_guard$', ret=lambda e, s, c: Opaque('Guard<JsObject>'))


def obj_id(v):
    return v.payload[6][0].id


def is_obj(v):
    return v.discr_expr() == 6


def decide(rep, ex, cross, e, what, goal, bound, key, witness):
    t = time.time()
    r, m = ex.check_sat_pc(e.st.pc, [z3.Not(goal)])
    rep.obligation(what, r, bound, time.time() - t)
    if r == 'unsat':
        cross.append((what, list(e.st.pc) + [z3.Not(goal)], 'unsat'))
    elif not rep.seen(key):
        outs = driver.replay([{'cmd': 'gc_stress', 'src': w} for w in witness])
        rep.validated += len(outs)
        bad = [(w, o) for w, o in zip(witness, outs) if o.get('differ')]
        p = rep.write_replay(key.split('/')[-1], {'violated': what, 'programs': witness, 'observed': outs})
        rep.violation(key, '%s%s' % (what, '; under collect-on-every-step the program %r changes its result: %r' % bad[0] if bad else
                                     ' (symbolic counterexample; the GC-stress programs did not expose it)'), p)


WITNESS = [
    'function mk(i){ return {v:i} } let a = []; for (let i = 0; i < 40; i++) { a.push(mk(i)); } let s = 0; for (const o of a) s += o.v; s',
    'let o = {x:{y:{z:7}}}; function f(p){ const t = {k:p}; return t.k.x.y.z } let r = 0; for (let i = 0; i < 30; i++) r += f(o); r',
    'async function f(){ const o = {v: 5}; const w = await Promise.resolve({q: 2}); return o.v + w.q } await f()',
    # an outer frame holds an object only in a register across a call that suspends
    'function mk(){ return {tag: "fresh"} } function pair(a, b){ return a.tag + ":" + b } async function g(){ const v = await Promise.resolve("v"); return v + "!" } async function main(){ return pair(mk(), await g()) } await main()',
]


def run(rep):
    rep.bounds = dict(values='symbolic numbers / object handles / undefined', registers='one slot plus an out-of-range index', loops='register loops over one element')
    rep.assumptions = ['Guard::guard / Guard::unguard are recorded as events (the guard implementation is C13\'s neighbourhood, not decided)',
                       'Heap::create_guard returns a fresh guard token']
    rep.outside = ['the guard discipline of ~400 natives', 'Traceable for JsObject', 'the collector (C13)', 'host-held values', 'the resume branches of Interpreter::step']
    cross = []
    # replay route: results must not depend on when the collector runs
    outs = driver.replay([{'cmd': 'gc_stress', 'src': w} for w in WITNESS])
    for w, o in zip(WITNESS, outs):
        rep.validated += 1
        if o.get('differ'):
            p = rep.write_replay('gc-stress', {'cmd': 'gc_stress', 'src': w, 'observed': o})
            rep.violation('C02/gc-stress/concrete', 'program result depends on collector timing: %r -> %r' % (w, o), p)
    ex = common.executor(unwind=5)
    setup(ex)
    V = {n: i for i, n in enumerate(ex.src.structs['BytecodeVM'])}
    gtok = Opaque('Guard<JsObject>', z3.Int('$register_guard'))
    for meth in ('set_reg', 'set_resume_value'):
        fn = common.fn_name(ex, 'BytecodeVM', meth)
        st = State()
        old = jsv(st, 'old')
        new = jsv(st, 'new')
        r = z3.BitVec('reg', 8)
        st.assume(z3.ULE(r, 1))          # slot 0 exists, slot 1 is out of range
        vm = Agg('struct', 'BytecodeVM', {V['registers']: VecV([old], 'JsValue'), V['register_guard']: gtok}, lazy=True)
        a = st.alloc(vm)
        ex.call_function(st, fn, [Ref(a), Int(r, False), new])
        ends = ex.run(st)
        if not common.require_clean(rep, ends, meth):
            continue
        for k, e in enumerate(ends):
            regs = e.st.store[a].fields[V['registers']].items
            evs = e.st.events
            stored = z3.And(is_obj(regs[0]), is_obj(new), obj_id(regs[0]) == obj_id(new), r == 0)
            guards = [ev for ev in evs if ev[0] == 'guard']
            guarded_new = z3.Or([z3.And(ev[1].id == gtok.id, ev[2].id == obj_id(new)) for ev in guards if isinstance(ev[2], Opaque)] + [z3.BoolVal(False)])
            decide(rep, ex, cross, e, '%s path %d: an object stored in a register was guarded on register_guard' % (meth, k),
                   z3.Implies(z3.And(r == 0, is_obj(new)), guarded_new), 'any old/new value', 'C02/%s/store-without-guard' % meth, WITNESS)
            decide(rep, ex, cross, e, '%s path %d: the register holds the new value afterwards (in-range slot)' % (meth, k),
                   z3.Implies(r == 0, z3.And(regs[0].discr_expr() == new.discr_expr(), z3.Implies(is_obj(new), obj_id(regs[0]) == obj_id(new)))),
                   'any old/new value', 'C02/%s/wrong-value-stored' % meth, WITNESS)
            # order: guard(new) precedes unguard(old)
            idx_g = [i for i, ev in enumerate(evs) if ev[0] == 'guard']
            idx_u = [i for i, ev in enumerate(evs) if ev[0] == 'unguard']
            order_ok = all(any(g < u for g in idx_g) for u in idx_u) if idx_u and idx_g else True
            both = z3.And(is_obj(new), is_obj(old), r == 0)
            decide(rep, ex, cross, e, '%s path %d: the displaced object is unguarded only after the new one was guarded' % (meth, k),
                   z3.Implies(both, z3.BoolVal(order_ok and bool(idx_g))), 'any old/new value', 'C02/%s/unguard-before-guard' % meth, WITNESS)
        rep.sample({'kernel': 'BytecodeVM::' + meth, 'paths': len(ends)})
    # from_saved_state: everything in the restored registers / this / call frames is on the new guard
    fn = common.fn_name(ex, 'BytecodeVM', 'from_saved_state')
    S = {n: i for i, n in enumerate(ex.src.structs['SavedVmState'])}
    CF = {n: i for i, n in enumerate(ex.src.structs['CallFrame'])}
    st = State()
    r0 = jsv(st, 'sr0')
    thisv = jsv(st, 'sthis')
    envd = z3.BitVec('cfenv_some', 64)
    st.assume(z3.ULT(envd, 2))
    envo = Opaque('Gc<JsObject>', z3.Int('$cfenv'))
    cf = Agg('struct', 'CallFrame', {CF['saved_env']: EnumV('Option<Gc<JsObject>>', envd, {1: {0: envo}})}, lazy=True, nm='$cf')
    # one suspended outer frame: its registers must end up on the guard that frame itself will own after the callee returns
    SF = {n: i for i, n in enumerate(ex.src.structs['SavedTrampolineFrame'])}
    TF = {n: i for i, n in enumerate(ex.src.structs['TrampolineFrame'])}
    tr0 = jsv(st, 'tr0')
    tthis = jsv(st, 'tthis')
    sframe = Agg('struct', 'SavedTrampolineFrame', {SF['registers']: VecV([tr0], 'JsValue'), SF['this_value']: tthis, SF['saved_env_stack']: VecV((), 'Gc<JsObject>'),
                                                    SF['saved_interp_env']: Opaque('Gc<JsObject>', z3.Int('$tenv')),
                                                    SF['current_constructor']: EnumV('Option<Gc<JsObject>>', 0, {}), SF['vm_call_stack']: VecV(()),
                                                    SF['try_stack']: VecV(()), SF['arguments']: VecV(())}, lazy=True, nm='$sframe')
    state = Agg('struct', 'SavedVmState', {S['registers']: VecV([r0], 'JsValue'), S['frames']: VecV([cf], 'CallFrame'), S['trampoline_stack']: VecV([sframe], 'SavedTrampolineFrame'),
                                           S['try_stack']: VecV(()), S['arguments']: VecV(())}, lazy=True, nm='$saved')
    g2 = Opaque('Guard<JsObject>', z3.Int('$new_guard'))
    heap = st.alloc(Opaque('Heap<JsObject>'))
    ex.call_function(st, fn, [state, thisv, g2, Ref(heap)])
    ends = ex.run(st)
    if common.require_clean(rep, ends, 'from_saved_state'):
        for k, e in enumerate(ends):
            guards = [ev for ev in e.st.events if ev[0] == 'guard' and isinstance(ev[1], Opaque) and isinstance(ev[2], Opaque)]

            def guarded(oid):
                return z3.Or([z3.And(ev[1].id == g2.id, ev[2].id == oid) for ev in guards] + [z3.BoolVal(False)])
            decide(rep, ex, cross, e, 'from_saved_state path %d: every object in the restored registers is on the VM\'s guard' % k,
                   z3.Implies(is_obj(r0), guarded(obj_id(r0))), 'one register', 'C02/from_saved_state/register-not-guarded', WITNESS)
            decide(rep, ex, cross, e, 'from_saved_state path %d: this is on the VM\'s guard' % k,
                   z3.Implies(is_obj(thisv), guarded(obj_id(thisv))), 'one register', 'C02/from_saved_state/this-not-guarded', WITNESS)
            decide(rep, ex, cross, e, 'from_saved_state path %d: saved environments of call frames are on the VM\'s guard' % k,
                   z3.Implies(envd == 1, guarded(envo.id)), 'one call frame', 'C02/from_saved_state/frame-env-not-guarded', WITNESS)
            vmv = e.value
            ts = vmv.fields.get(V['trampoline_stack'])
            fg = None
            if isinstance(ts, VecV) and len(ts.items) == 1 and isinstance(ts.items[0], Agg):
                fg = ts.items[0].fields.get(TF['register_guard'])
            if not isinstance(fg, Opaque):
                rep.inconc('from_saved_state path %d: the restored trampoline frame has no guard token (%r)' % (k, ts))
            else:
                on_frame = z3.Or([z3.And(ev[1].id == fg.id, ev[2].id == obj_id(tr0)) for ev in guards] + [z3.BoolVal(False)])
                decide(rep, ex, cross, e, 'from_saved_state path %d: every object in an outer frame\'s registers is on the guard that frame owns (and that guard is not the innermost VM\'s)' % k,
                       z3.And(z3.BoolVal(not fg.id.eq(g2.id)), z3.Implies(z3.And(fg.id != g2.id, is_obj(tr0)), on_frame)), 'one outer frame, one register; a guard created by Heap::create_guard is distinct from the guard passed in', 'C02/from_saved_state/outer-frame-register-not-on-its-guard', WITNESS)
                decide(rep, ex, cross, e, 'from_saved_state path %d: an outer frame\'s this is guarded while the callee runs' % k,
                       z3.Implies(z3.And(fg.id != g2.id, is_obj(tthis)), z3.Or(guarded(obj_id(tthis)), z3.Or([z3.And(ev[1].id == fg.id, ev[2].id == obj_id(tthis)) for ev in guards] + [z3.BoolVal(False)]))),
                       'one outer frame', 'C02/from_saved_state/outer-frame-this-not-guarded', WITNESS)
            decide(rep, ex, cross, e, 'from_saved_state path %d: the VM owns the guard it was given' % k,
                   z3.BoolVal(isinstance(vmv.fields.get(V['register_guard']), Opaque)) if not isinstance(vmv.fields.get(V['register_guard']), Opaque)
                   else vmv.fields[V['register_guard']].id == g2.id, '-', 'C02/from_saved_state/guard-not-owned', WITNESS)
        rep.sample({'kernel': 'BytecodeVM::from_saved_state', 'paths': len(ends)})
    rep.vacuity.append('set_reg / set_resume_value / from_saved_state explored')
    rep.absorb(ex)
    rep.cross = driver.cross_check(cross, 300, 'ALL', rep.tier, rep.seed)
    rep.extra['cross_checked_obligations'] = len(cross)


def replay_file(path):
    d = json.load(open(path))
    outs = driver.replay([{'cmd': 'gc_stress', 'src': w} for w in d.get('programs', [d.get('src')]) if w])
    print(json.dumps(outs)[:800])
    return 1 if any(o.get('differ') for o in outs) else 0
