"""C13 - the collector implements guard reachability exactly and memory-safely: bitmap kernels only (E-Kani).

The unsafe bit-twiddling kernels of src/gc.rs are decided by Kani/CBMC on the compiled code, for ALL values (no bound):
  ChunkBitmask::{set,get,clear} (every index < 256, every 256-bit mask, unchecked accesses in bounds),
  UnmarkedIter::next - first element of a fresh iterator, and an inductive step from ANY iterator state satisfying the
  representation invariant: returns the minimum of the remaining unmarked set below len and removes exactly it,
  and the linear index <-> (chunk, slot) arithmetic.
History-level behaviour of Space (mark/sweep/pool/ref-counts over operation sequences) is NOT decided: Kani does not finish a
single concrete Heap::alloc() here and E-MIR has no faithful model of Rc/Weak/RefCell/NonNull aliasing.
"""
import json
import os
import re
import shutil
import subprocess
import time

from emir import driver

HARNESSES = ['bitmask_set_get', 'bitmask_clear', 'unmarked_iter_first', 'unmarked_iter_step', 'chunk_index_round_trip']


def run(rep):
    rep.bounds = dict(values='all (every 256-bit mask, every index < 256, every len <= 256)', unwind='6 (4 words + exit), unwinding assertions on')
    rep.assumptions = ['harnesses are compiled as a child module of gc.rs in a scratch copy of /repo (cfg(kani)); /repo itself is not modified',
                       'UnmarkedIter invariant: current_word < 4, base_index == current_word*64, pending bits of the current word are unmarked positions (re-established by next(): checked)']
    rep.outside = ['Space::mark / sweep / alloc / pool reuse over operation histories', 'Gc clone/drop ref-counting and stale handles', 'dropping the heap while handles remain']
    scratch = '/tmp/tsrun-kani-scratch-%d' % os.getpid()
    t0 = time.time()
    try:
        if os.path.exists(scratch):
            shutil.rmtree(scratch)
        subprocess.run(['rsync', '-a', '--exclude', 'target', '--exclude', '.git', '--exclude', 'site', '--exclude', 'test262', '--exclude', 'fuzz',
                        driver.REPO + '/', scratch + '/'], check=True)
        with open(os.path.join(scratch, 'src', 'gc.rs'), 'a') as f:
            f.write('\n#[cfg(kani)]\n#[path = "%s"]\nmod verif_kani;\n' % os.path.join(driver.VERIF, 'kani', 'gc_h.rs'))
        env = dict(os.environ)
        env['CARGO_NET_OFFLINE'] = 'true'
        tgt = os.path.join(driver.CACHE, 'kani-target')
        p = subprocess.run(['cargo', 'kani', '--target-dir', tgt], cwd=scratch, env=env, stdout=subprocess.PIPE, stderr=subprocess.STDOUT, text=True,
                           timeout=3000)
        out = p.stdout
    finally:
        shutil.rmtree(scratch, ignore_errors=True)
    os.makedirs(os.path.join(driver.VERIF, 'replays'), exist_ok=True)
    log = os.path.join(driver.VERIF, 'replays', 'C13-kani.log')
    with open(log, 'w') as f:
        f.write(out)
    blocks = re.split(r'Checking harness ', out)[1:]
    seen = {}
    for b in blocks:
        name = b.split('...')[0].strip().split('::')[-1]
        ok = 'VERIFICATION:- SUCCESSFUL' in b
        m = re.search(r'\*\* (\d+) of (\d+) failed', b)
        covers = re.findall(r'- Status: (\w+)\n\s*- Description: "cover condition', b)
        cov_bad = [c for c in covers if c != 'SATISFIED']
        tm = re.search(r'Verification Time: ([0-9.]+)s', b)
        failed_checks = re.findall(r'Check \d+: ([^\n]*)\n\s*- Status: FAILURE\n\s*- Description: "([^"]*)"', b)
        seen[name] = dict(ok=ok, checks=int(m.group(2)) if m else 0, failed=int(m.group(1)) if m else -1, covers=len(covers), covers_unsatisfied=len(cov_bad),
                          time_s=float(tm.group(1)) if tm else 0.0, failed_checks=failed_checks[:5])
    for h in HARNESSES:
        r = seen.get(h)
        if r is None:
            rep.inconc('Kani harness %s did not run (build error?): %s' % (h, out[-600:].replace('\n', ' | ')))
            continue
        rep.paths += 1
        rep.queries += r['checks']
        rep.solver_s += r['time_s']
        rep.obligation('kani %s: %d checks' % (h, r['checks']), 'unsat' if r['ok'] else 'sat', 'all values', r['time_s'],
                       detail=dict(cover_properties=r['covers'], covers_unsatisfied=r['covers_unsatisfied']))
        if not r['ok']:
            rep.violation('C13/%s' % h, 'Kani: harness %s FAILED: %s (full trace in the log)' % (h, r['failed_checks'] or 'see log'), log)
        elif r['covers_unsatisfied']:
            rep.inconc('Kani harness %s: %d cover properties not satisfied (vacuity)' % (h, r['covers_unsatisfied']))
        rep.vacuity.append('%s: %d cover! witnesses satisfied' % (h, r['covers'] - r['covers_unsatisfied']))
    rep.functions |= {'gc::ChunkBitmask::set', 'gc::ChunkBitmask::get', 'gc::ChunkBitmask::clear', 'gc::UnmarkedIter::next'}
    rep.sample({'engine': 'Kani 0.68 / CBMC 6.11 (CaDiCaL)', 'harnesses': seen, 'wall_s': round(time.time() - t0, 1)})
    rep.extra['kani_log'] = log


def replay_file(path):
    print(open(path).read()[-3000:])
    return 0
