"""C17 - the C API is memory-safe and total: NULL-argument totality only.

The MIR dump is built with --features c-api.  Each `extern "C" fn tsrun_*` is executed symbolically with every pointer
parameter independently NULL or valid (a symbolic flag per pointer), the helpers of src/ffi executed for real and everything
behind them (the interpreter, the heap) abstracted.  Obligation: on every feasible path, no raw-pointer dereference -
a `*p` place, or a hand-over to CStr::from_ptr / slice::from_raw_parts / Box::from_raw / ptr::read / ptr::write - happens
while that pointer may still be NULL.  Lifetimes, use-after-free, NUL termination and re-entrancy are outside the claim.
"""
import json
import re
import time
import z3

from emir import driver
from emir.values import *
from emir.symex import State, PathEnd, Abort
from emir.models import deref
from . import common

SINKS = re.compile(r'^CStr::from_ptr$|^slice::from_raw_parts(_mut)?$|^from_raw_parts(_mut)?$|^Box::from_raw$|^ptr::read$|^ptr::write$|^ptr::drop_in_place$|^CString::from_raw$|^Rc::from_raw$|^\*(mut|const) .*::(read|write|read_unaligned|write_unaligned|copy_from|copy_to)$')


def install(ex):
    def as_ref(e, s, c):
        p = c.args[0]
        if not isinstance(p, Ref):
            return None
        e.models_used.add('ptr::as_ref / as_mut: None iff the pointer is NULL')
        if p.null is False:
            return e.ret(s, c, e.some(Ref(p.addr, p.path)))
        return e.ret(s, c, e.option_ite(z3.Not(p.null), Ref(p.addr, p.path)))

    def is_null(e, s, c):
        p = c.args[0]
        if not isinstance(p, Ref):
            return None
        return e.ret(s, c, Bool(p.null if p.null is not False else z3.BoolVal(False)))

    def sink(e, s, c):
        for a in c.args:
            if isinstance(a, Ref) and a.null is not False:
                s.event('deref', a, c.norm)
        return None      # fall through to the normal handling (auto-havoc)
    ex.overrides.append((re.compile(r'^\*(mut|const) .*::as_(ref|mut)$|^(mut_ptr|const_ptr)::as_(ref|mut)$'), as_ref))
    ex.overrides.append((re.compile(r'^\*(mut|const) .*::is_null$|^(mut_ptr|const_ptr)::is_null$'), is_null))
    ex.overrides.append((SINKS, sink))

    def derived(e, s, c):
        # pointer arithmetic / casts / fat-pointer construction keep the NULL-ness of the pointer they start from
        p = c.args[0]
        if isinstance(p, Ref):
            e.models_used.add('pointer add/offset/cast/slice_from_raw_parts: same NULL-ness as the base pointer')
            return e.ret(s, c, Ref(p.addr, p.path, p.null))
        return None
    ex.overrides.append((re.compile(r'^\*(mut|const) .*::(add|offset|sub|cast|cast_mut|cast_const|wrapping_add)$|^ptr::slice_from_raw_parts(_mut)?$|^slice_from_raw_parts(_mut)?$'), derived))

    def into_raw(e, s, c):
        b = c.args[0]
        if isinstance(b, Agg) and 0 in b.fields and isinstance(b.fields[0], Agg) and isinstance(b.fields[0].fields.get(0), Ref):
            r = b.fields[0].fields[0]
            return e.ret(s, c, Ref(r.addr, r.path, False))
        a = s.alloc(b)
        return e.ret(s, c, Ref(a, (), False))       # Box::into_raw never returns NULL
    ex.overrides.append((re.compile(r'^Box::into_raw$|^CString::into_raw$|^Box::leak$'), into_raw))


def run(rep):
    rep.bounds = dict(pointers='every NULL / non-NULL combination of every pointer parameter', other_arguments='arbitrary')
    rep.assumptions = ['functions defined in src/ffi are executed from the MIR; every other callee returns an arbitrary value and does not dereference the C pointers it is not given',
                       'a valid pointer points to an arbitrary (lazily materialised) object of its type']
    rep.outside = ['lifetimes, use-after-free across calls, double free', 'NUL termination / UTF-8 validity of returned strings', 're-entrant native callbacks', 'AddressSanitizer-level memory errors']
    cross = []
    ex0 = common.executor(features=('c-api',))
    names = sorted(n for n in ex0.mir.fn_index if re.match(r'^(ffi::\w+::)?tsrun_\w+$', n) and '{closure' not in n)
    if len(names) < 40:
        rep.inconc('only %d tsrun_* entry points found in the c-api MIR dump' % len(names))
    covered, skipped = [], []
    ex = common.executor(unwind=3, features=('c-api',))
    ex.auto_havoc = True
    ex.auto_invoke_closures = True
    ex.execute_real = [re.compile(r'^(ffi::|c_str_to_str|TsRun\w+::|\w+_to_\w+$)')]
    install(ex)
    for name in names:
        f = ex.mir.get(name)
        st = State()
        args = []
        ptrs = []
        for i, (a, ty) in enumerate(f.args):
            v = ex.fresh(st, ty, '$p%d' % i)
            if isinstance(v, Ref) and v.null is not False:
                ptrs.append((i, ty, v))
            args.append(v)
        ex.call_function(st, name, args)
        try:
            ends = ex.run(st, max_paths=400)
        except Exception as e:
            skipped.append((name, repr(e)[:120]))
            continue
        bad_status = [e for e in ends if e.status not in ('return', 'bound', 'panic', 'diverge')]
        if bad_status:
            skipped.append((name, '%s: %s' % (bad_status[0].status, bad_status[0].detail[:140])))
            continue
        covered.append(name)
        found = None
        ncheck = 0
        flags = [v.null for i, ty, v in ptrs]
        for e in ends:
            for ev in e.st.events:
                if ev[0] != 'deref':
                    continue
                p = ev[1]
                if not any(p.null is fl or (hasattr(p.null, 'eq') and p.null.eq(fl)) for fl in flags):
                    continue      # not one of the C caller's pointers (internal pointer of an abstracted callee)
                ncheck += 1
                r, m = ex.check_sat_pc(e.st.pc, [p.null])
                if r == 'sat':
                    found = (ev, e)
                    break
                cross.append(('%s: pointer not NULL at dereference' % name, list(e.st.pc) + [p.null], 'unsat'))
            if found:
                break
        short = name.split('::')[-1]
        what = '%s: no pointer parameter is dereferenced while it may be NULL' % short
        rep.obligation(what, 'sat' if found else 'unsat', '%d pointer parameters, %d paths, %d dereferences checked' % (len(ptrs), len(ends), ncheck), 0.0)
        if found:
            ev, e = found
            which = [i for i, ty, v in ptrs if v.null is ev[1].null or v.null.eq(ev[1].null)]
            p = rep.write_replay('null-%s' % short, {'function': short, 'null_parameter_index': which, 'dereferenced_by': ev[2] if len(ev) > 2 else 'place projection'})
            rep.violation('C17/%s/null-deref' % short, '%s dereferences pointer parameter %s (%s) on a path where it can be NULL' % (
                short, which, ev[2] if len(ev) > 2 else '*p'), p)
    rep.absorb(ex)
    rep.extra['entry_points_found'] = len(names)
    rep.extra['entry_points_covered'] = len(covered)
    rep.extra['entry_points_not_encoded'] = skipped
    if len(covered) < len(names) * 0.8:
        rep.inconc('only %d of %d entry points could be encoded: %r' % (len(covered), len(names), skipped[:3]))
    rep.sample({'kernel': 'NULL totality of extern "C" entry points', 'covered': len(covered), 'of': len(names), 'examples': [n.split('::')[-1] for n in covered[:8]]})
    rep.vacuity.append('%d entry points executed' % len(covered))
    rep.cross = driver.cross_check(cross, 300, 'ALL', rep.tier, rep.seed)
    rep.extra['cross_checked_obligations'] = len(cross)


def replay_file(path):
    print(open(path).read())
    return 0
