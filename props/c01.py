"""C01 - core programs evaluate as ECMAScript specifies: primitive-operand opcode kernels only.

Decided for ALL operand values in {undefined, null, boolean, number(any f64 bit pattern)}:
  arithmetic   Sub, Mul, Div, Neg, Plus                       (IEEE-754 on ToNumber)
  logical      Not                                            (ToBoolean)
  relational   Lt, LtEq, Gt, GtEq                             (ToNumber, NaN -> false)
  equality     StrictEq, StrictNotEq, Eq, NotEq               (=== / == tables)
  bitwise      the seven arms of C15
  control      JumpIfTrue/False/Nullish/NotNullish set ip iff the ECMAScript condition holds; Void, Move, LoadBool, LoadInt
  Map/Set keys JsMapKey::eq is SameValueZero and eq => equal hasher traces
Everything with strings, objects, the parser, the compiler or the library is outside the claim.
"""
import json
import math
import re
import time
import z3

from emir import driver
from emir.values import *
from emir.symex import State
from emir.models import deref
from . import common, vmarms, c15
from .vmarms import sym_to_number_fp, py_to_number

DOMAIN = c15.DOMAIN


def fp(ops, i):
    return sym_to_number_fp(ops[i][1], ops[i][2], ops[i][3])


def to_boolean(o):
    _, d, b, xbits = o
    x = z3.fpBVToFP(xbits, F64)
    return z3.If(d == 2, b, z3.If(d == 3, z3.And(z3.Not(z3.fpIsZero(x)), z3.Not(z3.fpIsNaN(x))), z3.BoolVal(False)))


def strict_eq(a, b):
    _, da, ba, xa = a
    _, db, bb, xb = b
    fa = z3.fpBVToFP(xa, F64)
    fb = z3.fpBVToFP(xb, F64)
    return z3.And(da == db, z3.If(da == 2, ba == bb, z3.If(da == 3, z3.fpEQ(fa, fb), z3.BoolVal(True))))


def loose_eq(a, b):
    """ECMAScript IsLooselyEqual restricted to undefined/null/boolean/number"""
    _, da, ba, xa = a
    _, db, bb, xb = b
    nullish_a = z3.ULE(da, 1)
    nullish_b = z3.ULE(db, 1)
    na = sym_to_number_fp(da, ba, xa)
    nb = sym_to_number_fp(db, bb, xb)
    return z3.If(z3.And(nullish_a, nullish_b), z3.BoolVal(True),
                 z3.If(z3.Or(nullish_a, nullish_b), z3.BoolVal(False), z3.fpEQ(na, nb)))


def py_bool(v):
    k, b, x = v
    return [False, False, b, (x != 0 and not math.isnan(x))][k]


def py_strict(a, b):
    if a[0] != b[0]:
        return False
    if a[0] == 2:
        return a[1] == b[1]
    if a[0] == 3:
        return a[2] == b[2]
    return True


def py_loose(a, b):
    na, nb = a[0] <= 1, b[0] <= 1
    if na and nb:
        return True
    if na or nb:
        return False
    return py_to_number(*a) == py_to_number(*b)


def pydiv(a, b):
    try:
        return a / b
    except ZeroDivisionError:
        if a == 0 or math.isnan(a):
            return float('nan')
        return math.copysign(float('inf'), a) * math.copysign(1.0, b)


BIN = {
    'Sub': ('-', lambda o: ('fp', z3.fpSub(RNE, fp(o, 0), fp(o, 1))), lambda v: py_to_number(*v[0]) - py_to_number(*v[1])),
    'Mul': ('*', lambda o: ('fp', z3.fpMul(RNE, fp(o, 0), fp(o, 1))), lambda v: py_to_number(*v[0]) * py_to_number(*v[1])),
    'Div': ('/', lambda o: ('fp', z3.fpDiv(RNE, fp(o, 0), fp(o, 1))), lambda v: pydiv(py_to_number(*v[0]), py_to_number(*v[1]))),
    'Lt': ('<', lambda o: ('bool', z3.fpLT(fp(o, 0), fp(o, 1))), lambda v: py_to_number(*v[0]) < py_to_number(*v[1])),
    'LtEq': ('<=', lambda o: ('bool', z3.fpLEQ(fp(o, 0), fp(o, 1))), lambda v: py_to_number(*v[0]) <= py_to_number(*v[1])),
    'Gt': ('>', lambda o: ('bool', z3.fpGT(fp(o, 0), fp(o, 1))), lambda v: py_to_number(*v[0]) > py_to_number(*v[1])),
    'GtEq': ('>=', lambda o: ('bool', z3.fpGEQ(fp(o, 0), fp(o, 1))), lambda v: py_to_number(*v[0]) >= py_to_number(*v[1])),
    'StrictEq': ('===', lambda o: ('bool', strict_eq(o[0], o[1])), lambda v: py_strict(v[0], v[1])),
    'StrictNotEq': ('!==', lambda o: ('bool', z3.Not(strict_eq(o[0], o[1]))), lambda v: not py_strict(v[0], v[1])),
    'Eq': ('==', lambda o: ('bool', loose_eq(o[0], o[1])), lambda v: py_loose(v[0], v[1])),
    'NotEq': ('!=', lambda o: ('bool', z3.Not(loose_eq(o[0], o[1]))), lambda v: not py_loose(v[0], v[1])),
}
UN = {
    'Neg': ('-', lambda o: ('fp', z3.fpNeg(fp(o, 0))), lambda v: -py_to_number(*v[0])),
    'Plus': ('+', lambda o: ('fp', fp(o, 0)), lambda v: py_to_number(*v[0])),
    'Not': ('!', lambda o: ('bool', z3.Not(to_boolean(o[0]))), lambda v: not py_bool(v[0])),
}


def check_jumps(rep, ex, h, cross):
    """JumpIf*: ip becomes target iff the condition holds, else stays"""
    conds = {
        'JumpIfTrue': lambda o: to_boolean(o),
        'JumpIfFalse': lambda o: z3.Not(to_boolean(o)),
        'JumpIfNullish': lambda o: z3.ULE(o[1], 1),
        'JumpIfNotNullish': lambda o: z3.Not(z3.ULE(o[1], 1)),
    }
    for name, cf in conds.items():
        st = State()
        o = h.operand(st, 'c')
        regs = [o[0]]
        ip0 = z3.BitVec(fresh_name('ip'), 64)
        tgt = z3.BitVec(fresh_name('target'), 32)
        vm = Agg('struct', 'BytecodeVM', {0: Int(ip0, False), 2: VecV(regs, 'JsValue')}, lazy=True)
        a_vm = st.alloc(vm)
        a_in = st.alloc(Agg('struct', 'Interpreter', {}, lazy=True))
        vi = ex.variant_index('Op', name)
        op = EnumV('Op', vi, {vi: {0: Int(z3.BitVecVal(0, 8), False), 1: Int(tgt, False)}})
        ex.call_function(st, h.fn, [Ref(a_vm), Ref(a_in), op])
        ends = ex.run(st)
        if not common.require_clean(rep, ends, 'arm ' + name):
            continue
        for k, e in enumerate(ends):
            ip = e.st.store[a_vm].fields[0].e
            want = z3.If(cf(o), z3.ZeroExt(32, tgt), ip0)
            t = time.time()
            r, m = ex.check_sat_pc(e.st.pc, [ip != want])
            what = 'arm %s path %d: ip == (cond ? target : ip)' % (name, k)
            rep.obligation(what, r, DOMAIN, time.time() - t)
            if r == 'unsat':
                cross.append((what, list(e.st.pc) + [ip != want], 'unsat'))
            else:
                mo = vmarms.model_operand(m, o)
                lit = vmarms.js_literal(*mo)
                srcs = {'JumpIfTrue': '(%s) || 7', 'JumpIfFalse': '(%s) && 7', 'JumpIfNullish': '(%s) ?? 7', 'JumpIfNotNullish': '(%s)?.x'}
                src = srcs[name] % lit
                outs = driver.replay([{'cmd': 'eval', 'src': src}])
                rep.validated += 1
                p = rep.write_replay('jump-%s' % name, {'cmd': 'eval', 'src': src, 'observed': outs[0]})
                rep.violation('C01/execute_op/%s/wrong-branch' % name,
                              '%s takes the wrong branch for operand %s (program %s gives %r)' % (name, lit, src, vmarms.reply_value(outs[0])), p)
        rep.sample({'kernel': 'execute_op arm ' + name, 'paths': len(ends)})


# ------------------------------------------------------------------------------------------------
# JsMapKey: eq == SameValueZero, eq => same hash trace
# ------------------------------------------------------------------------------------------------
def hasher_models(ex):
    def h_write(e, s, c):
        v = deref(e, s, c.args[0])
        r = c.args[1]
        tr = e.load(s, r.addr, r.path)
        if isinstance(v, Agg) and v.ty == 'Discriminant':
            v = v.fields[0]
        if not isinstance(v, (Int, Bool)):
            return None
        e.store(s, r.addr, r.path, VecV(tr.items + (v,)))
        e.models_used.add('Hash::hash (appends to a recorded hasher trace)')
        return e.ret(s, c, UNIT)
    ex.overrides.append((re.compile(r'^<(u8|u16|u32|u64|usize|bool|Discriminant<.*>) as Hash>::hash$'), h_write))


def sv0(a, b):
    """SameValueZero on the primitive kinds"""
    _, da, ba, xa = a
    _, db, bb, xb = b
    fa = z3.fpBVToFP(xa, F64)
    fb = z3.fpBVToFP(xb, F64)
    num = z3.Or(z3.And(z3.fpIsNaN(fa), z3.fpIsNaN(fb)), z3.fpEQ(fa, fb))
    return z3.And(da == db, z3.If(da == 2, ba == bb, z3.If(da == 3, num, z3.BoolVal(True))))


def check_mapkey(rep, ex, h, cross):
    hasher_models(ex)
    eq_fn = common.fn_name(ex, 'JsMapKey', 'eq', 'PartialEq')
    hash_fn = common.fn_name(ex, 'JsMapKey', 'hash', 'Hash')
    st = State()
    a = h.operand(st, 'ka')
    b = h.operand(st, 'kb')
    ra = st.alloc(Agg('struct', 'JsMapKey', {0: a[0]}))
    rb = st.alloc(Agg('struct', 'JsMapKey', {0: b[0]}))
    ex.call_function(st, eq_fn, [Ref(ra), Ref(rb)])
    ends = ex.run(st)
    if not common.require_clean(rep, ends, 'JsMapKey::eq'):
        return
    n = 0
    for k, e in enumerate(ends):
        t = time.time()
        neq = e.value.e != sv0(a, b)
        r, m = ex.check_sat_pc(e.st.pc, [neq])
        what = 'JsMapKey::eq path %d == SameValueZero' % k
        rep.obligation(what, r, DOMAIN, time.time() - t)
        if r == 'unsat':
            cross.append((what, list(e.st.pc) + [neq], 'unsat'))
        else:
            report_mapkey(rep, m, a, b, what)
        # hash both keys from this state, compare traces under eq
        s2 = e.st.clone()
        s2.frames = []
        ha = s2.alloc(VecV(()))
        ex.call_function(s2, hash_fn, [Ref(ra), Ref(ha)])
        for e2 in ex.run(s2):
            if e2.status != 'return':
                rep.inconc('JsMapKey::hash: %s %s' % (e2.status, e2.detail))
                continue
            s3 = e2.st.clone()
            s3.frames = []
            hb = s3.alloc(VecV(()))
            ex.call_function(s3, hash_fn, [Ref(rb), Ref(hb)])
            for e3 in ex.run(s3):
                if e3.status != 'return':
                    rep.inconc('JsMapKey::hash: %s %s' % (e3.status, e3.detail))
                    continue
                ta = e3.st.store[ha].items
                tb = e3.st.store[hb].items
                if len(ta) != len(tb):
                    same = z3.BoolVal(False)
                else:
                    same = z3.And([x.e == y.e if x.e.sort() == y.e.sort() else z3.BoolVal(False) for x, y in zip(ta, tb)] + [z3.BoolVal(True)])
                n += 1
                t = time.time()
                r, m = ex.check_sat_pc(e3.st.pc, [sv0(a, b), z3.Not(same)])
                what = 'JsMapKey: SameValueZero(a,b) => hash traces equal (paths %d.%d)' % (k, n)
                rep.obligation(what, r, DOMAIN, time.time() - t)
                if r == 'unsat':
                    cross.append((what, list(e3.st.pc) + [sv0(a, b), z3.Not(same)], 'unsat'))
                else:
                    report_mapkey(rep, m, a, b, what)
    rep.sample({'kernel': 'JsMapKey eq/hash', 'eq_paths': len(ends), 'hash_path_pairs': n})


def report_mapkey(rep, m, a, b, what):
    la = vmarms.js_literal(*vmarms.model_operand(m, a))
    lb = vmarms.js_literal(*vmarms.model_operand(m, b))
    src = 'const m = new Map(); m.set(%s, 1); m.set(%s, 2); const s = new Set([%s, %s]); m.size * 10 + s.size' % (la, lb, la, lb)
    want_same = None
    o = driver.replay([{'cmd': 'eval', 'src': src}])[0]
    rep.validated += 1
    got = vmarms.reply_value(o)
    # SameValueZero in python
    ma, mb = vmarms.model_operand(m, a), vmarms.model_operand(m, b)
    va = (ma[0], ma[1], vmarms.bits_f64(ma[2]))
    vb = (mb[0], mb[1], vmarms.bits_f64(mb[2]))
    same = va[0] == vb[0] and (va[0] <= 1 or (va[0] == 2 and va[1] == vb[1]) or
                               (va[0] == 3 and ((math.isnan(va[2]) and math.isnan(vb[2])) or va[2] == vb[2])))
    want = 11.0 if same else 22.0
    if got == want:
        rep.inconc('%s: counterexample (%s, %s) does not reproduce (program gives %r)' % (what, la, lb, got))
        return
    p = rep.write_replay('mapkey', {'cmd': 'eval', 'src': src, 'expected': want, 'observed': repr(got)})
    rep.violation('C01/JsMapKey/same-value-zero', 'Map/Set treat %s and %s wrongly: %s gives %r, expected %r' % (la, lb, src, got, want), p)


def run(rep):
    rep.bounds = dict(operands=DOMAIN, loops='none in these kernels')
    rep.assumptions = [
        'operands are undefined, null, booleans or numbers; strings, symbols and objects reach interning/heap code and are excluded',
        'Mod and Exp are excluded (fmod / pow are not SMT-FP operations)',
        'Guard::guard/unguard in set_reg are recorded as events only (C02 checks them)',
        'Hash::hash of primitives is modelled as appending to a recorded hasher trace',
    ]
    rep.outside = ['parser, compiler, control flow, scoping, closures, classes, generators, exceptions', 'every built-in',
                   'string operands (so string relational comparison and ++ on strings are not seen)', 'objects']
    cross = []
    ex = common.executor(unwind=4)
    h = vmarms.ArmHarness(ex, rep)
    vmarms.oracle_selftest()
    # fixed vectors through the real interpreter vs the python twins (validates the replay route and the twins)
    pv = [(0, False, 0.0), (1, False, 0.0), (2, True, 0.0), (2, False, 0.0), (3, False, 0.0), (3, False, -0.0), (3, False, float('nan')),
          (3, False, 1.0), (3, False, -2.5), (3, False, float('inf'))]
    reqs, wants = [], []
    for name, (jsop, orc, pyo) in BIN.items():
        for i, a in enumerate(pv):
            b = pv[(i * 3 + 1) % len(pv)]
            la = vmarms.js_literal(a[0], a[1], vmarms.f64_bits(a[2]))
            lb = vmarms.js_literal(b[0], b[1], vmarms.f64_bits(b[2]))
            reqs.append({'cmd': 'eval', 'src': '%s %s %s' % (la, jsop, lb)})
            wants.append(pyo([a, b]))
    for name, (jsop, orc, pyo) in UN.items():
        for a in pv:
            reqs.append({'cmd': 'eval', 'src': '%s %s' % (jsop, vmarms.js_literal(a[0], a[1], vmarms.f64_bits(a[2])))})
            wants.append(pyo([a]))
    outs = driver.replay(reqs)
    diffs = []
    for rq, o, w in zip(reqs, outs, wants):
        rep.validated += 1
        g = vmarms.reply_value(o)
        w = float(w) if not isinstance(w, bool) else w
        if not vmarms.same_js(g, w):
            diffs.append('%s -> %r, ECMAScript %r' % (rq['src'], g, w))
    rep.extra['real_vs_ecmascript_on_fixed_vectors'] = diffs
    for name, (jsop, orc, pyo) in BIN.items():
        def pw(v, pyo=pyo):
            r = pyo(v)
            return r if isinstance(r, bool) else float(r)
        vmarms.check_arm(rep, ex, h, 'C01', name, 2, orc, lambda l, jsop=jsop: '%s %s %s' % (l[0], jsop, l[1]), pw, cross, DOMAIN)
    for name, (jsop, orc, pyo) in UN.items():
        def pw(v, pyo=pyo):
            r = pyo(v)
            return r if isinstance(r, bool) else float(r)
        vmarms.check_arm(rep, ex, h, 'C01', name, 1, orc, lambda l, jsop=jsop: '%s %s' % (jsop, l[0]), pw, cross, DOMAIN)
    check_jumps(rep, ex, h, cross)
    rep.absorb(ex)
    exb = common.executor(unwind=4)
    c15.check_arms(rep, exb, cross, pid='C01')
    rep.absorb(exb)
    exm = common.executor(unwind=4)
    hm = vmarms.ArmHarness(exm, rep)
    check_mapkey(rep, exm, hm, cross)
    rep.absorb(exm)
    check_string_relational(rep, cross, 2 if rep.tier == 'quick' else 3)
    check_string_number_equality(rep, cross, 3 if rep.tier == 'quick' else 5)
    check_update_tonumber(rep, cross)
    check_scope_exits(rep)
    rep.cross = driver.cross_check(cross, 300, 'ALL', rep.tier, rep.seed)
    rep.extra['cross_checked_obligations'] = len(cross)


def replay_file(path):
    d = json.load(open(path))
    o = driver.replay([{'cmd': 'eval', 'src': d['src']}])[0]
    got = vmarms.reply_value(o)
    v = o.get('value', {}).get('v') if isinstance(o.get('value'), dict) else None
    print('%s -> %r (expected %s)' % (d['src'], v if v is not None else got, d.get('expected')))
    return 0 if (repr(got) == str(d.get('expected')) or v == d.get('expected')) else 1


# ------------------------------------------------------------------------------------------------
# string x string relational comparison (ECMAScript: lexicographic by UTF-16 code unit; ASCII here)
# ------------------------------------------------------------------------------------------------
KF_STRREL = 'C01/execute_op/relational-on-strings'


def lex_lt(a, b):
    """a < b for bounded ASCII strings, lexicographically"""
    from emir.strings import bv, s_at
    res = z3.ULT(a.n, b.n)        # proper prefix
    m = min(a.cap, b.cap)
    for i in reversed(range(m)):
        both = z3.And(z3.ULT(bv(i), a.n), z3.ULT(bv(i), b.n))
        res = z3.If(both, z3.If(a.bytes[i] == b.bytes[i], res, z3.ULT(a.bytes[i], b.bytes[i])), res if i == 0 else res)
    # positions are examined from the front: rebuild front-to-back
    res = z3.ULT(a.n, b.n)
    for i in reversed(range(m)):
        both = z3.And(z3.ULT(bv(i), a.n), z3.ULT(bv(i), b.n))
        res = z3.If(both, z3.If(a.bytes[i] == b.bytes[i], res, z3.ULT(a.bytes[i], b.bytes[i])),
                    z3.And(z3.UGE(bv(i), a.n), z3.ULT(bv(i), b.n)))
    return res


KF_BREAK = 'C01/block-scope/break-or-continue-leaves-the-scope-open'
SCOPE_PROGRAMS = [
    # (program, expected completion value, key)
    ("let q = 'outer'; while (true) { let q = 'inner'; break } q", 'outer', KF_BREAK),
    ("let q = 'outer'; l: { let q = 'inner'; break l } q", 'outer', KF_BREAK),
    ("function f(){ let q = 'outer'; switch (1) { case 1: let q = 'inner'; break } return q } f()", 'outer', KF_BREAK),
    ("let q = 'outer'; for (let i = 0; i < 2; i++) { let q = 'inner'; continue } q", 'outer', 'C01/block-scope/continue'),
    ("function f(){ let q = 'outer'; { let q = 'inner'; if (q) return (() => q)() } } f()", 'inner', 'C01/block-scope/return'),
    ("function f(){ let q = 'outer'; for (const x of [1]) { let q = 'inner'; if (x) break } return q } f()", 'outer', 'C01/block-scope/for-of-break'),
    ("let q = 'outer'; try { let q = 'inner'; throw 1 } catch (e) { } q", 'outer', 'C01/block-scope/throw'),
    ("let r = []; for (let i = 0; i < 3; i++) { r.push(() => i) } r.map(f => f()).join(',')", '0,1,2', 'C01/block-scope/per-iteration-binding'),
]


def check_scope_exits(rep):
    """replay route only (no kernel: neither the compiler nor Op::Break/Op::Continue know a scope depth, so there is nothing to encode):
    a block scope is left on every exit - normal completion, break, continue, return, throw"""
    outs = driver.replay([{'cmd': 'eval', 'src': p_} for p_, _, _ in SCOPE_PROGRAMS])
    for (src, want, key), o in zip(SCOPE_PROGRAMS, outs):
        rep.validated += 1
        got = vmarms.reply_value(o)
        v = o.get('value', {}).get('v') if isinstance(o.get('value'), dict) else None
        if v != want:
            p = rep.write_replay('scope-%s' % key.split('/')[-1][:14], {'cmd': 'eval', 'src': src, 'expected': want, 'observed': o})
            rep.violation(key, '%s evaluates to %r, ECMAScript: %r (a block scope stays installed after the exit)' % (src, v if v is not None else got, want), p)


KF_UPDATE = 'C01/compile_update_expression/no-tonumber'


def check_update_tonumber(rep, cross):
    """`x++`, `x--`, `++x`, `--x` on a variable or a property work on ToNumber(old value): in the code Compiler::compile_update_expression
    emits, the Add/Sub that produces the new value is preceded by a Plus (ToNumber) on the loaded value, and a postfix form copies the
    value it returns only after that conversion.  (What Plus/Add/Sub do with primitives is the arm kernel above.)"""
    from . import astb
    ex = common.executor(unwind=3)
    astb.install_rc_models(ex)
    astb.BuilderStub(ex)
    ex.havoc(r'^Compiler::(?!compile_update_expression$)', only_if=lambda e, s, c: True)
    ex.havoc(r'^Expression::without_type_wrappers$', only_if=lambda e, s, c: False)
    fn = common.fn_name(ex, 'Compiler', 'compile_update_expression')
    opn = ex.enum_variants('Op')
    n_paths = 0
    for shape in ('identifier', 'member'):
        for opi, opname in enumerate(ex.enum_variants('UpdateOp')):
            st = State()
            ab = astb.AB(ex, st)
            if shape == 'identifier':
                x = ab.enum('Expression', 'Identifier', ab.ident('x'))
            else:
                mem = ab.struct('MemberExpression', object=ab.rc(EnumV('Expression', z3.BitVec('obj_kind', 64), {}, lazy=True, nm='$obj')),
                                property=ab.enum('MemberProperty', 'Identifier', ab.ident('p')), computed=Bool(z3.BoolVal(False)), optional=Bool(z3.BoolVal(False)))
                st.assume(z3.ULT(z3.BitVec('obj_kind', 64), len(ex.enum_variants('Expression'))))
                x = ab.enum('Expression', 'Member', ab.box(mem))
            prefix = z3.Bool('upd_prefix')
            u = ab.struct('UpdateExpression', operator=EnumV('UpdateOp', opi, {}), argument=ab.rc(x), prefix=Bool(prefix))
            dst = z3.BitVec('dst', 8)
            st.assume(z3.UGE(dst, 16))          # the destination is not one of the temporaries the stub hands out (0, 1, 2, ...)
            comp = st.alloc(Agg('struct', 'Compiler', {}, lazy=True))
            ex.call_function(st, fn, [Ref(comp), ab.ref(u), Int(dst, False)])
            ends = ex.run(st, max_paths=4000)
            for k, e in enumerate(ends):
                if e.status != 'return':
                    rep.inconc('compile_update_expression(%s %s): %s %s' % (shape, opname, e.status, e.detail[:120]))
                    continue
                if not (isinstance(e.value, EnumV) and e.value.discr == 0):
                    continue          # Err from an abstracted callee
                n_paths += 1
                emits = [ev[1] for ev in e.st.events if ev[0] == 'emit' and isinstance(ev[1], EnumV) and isinstance(ev[1].discr, int)]
                names = [opn[o.discr] for o in emits]
                arith = [i for i, nme in enumerate(names) if nme in ('Add', 'Sub')]
                conds = []
                if len(arith) != 1:
                    conds.append(z3.BoolVal(False))
                else:
                    ai = arith[0]
                    a = emits[ai].payload[emits[ai].discr]
                    # fields: dst, left, right
                    left = a[1].e
                    plus = [i for i in range(ai) if names[i] == 'Plus']
                    okp = [z3.And(emits[i].payload[emits[i].discr][0].e == left, emits[i].payload[emits[i].discr][1].e == left) for i in plus]
                    conds.append(z3.Or(okp) if okp else z3.BoolVal(False))
                    conds.append(left == dst)
                    # postfix: the copy that is returned is taken after the conversion
                    moves = [i for i in range(ai) if names[i] == 'Move' and plus and i < plus[0]]
                    for i in moves:
                        mv = emits[i].payload[emits[i].discr]
                        conds.append(z3.Not(z3.And(mv[1].e == dst, mv[0].e != dst)))      # no copy of the unconverted value out of dst
                g = z3.And(conds)
                r, m = ex.check_sat_pc(e.st.pc, [z3.Not(g)])
                what = 'compile_update_expression(%s, %s) path %d: ToNumber (Plus) on the loaded value precedes the Add/Sub and the postfix copy' % (shape, opname, k)
                rep.obligation(what, r, 'identifier or member target, prefix/postfix symbolic, any destination register >= 16', 0.0, detail=names if r != 'unsat' else None)
                if r == 'unsat':
                    cross.append((what, list(e.st.pc) + [z3.Not(g)], 'unsat'))
                elif not rep.seen(KF_UPDATE):
                    progs = ['let s = "5"; s++; s', 'let s = "5"; s++', 'let o = {p: "5"}; ++o.p', 'let s = "5"; s--; s']
                    want = [6.0, 5.0, 6.0, 4.0]
                    outs = driver.replay([{'cmd': 'eval', 'src': x_} for x_ in progs])
                    rep.validated += len(outs)
                    got = [vmarms.reply_value(o) for o in outs]
                    bad = [(p_, g_, w_) for p_, g_, w_ in zip(progs, got, want) if g_ != w_]
                    if bad:
                        p = rep.write_replay('update-tonumber', {'cmd': 'eval', 'src': bad[0][0], 'expected': bad[0][2], 'observed': repr(bad[0][1]), 'emitted': names})
                        rep.violation(KF_UPDATE, '%s evaluates to %r, ECMAScript: %r (++/-- apply ToNumber to the old value first); emitted ops %r' % (bad[0][0], bad[0][1], bad[0][2], names), p)
                    else:
                        rep.inconc('%s: the emitted sequence %r lacks the conversion but the witness programs agree with ECMAScript' % (what, names))
    if n_paths == 0:
        rep.inconc('compile_update_expression: no Ok path examined (vacuity)')
    rep.vacuity.append('compile_update_expression: %d Ok paths' % n_paths)
    rep.sample({'kernel': 'compile_update_expression ToNumber', 'paths': n_paths})
    rep.absorb(ex)


KF_EQSTR = 'C01/execute_op/loose-equality-number-string'
EQ_PROBES = ['', ' 1 ', '0x10', 'inf', '  ', '1', 'a', '1e3', '+5', 'Infinity', '-0', '0b11', '\n7']


def check_string_number_equality(rep, cross, cap=3):
    """`n == s` and `s == n` (also through a boolean operand) compare n with ToNumber(s), where ToNumber of a string is the
    interpreter's own value::string_to_number - the function behind `+s`, Number(s) and arithmetic.  Both the conversion and Rust's
    str::parse::<f64> are uninterpreted functions of the string CONTENT here: the obligation is that the operator uses the former
    for every string (what string_to_number computes is C15's neighbourhood and not decided)."""
    from emir.strings import s_model_bytes
    s2n = z3.Function('string_to_number', z3.BitVecSort(16), *([z3.BitVecSort(8)] * cap + [z3.FPSort(11, 53)]))
    p_ok = z3.Function('rust_parse_f64_ok', z3.BitVecSort(16), *([z3.BitVecSort(8)] * cap + [z3.BoolSort()]))
    p_val = z3.Function('rust_parse_f64_value', z3.BitVecSort(16), *([z3.BitVecSort(8)] * cap + [z3.FPSort(11, 53)]))

    def key_of(v):
        bs = list(v.bytes[:cap]) + [z3.BitVecVal(0, 8)] * (cap - len(v.bytes[:cap]))
        # bytes beyond the length are normalised to 0 so that equal contents give equal keys
        return [z3.ZeroExt(16 - v.n.size(), v.n) if v.n.size() < 16 else v.n] + [z3.If(z3.ULT(z3.BitVecVal(i, v.n.size()), v.n), b, z3.BitVecVal(0, 8)) for i, b in enumerate(bs)]

    from emir.models import deref2

    def h_s2n(e, s, c):
        v = deref2(e, s, c.args[0])
        if not isinstance(v, Str):
            return None
        e.havoc_used.add('value::string_to_number (uninterpreted function of the string content)')
        return e.ret(s, c, Float(s2n(*key_of(v))))

    def h_parse(e, s, c):
        v = deref2(e, s, c.args[0])
        if isinstance(v, Opaque) and ('jsstr', str(v.id)) in s.extra:
            v = s.extra[('jsstr', str(v.id))]
        if not isinstance(v, Str) or 'f64' not in c.callee:
            return None
        e.havoc_used.add('str::parse::<f64> (uninterpreted function of the string content)')
        k = key_of(v)
        d = z3.If(p_ok(*k), z3.BitVecVal(0, 64), z3.BitVecVal(1, 64))
        return e.ret(s, c, EnumV('Result', d, {0: {0: Float(p_val(*k))}, 1: {0: Opaque('ParseFloatError')}}))
    for name, neg in (('Eq', False), ('NotEq', True)):
        for order in ('number-string', 'string-number', 'boolean-string'):
            ex = common.executor(unwind=cap + 4, str_cap=cap)
            h = vmarms.ArmHarness(ex, rep)
            ex.overrides.insert(0, (re.compile(r'^value::string_to_number$|^string_to_number$'), h_s2n))
            ex.overrides.insert(0, (re.compile(r'^str::parse$|^JsString::parse$|^<f64 as FromStr>::from_str$'), h_parse))
            st = State()
            sa = ex.fresh_str(st, cap, 'eqs')
            ta = Opaque('JsString', z3.Int('$eqs_tok'))
            st.extra[('jsstr', str(ta.id))] = sa
            nbits = z3.BitVec('eqn_bits', 64)
            b = z3.Bool('eqb')
            num = EnumV('JsValue', 3, {3: {0: Float(z3.fpBVToFP(nbits, F64))}})
            boo = EnumV('JsValue', 2, {2: {0: Bool(b)}})
            strv = EnumV('JsValue', 4, {4: {0: ta}})
            l, r_ = {'number-string': (num, strv), 'string-number': (strv, num), 'boolean-string': (boo, strv)}[order]
            regs = [EnumV('JsValue', 0, {}), l, r_, EnumV('JsValue', 0, {})]
            vm = Agg('struct', 'BytecodeVM', {2: VecV(regs, 'JsValue')}, lazy=True)
            a_vm = st.alloc(vm)
            a_in = st.alloc(Agg('struct', 'Interpreter', {}, lazy=True))
            vi = ex.variant_index('Op', name)
            op = EnumV('Op', vi, {vi: {0: Int(z3.BitVecVal(0, 8), False), 1: Int(z3.BitVecVal(1, 8), False), 2: Int(z3.BitVecVal(2, 8), False)}})
            ex.call_function(st, h.fn, [Ref(a_vm), Ref(a_in), op])
            ends = ex.run(st)
            label = 'arm %s on %s' % (name, order)
            if not common.require_clean(rep, ends, label):
                rep.absorb(ex)
                continue
            nfp = z3.fpBVToFP(nbits, F64) if order != 'boolean-string' else z3.If(b, z3.FPVal(1.0, F64), z3.FPVal(0.0, F64))
            want = z3.fpEQ(nfp, s2n(*key_of(sa)))
            if neg:
                want = z3.Not(want)
            for k, e in enumerate(ends):
                res = h.result_reg(e, a_vm)
                g = res.payload[2][0].e == want if (isinstance(res.discr, int) and res.discr == 2) else z3.BoolVal(False)
                t = time.time()
                r, m = ex.check_sat_pc(e.st.pc, [z3.Not(g)])
                what = '%s path %d: the result is n == ToNumber(s) with the interpreter\'s own string_to_number' % (label, k)
                rep.obligation(what, r, 'strings <= %d bytes (any bytes < 128), every f64 / boolean' % cap, time.time() - t)
                if r == 'unsat':
                    cross.append((what, list(e.st.pc) + [z3.Not(g)], 'unsat'))
                elif not rep.seen(KF_EQSTR):
                    # the two conversions are uninterpreted, so the solver's string need not be one on which they really differ: probe
                    probes = [s_model_bytes(m, sa).decode('latin-1')] + EQ_PROBES
                    srcs = []
                    for ps in probes:
                        srcs.append('[%s == (+%s), (+%s) == %s, +%s]' % (json.dumps(ps), json.dumps(ps), json.dumps(ps), json.dumps(ps), json.dumps(ps)))
                    outs = driver.replay([{'cmd': 'eval', 'src': 'JSON.stringify(%s.map(x => typeof x === "number" ? String(x) : x))' % x} for x in srcs])
                    rep.validated += len(outs)
                    bad = []
                    for ps, o in zip(probes, outs):
                        try:
                            a1, a2, nv = json.loads(o['value']['v'])
                        except Exception:
                            continue
                        expect = nv != 'NaN'       # x == x for every non-NaN number
                        if a1 != expect or a2 != expect:
                            bad.append((ps, a1, a2, nv))
                    if bad:
                        ps, a1, a2, nv = bad[0]
                        p = rep.write_replay('eq-number-string', {'cmd': 'eval', 'src': '%s == (+%s)' % (json.dumps(ps), json.dumps(ps)), 'string': ps, 'to_number': nv,
                                                                   'string_eq_number': a1, 'number_eq_string': a2, 'all_differing_probes': bad})
                        rep.violation(KF_EQSTR, '%s == (+%s) evaluates to %r although +%s is %s: loose equality does not use the interpreter\'s ToNumber for strings (differing probes: %r)' % (
                            json.dumps(ps), json.dumps(ps), a1, json.dumps(ps), nv, [b_[0] for b_ in bad]), p)
                    else:
                        rep.inconc('%s: the operator does not go through string_to_number but none of the probe strings shows a difference' % what)
            rep.sample({'kernel': 'execute_op %s' % label, 'paths': len(ends)})
            rep.absorb(ex)


def check_string_relational(rep, cross, cap=2):
    from emir.strings import s_eq, s_model_bytes
    from emir.values import Str
    ops = {'Lt': lambda l, e: l, 'LtEq': lambda l, e: z3.Or(l, e), 'Gt': lambda l, e: z3.And(z3.Not(l), z3.Not(e)), 'GtEq': lambda l, e: z3.Not(l)}
    sym = {'Lt': '<', 'LtEq': '<=', 'Gt': '>', 'GtEq': '>='}
    for name in ops:
        ex = common.executor(unwind=cap + 4, str_cap=cap)
        h = vmarms.ArmHarness(ex, rep)
        # ToNumber of a string is outside this kernel: an implementation that converts both strings to numbers gets an arbitrary number
        ex.havoc(r'^value::string_to_number$|^string_to_number$', ret=lambda e, s, c: Float(z3.FP(fresh_name('str2num'), F64)),
                 label='value::string_to_number (arbitrary f64: string->number parsing is outside this kernel)')
        st = State()
        st.extra['alphabet'] = [z3.BitVecVal(c, 8) for c in b'ab1']
        sa = ex.fresh_str(st, cap, 'sa')
        sb = ex.fresh_str(st, cap, 'sb')
        ta = Opaque('JsString', z3.Int('$sa_tok'))
        tb = Opaque('JsString', z3.Int('$sb_tok'))
        st.extra[('jsstr', str(ta.id))] = sa
        st.extra[('jsstr', str(tb.id))] = sb
        regs = [EnumV('JsValue', 0, {}), EnumV('JsValue', 4, {4: {0: ta}}), EnumV('JsValue', 4, {4: {0: tb}}), EnumV('JsValue', 0, {})]
        vm = Agg('struct', 'BytecodeVM', {2: VecV(regs, 'JsValue')}, lazy=True)
        a_vm = st.alloc(vm)
        a_in = st.alloc(Agg('struct', 'Interpreter', {}, lazy=True))
        vi = ex.variant_index('Op', name)
        op = EnumV('Op', vi, {vi: {0: Int(z3.BitVecVal(0, 8), False), 1: Int(z3.BitVecVal(1, 8), False), 2: Int(z3.BitVecVal(2, 8), False)}})
        ex.call_function(st, h.fn, [Ref(a_vm), Ref(a_in), op])
        ends = ex.run(st)
        if not common.require_clean(rep, ends, 'arm %s on strings' % name):
            rep.absorb(ex)
            continue
        want = ops[name](lex_lt(sa, sb), s_eq(sa, sb))
        for k, e in enumerate(ends):
            res = h.result_reg(e, a_vm)
            if not (isinstance(res.discr, int) and res.discr == 2):
                g = z3.BoolVal(False)
            else:
                g = res.payload[2][0].e == want
            t = time.time()
            r, m = ex.check_sat_pc(e.st.pc, [z3.Not(g)])
            what = 'arm %s on two strings path %d: lexicographic comparison' % (name, k)
            rep.obligation(what, r, 'strings <= %d bytes over {a,b,1}' % cap, time.time() - t)
            if r == 'unsat':
                cross.append((what, list(e.st.pc) + [z3.Not(g)], 'unsat'))
            elif not rep.seen(KF_STRREL) and not any(kk == KF_STRREL for kk, _ in rep.known_hits):
                xa = s_model_bytes(m, sa).decode()
                xb = s_model_bytes(m, sb).decode()
                src = '%s %s %s' % (json.dumps(xa), sym[name], json.dumps(xb))
                o = driver.replay([{'cmd': 'eval', 'src': src}])[0]
                rep.validated += 1
                lt = xa < xb
                eq = xa == xb
                expect = {'Lt': lt, 'LtEq': lt or eq, 'Gt': (not lt) and (not eq), 'GtEq': not lt}[name]
                got = vmarms.reply_value(o)
                if got == expect:
                    # the solver's pair does not show it (the real string->number conversion happened to agree): use the canonical pair
                    src = ('"a" %s "b"' if name in ('Lt', 'LtEq') else '"b" %s "a"') % sym[name]
                    o = driver.replay([{'cmd': 'eval', 'src': src}])[0]
                    rep.validated += 1
                    got = vmarms.reply_value(o)
                    expect = True
                if got == expect:
                    rep.inconc('%s: counterexample does not reproduce (%s -> %r)' % (what, src, got))
                else:
                    p = rep.write_replay('strrel-%s' % name, {'cmd': 'eval', 'src': src, 'expected': repr(expect), 'observed': repr(got)})
                    rep.violation(KF_STRREL, '%s evaluates to %r, ECMAScript compares strings lexicographically: %r' % (src, got, expect), p)
        rep.sample({'kernel': 'execute_op arm %s on string operands' % name, 'paths': len(ends)})
        rep.absorb(ex)
