"""C06 - the host keeps control: allocation sizes derived from script numbers.

For the natives that turn a script number into a size - String.prototype.repeat / padStart / padEnd and the Array constructor -
the native is executed symbolically (every other callee abstracted) with the size argument an arbitrary f64 and the receiver an
arbitrary short string: on every path, the size handed to the allocating call (str::repeat, Vec::with_capacity) or bounding the
fill loop is at most 2^31, or the native returned an error first.  A counterexample is a concrete number; the replay runs the
one-line program in a child process with a 3 GiB address-space limit and observes abort versus catchable error.
Bounded work per step(), native re-entry depth and stack overflow are outside the claim.
"""
import json
import math
import os
import re
import resource
import subprocess
import time
import z3

from emir import driver
from emir.values import *
from emir.symex import State
from . import common, vmarms

LIMIT = 1 << 31
KF_ARRAY = 'C06/array_constructor_fn/unbounded-allocation'

NATIVES = [
    # (function, program template with {n}, what is allocated)
    ('string_repeat', '"ab".repeat({n}).length', 'bytes'),
    ('string_pad_start', '"ab".padStart({n}).length', 'bytes'),
    ('string_pad_end', '"ab".padEnd({n}).length', 'bytes'),
    ('array_constructor_fn', 'new Array({n}).length', 'elements'),
]


def limited_replay(src, mem_gib=3, timeout=25, profile='release'):
    """run one program in a child replay process under an address-space limit -> dict(outcome=..., detail=...)"""
    b = driver.replay_bin(profile)

    def lim():
        resource.setrlimit(resource.RLIMIT_AS, (mem_gib << 30, mem_gib << 30))
    try:
        p = subprocess.run([b], input=json.dumps({'cmd': 'eval', 'src': src}) + '\n', stdout=subprocess.PIPE, stderr=subprocess.PIPE, text=True,
                           timeout=timeout, preexec_fn=lim)
    except subprocess.TimeoutExpired:
        return dict(outcome='timeout', detail='no result within %ds' % timeout)
    line = p.stdout.strip().splitlines()[-1] if p.stdout.strip() else ''
    if p.returncode != 0 or not line:
        return dict(outcome='abort', detail='child exited with %s: %s' % (p.returncode, (p.stderr.strip().splitlines() or [''])[-1][:160]))
    o = json.loads(line)
    if 'panic' in o:
        return dict(outcome='panic', detail=o['panic'][:160])
    if o.get('ok'):
        return dict(outcome='value', detail=o['value'])
    return dict(outcome='error', detail=o.get('error', '')[:160])


# Replay route (no solver verdict): the pad length is counted in characters; a filler of multi-byte characters must be cut by characters
# too.  Before the repair `padding.truncate(pad_len)` cut BYTES and panicked inside the native when pad_len fell inside a character.
PAD_PROGRAMS = [
    ("'a'.padStart(4, '\u00e9')", '\u00e9\u00e9\u00e9a'),
    ("'a'.padEnd(4, '\u00e9')", 'a\u00e9\u00e9\u00e9'),
    ("'ab'.padStart(5, '\u20acx')", '\u20acx\u20acab'),
    ("'ab'.padEnd(4, '\U0001F600')", None),
    ("'ab'.padStart(6, 'xyz')", 'xyzxab'),
]


def check_pad_fillers(rep):
    for src, want in PAD_PROGRAMS:
        for profile in ('dev', 'release'):
            o = limited_replay(src, profile=profile)
            rep.validated += 1
            got = o['detail'].get('v') if o['outcome'] == 'value' and isinstance(o['detail'], dict) else None
            ok = o['outcome'] == 'value' and (want is None or got == want)
            rep.obligation('pad filler (replay, %s build): %s returns without panicking%s' % (profile, src, '' if want is None else ' and equals %r' % want),
                           'unsat' if ok else 'sat', 'fixed program', 0.0)
            if not ok:
                key = 'C06/string_pad/multibyte-filler'
                if not rep.seen(key):
                    p = rep.write_replay('pad-filler', {'cmd': 'eval', 'src': src, 'profile': profile, 'observed': o, 'expected': want})
                    rep.violation(key, '%s -> %s in the %s build (%s); expected %r' % (src, o['outcome'], profile, str(o['detail'])[:120], want), p)
                break


KF_INDEX_STORE = 'C06/JsObject::set_property/array-index-store-unbounded-resize'


def check_index_store(rep, cross):
    """`a[i] = v` and `a.length = n` on an array reach JsObject::set_property, which grows the dense element vector to i + 1 (or n)
    elements: the size handed to Vec::resize must stay within what a process can allocate, for every index / length"""
    ex = common.executor(unwind=3)
    ex.auto_havoc = True

    def h_resize(e, s, c):
        s.event('alloc', 'Vec::resize', c.args[1].e)
        e.havoc_used.add('Vec::resize (the requested length is recorded)')
        return e.ret(s, c, UNIT)
    ex.overrides.insert(0, (re.compile(r'^Vec::resize$'), h_resize))
    fn = common.fn_name(ex, 'JsObject', 'set_property')
    st = State()
    idx = z3.BitVec('store_index', 32)
    key = EnumV('PropertyKey', ex.variant_index('PropertyKey', 'Index'), {ex.variant_index('PropertyKey', 'Index'): {0: Int(idx, False)}})
    elen = z3.BitVec('elements_len', 64)
    st.assume(z3.ULE(elen, 1 << 20))
    O = {n: i for i, n in enumerate(ex.src.structs['JsObject'])}
    arr_v = ex.variant_index('ExoticObject', 'Array')
    obj = st.alloc(Agg('struct', 'JsObject', {O['exotic']: EnumV('ExoticObject', arr_v, {arr_v: {0: AbsVec(elen, 'elements', 'JsValue')}})}, lazy=True))
    ex.call_function(st, fn, [Ref(obj), key, ex.fresh(st, 'JsValue', '$stored')])
    ends = ex.run(st, max_paths=3000)
    worst = None
    n = 0
    for e in ends:
        if e.status not in ('return', 'bound', 'panic'):
            rep.inconc('JsObject::set_property: %s %s' % (e.status, e.detail[:140]))
            continue
        n += 1
        for ev in e.st.events:
            if ev[0] != 'alloc':
                continue
            sz = ev[2]
            wide = z3.ZeroExt(64 - sz.size(), sz) if sz.size() < 64 else sz
            r, m = ex.check_sat_pc(e.st.pc, [z3.UGT(wide, LIMIT)])
            if r == 'sat' and worst is None:
                worst = m
            elif r == 'unsat':
                cross.append(('set_property resize <= 2^31', list(e.st.pc) + [z3.UGT(wide, LIMIT)], 'unsat'))
    what = 'JsObject::set_property on an array: the length requested from Vec::resize for an index store stays <= 2^31'
    rep.obligation(what, 'sat' if worst is not None else 'unsat', 'every u32 index, element vector of up to 2^20 elements, %d paths' % n, 0.0)
    if worst is not None and not rep.seen(KF_INDEX_STORE):
        iv = worst.eval(idx, model_completion=True).as_long()
        src = 'var a = []; a[%d] = 1; a.length' % iv
        o = limited_replay(src)
        rep.validated += 1
        if o['outcome'] in ('abort', 'panic', 'timeout'):
            p = rep.write_replay('index-store', {'cmd': 'eval', 'src': src, 'memory_limit_gib': 3, 'observed': o})
            rep.violation(KF_INDEX_STORE, '%s under a 3 GiB address-space limit -> %s (%s): an index store grows the dense element vector to index + 1' % (src, o['outcome'], o['detail']), p)
        else:
            rep.inconc('%s: solver index %d does not abort the real build: %r' % (what, iv, o))
    rep.vacuity.append('JsObject::set_property(Index): %d paths' % n)
    rep.sample({'kernel': 'JsObject::set_property array index store', 'paths': n})
    rep.absorb(ex)


def run(rep):
    rep.bounds = dict(size_argument='every f64', receiver='arbitrary short string / array', limit='2^31 bytes or elements')
    rep.assumptions = ['every callee other than the size arithmetic is abstracted (arbitrary result); receiver lengths are arbitrary but small (<= 4 bytes)',
                       'an allocation or fill loop beyond 2^31 units is treated as "impossible allocation" for an embedded interpreter']
    rep.outside = ['bounded work per step()', 'native re-entry depth / native stack overflow', 'other natives (concat, join, Array.from, fill, ...)']
    cross = []
    for fn_name, tmpl, unit in NATIVES:
        ex = common.executor(unwind=3)
        ex.auto_havoc = True
        # the size argument is a Number: its ToNumber conversion is executed for real so that sizes stay functions of the argument
        ex.execute_real = [re.compile(r'^JsValue::to_number$')]

        def h_repeat(e, s, c):
            from emir.models import deref
            from emir.values import LW
            txt = deref(e, s, c.args[0])
            ln = z3.ZeroExt(128 - LW, txt.n) if isinstance(txt, Str) else z3.BitVecVal(1, 128)
            prod = ln * z3.ZeroExt(64, c.args[1].e)          # bytes requested = len * count (128-bit, no wrap)
            s.event('alloc', 'str::repeat', z3.If(z3.UGT(prod, z3.BitVecVal((1 << 64) - 1, 128)), z3.BitVecVal((1 << 64) - 1, 64), z3.Extract(63, 0, prod)))
            return e.ret(s, c, e.fresh_str(s, 4, 'rep'))

        def h_cap(e, s, c):
            s.event('alloc', 'Vec::with_capacity', c.args[0].e)
            return e.ret(s, c, AbsVec(z3.BitVecVal(0, 64), fresh_name('v'), None))
        ex.overrides.insert(0, (re.compile(r'^str::repeat$'), h_repeat))
        ex.overrides.insert(0, (re.compile(r'^Vec::with_capacity$'), h_cap))
        cands = [n for n in ex.mir.fn_index if n.endswith('::' + fn_name) or n == fn_name or n.endswith(fn_name)]
        cands = [n for n in cands if '{closure' not in n]
        if len(cands) != 1:
            rep.inconc('cannot locate native %s in the MIR dump (%d candidates)' % (fn_name, len(cands)))
            continue
        f = ex.mir.get(cands[0])
        st = State()
        xbits = z3.BitVec('size_arg_bits', 64)
        x = z3.fpBVToFP(xbits, F64)
        interp = st.alloc(Agg('struct', 'Interpreter', {}, lazy=True))
        this = ex.fresh(st, 'JsValue', '$this')
        argv = st.alloc(VecV([EnumV('JsValue', 3, {3: {0: Float(x)}})], 'JsValue'))
        ex.call_function(st, cands[0], [Ref(interp), this, Ref(argv)])
        ends = ex.run(st, max_paths=5000)
        key = 'C06/%s/unbounded-allocation' % fn_name
        nret = 0
        worst = None
        for e in ends:
            if e.status not in ('return', 'bound', 'panic'):
                rep.inconc('%s: %s %s' % (fn_name, e.status, e.detail[:160]))
                continue
            if e.status == 'return' and isinstance(e.value, EnumV) and e.value.discr == 1:
                continue      # refused with an error: fine
            nret += 1
            if e.status == 'panic' and 'overflow' in e.detail:
                # an arithmetic panic in the size computation itself (debug builds panic, release builds wrap and go on)
                r, m = ex.check_sat_pc(e.st.pc, [])
                if r == 'sat':
                    worst = (m, 'panic: ' + e.detail[:90])
                    break
            sizes = [ev[2] for ev in e.st.events if ev[0] == 'alloc']
            f2i = [ev[3] for ev in e.st.events if ev[0] == 'f2i' and ev[1] >= 32]
            # the size handed to an allocating call; for fill loops that ran past the unwinding bound, the converted script number bounds the loop
            exprs = sizes if sizes else (f2i if e.status in ('bound', 'panic') else [])
            for sz in exprs:
                wide = z3.ZeroExt(64 - sz.size(), sz) if sz.size() < 64 else sz
                r, m = ex.check_sat_pc(e.st.pc, [z3.UGT(wide, LIMIT)])
                if r == 'sat':
                    worst = (m, e.status)
                    break
                cross.append(('%s size <= 2^31' % fn_name, list(e.st.pc) + [z3.UGT(wide, LIMIT)], 'unsat'))
            if worst:
                break
        what = '%s: the %s requested from a script number stay <= 2^31 or the native fails first' % (fn_name, unit)
        rep.obligation(what, 'sat' if worst else 'unsat', 'every f64 argument, %d non-error paths' % nret, 0.0)
        if worst:
            m, status = worst
            bits = m.eval(xbits, model_completion=True).as_long()
            xv = vmarms.bits_f64(bits)
            tried = []
            done = False
            for cand in [xv, 2.0 ** 63, 1e10, float(2 ** 32 - 1), float('inf')]:
                if math.isnan(cand) or cand < 0:
                    continue
                lit = 'Infinity' if math.isinf(cand) else repr(cand)
                src = tmpl.format(n=lit)
                for profile in ('release', 'dev'):
                    o = limited_replay(src, profile=profile)
                    rep.validated += 1
                    tried.append((src, o))
                    if o['outcome'] in ('abort', 'panic', 'timeout'):
                        p = rep.write_replay('alloc-%s' % fn_name, {'cmd': 'eval', 'src': src, 'memory_limit_gib': 3, 'profile': profile, 'observed': o})
                        rep.violation(key, '%s: %s under a 3 GiB address-space limit -> %s in the %s build (%s); a catchable RangeError is expected' % (
                            fn_name, src, o['outcome'], profile, o['detail']), p)
                        done = True
                        break
                if done:
                    break
            if done:
                pass
            else:
                rep.inconc('%s: solver counterexample %r (and %r) does not abort the real build: %r' % (fn_name, xv, [t[0] for t in tried], [t[1]['outcome'] for t in tried]))
        rep.vacuity.append('%s: %d non-error paths examined' % (fn_name, nret))
        rep.sample({'kernel': fn_name, 'non_error_paths': nret, 'verdict': 'size can exceed 2^31' if worst else 'bounded or refused'})
        rep.absorb(ex)
    check_index_store(rep, cross)
    check_pad_fillers(rep)
    rep.cross = driver.cross_check(cross, 300, 'ALL', rep.tier, rep.seed)
    rep.extra['cross_checked_obligations'] = len(cross)


def replay_file(path):
    d = json.load(open(path))
    o = limited_replay(d['src'], profile=d.get('profile', 'release'))
    print(json.dumps(o))
    return 1 if o['outcome'] in ('abort', 'panic', 'timeout') else 0
