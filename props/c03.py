"""C03 - TypeScript type syntax is erased: compiler-side kernels only (the parser is outside the claim).

Decided on the real MIR with BytecodeBuilder recorded as events and every other Compiler method abstracted:
  K1  Compiler::compile_statement_impl on Statement::TypeAlias / InterfaceDeclaration returns Ok and emits NOTHING
      (no instruction, no register, no constant, no call into the rest of the compiler);
  K2  Compiler::compile_expression on TypeAssertion (`x as T`, `<T>x`) / NonNull (`x!`) / Parenthesized makes exactly one
      call - compile_expression(inner, SAME destination register) - and emits nothing itself;
  K3  Interpreter::collect_import_requests_internal requests a module for an import / re-export statement iff the statement is
      not type-only (`import type`, `export type ... from`).
  K4  Compiler::compile_export_declaration on a type-only export returns Ok and emits nothing, whatever else the statement carries.
  K6  every speculative parse of the type grammar (`<T>x`, `f<T>(..)`, mapped / function types, peeks) that DECLINES has rewound the
      lexer and the current token completely, so a declined speculation cannot shift how neighbouring tokens parse (props/parsebk.py).
How the parser treats annotations at every position (speculative parses, `<T>(x)` vs comparisons) is not encodable and is
outside the claim; so is everything else the statement says about whole programs.
"""
import itertools
import json
import re
import time
import z3

from emir import driver
from emir.values import *
from emir.strings import *
from emir.symex import State
from emir.models import deref
from . import common, astb, c09

PAIRS = [
    # (annotated program, erased program): concrete companions / replay route
    ('type A = number; interface I { x: A } const v: A = 2; let o: I = { x: v }; (o.x as number) + (<number>v) + o!.x', 'const v = 2; let o = { x: v }; (o.x) + (v) + o.x'),
    ('function f<T>(x: T): T { return x } declare const zz: number; f<number>(3)', 'function f(x) { return x } f(3)'),
    ('import type { T } from "./types"; const x: number = 1; x', 'const x = 1; x'),
    ('export type { T } from "./types"; const x: number = 1; x', 'const x = 1; x'),
    ('interface Shape { a: number } export type { Shape }; const x: number = 41; x + 1', 'const x = 41; x + 1'),
    ('export type * from "./types"; const x: number = 1; x', 'const x = 1; x'),
]


def k12(rep, cross):
    # K1
    for variant, payload_ty in (('TypeAlias', 'TypeAliasDeclaration'), ('InterfaceDeclaration', 'InterfaceDeclaration')):
        ex = common.executor(unwind=3)
        astb.install_rc_models(ex)
        astb.BuilderStub(ex)
        ex.havoc(r'^Compiler::(?!compile_statement_impl$)', only_if=lambda e, s, c: True)
        fn = common.fn_name(ex, 'Compiler', 'compile_statement_impl')
        st = State()
        ab = astb.AB(ex, st)
        stmt = ab.enum('Statement', variant, ab.box(Agg('struct', payload_ty, {}, lazy=True)))
        comp = st.alloc(Agg('struct', 'Compiler', {}, lazy=True))
        ex.call_function(st, fn, [Ref(comp), ab.ref(stmt)])
        ends = ex.run(st)
        if not common.require_clean(rep, ends, 'compile_statement_impl(%s)' % variant):
            continue
        for k, e in enumerate(ends):
            evs = [ev for ev in e.st.events if ev[0] not in ('cast', 'set_span')]
            ok = isinstance(e.value, EnumV) and e.value.discr == 0 and not evs
            what = 'compile_statement_impl(%s) path %d: returns Ok and emits nothing' % (variant, k)
            rep.obligation(what, 'unsat' if ok else 'sat', 'any declaration content', 0.0, detail=[str(ev[0]) for ev in evs][:6])
            if not ok and not rep.seen('C03/compile_statement/%s' % variant):
                outs = driver.replay([{'cmd': 'eval', 'src': a} for a, b in PAIRS[:2]] + [{'cmd': 'eval', 'src': b} for a, b in PAIRS[:2]])
                rep.validated += len(outs)
                p = rep.write_replay('stmt-%s' % variant, {'variant': variant, 'events': [str(ev[:2]) for ev in evs][:10], 'pairs': PAIRS[:2], 'observed': outs})
                rep.violation('C03/compile_statement/%s' % variant, 'compiling a %s statement has a run-time effect: %s' % (variant, [str(ev[0]) for ev in evs][:5]), p)
        rep.sample({'kernel': 'compile_statement_impl(%s)' % variant, 'paths': len(ends)})
        rep.absorb(ex)
    # K2
    for variant, sname in (('TypeAssertion', 'TypeAssertionExpression'), ('NonNull', 'NonNullExpression'), ('Parenthesized', None)):
        ex = common.executor(unwind=3)
        astb.install_rc_models(ex)
        astb.BuilderStub(ex)

        def nested(e, s, c):
            return len(s.frames) >= 1 and (c.norm != 'Compiler::compile_expression' or len(s.frames) >= 1)
        calls = []

        def h_inner(e, s, c):
            # the recursive call: recorded with its expression and destination
            s.event('inner', c.args[1], c.args[2])
            e.havoc_used.add('Compiler::compile_expression (recursive call recorded with its arguments)')
            return e.ret(s, c, e.fresh(s, 'Result<(), JsError>', 'inner_res'))
        ex.overrides.append((re.compile(r'^Compiler::compile_expression$'), h_inner))
        ex.havoc(r'^Compiler::', only_if=lambda e, s, c: True)
        fn = common.fn_name(ex, 'Compiler', 'compile_expression')
        st = State()
        ab = astb.AB(ex, st)
        inner_expr = Agg('struct', 'Expression', {}, lazy=True, nm='$inner_expr')
        inner_cell = st.alloc(EnumV('Expression', z3.BitVec('inner_kind', 64), {}, lazy=True, nm='$inner'))
        st.assume(z3.ULT(z3.BitVec('inner_kind', 64), len(ex.enum_variants('Expression'))))
        rc = Agg('rc', 'Rc', {0: Ref(inner_cell)})
        if variant == 'Parenthesized':
            expr = ab.enum('Expression', 'Parenthesized', rc, ex.fresh(st, 'Span', '$span'))
        else:
            expr = ab.enum('Expression', variant, ab.struct(sname, expression=rc))
        dst = z3.BitVec('dst', 8)
        comp = st.alloc(Agg('struct', 'Compiler', {}, lazy=True))
        ex.call_function(st, fn, [Ref(comp), ab.ref(expr), Int(dst, False)])
        ends = ex.run(st)
        if not common.require_clean(rep, ends, 'compile_expression(%s)' % variant):
            continue
        for k, e in enumerate(ends):
            evs = [ev for ev in e.st.events if ev[0] not in ('cast', 'set_span')]     # set_span only feeds the source map
            inner = [ev for ev in evs if ev[0] == 'inner']
            shape_ok = len(evs) == 1 and len(inner) == 1 and isinstance(inner[0][1], Ref) and inner[0][1].addr == inner_cell
            g = z3.BoolVal(shape_ok)
            if shape_ok:
                g = inner[0][2].e == dst
            r, m = ex.check_sat_pc(e.st.pc, [z3.Not(g)])
            what = 'compile_expression(%s) path %d: exactly one call compile_expression(inner, same dst), nothing emitted' % (variant, k)
            rep.obligation(what, r, 'any inner expression, any destination register', 0.0)
            if r == 'unsat':
                cross.append((what, list(e.st.pc) + [z3.Not(g)], 'unsat'))
            elif not rep.seen('C03/compile_expression/%s' % variant):
                outs = driver.replay([{'cmd': 'eval', 'src': PAIRS[0][0]}, {'cmd': 'eval', 'src': PAIRS[0][1]}])
                rep.validated += 2
                p = rep.write_replay('expr-%s' % variant, {'variant': variant, 'events': [str(ev[:2]) for ev in evs][:10], 'pair': PAIRS[0], 'observed': outs})
                rep.violation('C03/compile_expression/%s' % variant, 'compiling %s is not a pure forward to the inner expression with the same destination: events %s' % (
                    variant, [str(ev[0]) for ev in evs][:5]), p)
        rep.sample({'kernel': 'compile_expression(%s)' % variant, 'paths': len(ends)})
        rep.absorb(ex)


def k4(rep, cross):
    """K4: Compiler::compile_export_declaration on a type-only export (`export type { A }`, `export type { A } from`, `export type * from`)
    returns Ok and emits nothing, whatever its source / specifiers / namespace / declaration are"""
    ex = common.executor(unwind=3)
    astb.install_rc_models(ex)
    astb.BuilderStub(ex)
    ex.havoc(r'^Compiler::(?!compile_export_declaration$)', only_if=lambda e, s, c: True)
    fn = common.fn_name(ex, 'Compiler', 'compile_export_declaration')
    names = ex.src.structs.get('ExportDeclaration')
    if not names or 'type_only' not in names:
        raise driver.Inconclusive('ExportDeclaration.type_only not found in the current source')
    st = State()
    decl = st.alloc(Agg('struct', 'ExportDeclaration', {names.index('type_only'): Bool(z3.BoolVal(True))}, lazy=True, nm='$export'))
    comp = st.alloc(Agg('struct', 'Compiler', {}, lazy=True))
    ex.call_function(st, fn, [Ref(comp), Ref(decl)])
    ends = ex.run(st, max_paths=2000)
    bad = None
    n = 0
    for k, e in enumerate(ends):
        if e.status == 'bound':
            continue
        evs = [ev for ev in e.st.events if ev[0] not in ('cast', 'set_span')]
        if e.status != 'return':
            # a path that wanders into code the executor has no model for has, by then, already left the "skip" branch
            evs = evs or [('left-the-skip-branch: %s' % e.detail[:60],)]
        n += 1
        ok = e.status == 'return' and isinstance(e.value, EnumV) and e.value.discr == 0 and not evs
        what = 'compile_export_declaration(type_only) path %d: returns Ok and emits nothing' % k
        rep.obligation(what, 'unsat' if ok else 'sat', 'any source / specifiers / namespace / declaration', 0.0, detail=[str(ev[0]) for ev in evs][:6])
        if not ok and bad is None:
            bad = evs
    if bad is not None and not rep.seen('C03/compile_export_declaration/type-only'):
        outs = driver.replay([{'cmd': 'eval', 'src': PAIRS[4][0], 'path': '/d/main.ts'}, {'cmd': 'eval', 'src': PAIRS[4][1], 'path': '/d/main.ts'}])
        rep.validated += 2
        p = rep.write_replay('export-type-only', {'events': [str(ev[:2]) for ev in bad][:10], 'pair': PAIRS[4], 'observed': outs})
        rep.violation('C03/compile_export_declaration/type-only', 'compiling a type-only export has a run-time effect: %s; %r gives %r, erased program gives %r' % (
            [str(ev[0]) for ev in bad][:5], PAIRS[4][0], outs[0].get('value', outs[0].get('error')), outs[1].get('value', outs[1].get('error'))), p)
    if n == 0:
        rep.inconc('compile_export_declaration(type_only): no path examined (vacuity)')
    rep.vacuity.append('compile_export_declaration(type_only): %d paths' % n)
    rep.sample({'kernel': 'compile_export_declaration(type_only)', 'paths': n})
    rep.absorb(ex)


# ------------------------------------------------------------------------------------------------
# K5: the TypeScript-only wrappers are transparent where the compiler looks at the SHAPE of an operand
# ------------------------------------------------------------------------------------------------
WRAPPER_PAIRS = [
    # (annotated, erased): replay route for K5
    ('const a: any = null; a?.b!.c', 'const a = null; a?.b.c'),
    ('const o = { v: 7, m() { return this.v } }; o.m!()', 'const o = { v: 7, m() { return this.v } }; o.m()'),
    ('const o = { v: 7, m() { return this.v } }; (o.m as any)()', 'const o = { v: 7, m() { return this.v } }; (o.m)()'),
    ('const o = { v: 7, m() { return this.v } }; (<any>o.m)()', 'const o = { v: 7, m() { return this.v } }; (o.m)()'),
    ('typeof zzz!', 'typeof zzz'),
    ('const o: any = {x:1}; delete o.x!; o.x', 'const o = {x:1}; delete o.x; o.x'),
    ('const f = (() => 1) as any; f.name', 'const f = (() => 1); f.name'),
    ('enum E { A = 1, B = (A as number) + 1 } E.B', 'enum E { A = 1, B = (A) + 1 } E.B'),
    ('let o: any = {a:1}; o.a!++; o.a', 'let o = {a:1}; o.a++; o.a'),
    ('const o = { p: "x", t(s: any) { return this.p + s[0] } }; o.t!`q`', 'const o = { p: "x", t(s) { return this.p + s[0] } }; o.t`q`'),
]


def _render(ex, st, v, alias, depth=0):
    """comparable rendering of an event argument; alias maps wrapper cells to the cell of the wrapped expression"""
    if depth > 6:
        return '...'
    if isinstance(v, str):
        return v
    if isinstance(v, tuple):
        return tuple(_render(ex, st, x, alias, depth + 1) for x in v)
    if isinstance(v, Ref):
        a = alias.get(v.addr, v.addr) if not v.path else v.addr
        return ('ref', a, tuple((p[0], p[1]) for p in v.path))
    if isinstance(v, Int):
        return ('int', str(z3.simplify(v.e)))
    if isinstance(v, Bool):
        return ('bool', str(z3.simplify(v.e)))
    if isinstance(v, Opaque):
        return ('opq', v.ty, str(v.id))
    if isinstance(v, EnumV):
        d = v.discr if isinstance(v.discr, int) else str(z3.simplify(v.discr))
        return ('enum', v.ty, d, tuple(sorted((vi, tuple(sorted((fi, _render(ex, st, fv, alias, depth + 1)) for fi, fv in pl.items()))) for vi, pl in v.payload.items())))
    if isinstance(v, Agg):
        return ('agg', v.kind, v.ty, tuple(sorted((i, _render(ex, st, x, alias, depth + 1)) for i, x in v.fields.items())))
    return str(type(v).__name__)


def k5(rep, cross):
    """For every compiler function that inspects the syntactic form of an operand (typeof / delete operand, call callee, tagged-template
    tag, ++/-- operand, optional-chain object, the expression whose name is inferred, enum initialisers), compiling the operand X and
    compiling `X as T` / `<T>X` / `X!` in its place make the same builder calls and the same calls into the rest of the compiler
    (a recursive call on the wrapper counts as the call on X: that is K2)."""
    ex0 = common.executor(unwind=3)
    contexts = []

    def ctx_unary(op):
        def build(ab, child):
            vs = ab.ex.enum_variants('UnaryOp')
            u = ab.struct('UnaryExpression', operator=EnumV('UnaryOp', vs.index(op), {}), argument=child, prefix=Bool(z3.BoolVal(True)))
            return [ab.ref(u), Int(z3.BitVec('dst', 8), False)]
        return ('compile_unary_expression', '%s operand' % op.lower(), build)
    contexts.append(ctx_unary('Typeof'))
    contexts.append(ctx_unary('Delete'))

    def build_call(ab, child):
        c = ab.struct('CallExpression', callee=child, arguments=VecV((), 'Argument'), type_arguments=ab.none(), optional=Bool(z3.BoolVal(False)))
        return [ab.ref(c), Int(z3.BitVec('dst', 8), False)]
    contexts.append(('compile_call_expression', 'call callee', build_call))

    def build_update(ab, child):
        u = ab.struct('UpdateExpression', operator=EnumV('UpdateOp', 0, {}), argument=child, prefix=Bool(z3.Bool('upd_prefix')))
        return [ab.ref(u), Int(z3.BitVec('dst', 8), False)]
    contexts.append(('compile_update_expression', '++ operand', build_update))

    def build_tag(ab, child):
        t = ab.struct('TaggedTemplateExpression', tag=child)
        return [ab.ref(t), Int(z3.BitVec('dst', 8), False)]
    contexts.append(('compile_tagged_template', 'template tag', build_tag))

    def build_direct(ab, child):
        return [child.fields[0], Int(z3.BitVec('dst', 8), False)]
    contexts.append(('compile_delete_expression', 'delete operand', build_direct))
    contexts.append(('compile_optional_chain_inner', 'optional-chain element', build_direct))

    def build_member_opt(ab, child):
        m = ab.struct('MemberExpression', object=child, property=ab.enum('MemberProperty', 'Identifier', ab.ident('prop2')),
                      computed=Bool(z3.BoolVal(False)), optional=Bool(z3.Bool('outer_optional')))
        return [ab.ref(m), Int(z3.BitVec('dst', 8), False)]
    contexts.append(('compile_member_expression_optional', 'object of a member access inside an optional chain', build_member_opt))

    def build_call_opt(ab, child):
        c = ab.struct('CallExpression', callee=child, arguments=VecV((), 'Argument'), type_arguments=ab.none(), optional=Bool(z3.Bool('call_optional')))
        return [ab.ref(c), Int(z3.BitVec('dst', 8), False)]
    contexts.append(('compile_call_expression_optional', 'callee of a call inside an optional chain', build_call_opt))

    def build_call_opt_obj(ab, child):
        m = ab.struct('MemberExpression', object=child, property=ab.enum('MemberProperty', 'Identifier', ab.ident('meth')),
                      computed=Bool(z3.BoolVal(False)), optional=Bool(z3.Bool('outer_optional')))
        c = ab.struct('CallExpression', callee=ab.rc(ab.enum('Expression', 'Member', ab.box(m))), arguments=VecV((), 'Argument'), type_arguments=ab.none(),
                      optional=Bool(z3.BoolVal(False)))
        return [ab.ref(c), Int(z3.BitVec('dst', 8), False)]
    contexts.append(('compile_call_expression_optional', 'receiver of a method call inside an optional chain', build_call_opt_obj))

    def build_named(ab, child):
        return [child.fields[0], Int(z3.BitVec('dst', 8), False), ab.some(ab.jsstring('inferred'))]
    contexts.append(('compile_expression_with_inferred_name', 'expression with an inferred name', build_named))

    def build_enum_init(ab, child):
        return [child.fields[0], Int(z3.BitVec('dst', 8), False), Int(z3.BitVec('enum_obj', 8), False), ab.ref(VecV((ab.jsstring('member'),), 'JsString'))]
    contexts.append(('compile_enum_init_expression', 'enum initialiser', build_enum_init))

    def operands(ab):
        """operand shapes the compiler distinguishes"""
        out = []
        out.append(('identifier', ab.enum('Expression', 'Identifier', ab.ident('member'))))
        mem = ab.struct('MemberExpression', object=ab.rc(EnumV('Expression', z3.BitVec('obj_kind', 64), {}, lazy=True, nm='$obj')),
                        property=ab.enum('MemberProperty', 'Identifier', ab.ident('prop')), computed=Bool(z3.BoolVal(False)), optional=Bool(z3.BoolVal(False)))
        ab.st.assume(z3.ULT(z3.BitVec('obj_kind', 64), len(ab.ex.enum_variants('Expression'))))
        out.append(('member', ab.enum('Expression', 'Member', ab.box(mem))))
        arrow = Agg('struct', 'ArrowFunctionExpression', {}, lazy=True, nm='$arrow')
        out.append(('arrow function', ab.enum('Expression', 'ArrowFunction', arrow)))
        mem2 = ab.struct('MemberExpression', object=ab.rc(EnumV('Expression', z3.BitVec('obj_kind', 64), {}, lazy=True, nm='$obj')),
                         property=ab.enum('MemberProperty', 'Identifier', ab.ident('prop')), computed=Bool(z3.BoolVal(False)), optional=Bool(z3.BoolVal(True)))
        out.append(('optional member', ab.enum('Expression', 'Member', ab.box(mem2))))
        out.append(('call', ab.enum('Expression', 'Call', ab.box(Agg('struct', 'CallExpression', {}, lazy=True, nm='$call')))))
        out.append(('optional chain', ab.enum('Expression', 'OptionalChain', Agg('struct', 'OptionalChainExpression', {}, lazy=True, nm='$chain'))))
        return out
    missing = [m for m, _, _ in contexts if not ex0._fnkeys.get(('Compiler', None, m))]
    if missing:
        rep.inconc('K5: compiler functions not found (renamed?): %r' % missing)
    n_cmp = 0
    for meth, where, build in contexts:
        if meth in missing:
            continue
        for wname in ('TypeAssertion', 'NonNull'):
            traces = {}
            shapes = None
            for mode in ('plain', 'wrapped'):
                ex = common.executor(unwind=3)
                astb.install_rc_models(ex)
                astb.BuilderStub(ex)
                # every other compiler method is abstracted; the function may call ITSELF for real once (from the outermost activation:
                # that is how a wrapper is unwrapped), deeper self-calls are abstracted like the rest
                ex.havoc(r'^Compiler::', only_if=lambda e, s, c, m_=meth: not (c.norm == 'Compiler::' + m_ and len(s.frames) == 1))
                ex.havoc(r'^Expression::span$', ret=lambda e, s, c: Opaque('Span'))
                fn = common.fn_name(ex, 'Compiler', meth)
                st0 = State()
                ab0 = astb.AB(ex, st0)
                shapes = [n for n, _ in operands(ab0)]
                for si, sname in enumerate(shapes):
                    st = State()
                    ab = astb.AB(ex, st)
                    xval = operands(ab)[si][1]
                    xcell = st.alloc(xval)
                    alias = {}
                    if mode == 'plain':
                        child = Agg('rc', 'Rc', {0: Ref(xcell)})
                    else:
                        inner = Agg('rc', 'Rc', {0: Ref(xcell)})
                        if wname == 'TypeAssertion':
                            w = ab.enum('Expression', 'TypeAssertion', ab.struct('TypeAssertionExpression', expression=inner))
                        else:
                            w = ab.enum('Expression', 'NonNull', ab.struct('NonNullExpression', expression=inner))
                        wcell = st.alloc(w)
                        alias[wcell] = xcell
                        child = Agg('rc', 'Rc', {0: Ref(wcell)})
                    comp = st.alloc(Agg('struct', 'Compiler', {}, lazy=True))
                    args = build(ab, child)
                    ex.call_function(st, fn, [Ref(comp)] + args)
                    try:
                        ends = ex.run(st, max_paths=6000)
                    except Exception as err:
                        raise driver.Inconclusive('K5 %s (%s = %s, %s): %s' % (meth, where, sname, mode, err))
                    tl = []
                    for e in ends:
                        if e.status == 'bound':
                            continue
                        if e.status != 'return':
                            tl.append(('<%s: %s>' % (e.status, e.detail[:80]),))
                            continue
                        evs = tuple((ev[0],) + tuple(_render(ex, e.st, x, alias) for x in ev[1:]) for ev in e.st.events
                                    if ev[0] not in ('cast', 'set_span', 'clone') and not (ev[0] == 'call' and str(ev[1]).endswith('::span')))
                        # addresses differ between the two runs: number cells by first occurrence
                        tl.append(_canon(evs, {comp: 'C', xcell: 'X'}))
                    traces[(mode, sname)] = sorted(set(map(repr, tl)))
                rep.absorb(ex)
            for sname in shapes:
                a, b = traces[('plain', sname)], traces[('wrapped', sname)]
                n_cmp += 1
                what = '%s(%s = %s) and the same with the operand wrapped in %s compile to the same calls' % (meth, where, sname, wname)
                same = a == b
                rep.obligation(what, 'unsat' if same else 'sat', 'operand shape %s, any contents; every path of both runs' % sname, 0.0,
                               detail=None if same else {'only_plain': [x[:300] for x in a if x not in b][:2], 'only_wrapped': [x[:300] for x in b if x not in a][:2]})
                key = 'C03/wrapper-transparency/%s/%s/%s' % (meth, where.replace(' ', '-'), sname.replace(' ', '-'))
                if not same and not rep.seen(key):
                    outs = driver.replay([{'cmd': 'eval', 'src': x} for pr in WRAPPER_PAIRS for x in pr])
                    rep.validated += len(outs)
                    diff = []
                    for i, pr in enumerate(WRAPPER_PAIRS):
                        oa, ob = outs[2 * i], outs[2 * i + 1]
                        if oa.get('value', oa.get('error')) != ob.get('value', ob.get('error')):
                            diff.append((pr[0], str(oa.get('value', oa.get('error')))[:60], str(ob.get('value', ob.get('error')))[:60]))
                    p = rep.write_replay('wrapper-%s-%s-%s' % (meth, where.replace(' ', '-')[:24], sname.replace(' ', '-')), {'function': meth, 'operand': sname, 'wrapper': wname,
                                         'only_plain': [x[:600] for x in a if x not in b][:3], 'only_wrapped': [x[:600] for x in b if x not in a][:3],
                                         'program_pairs_that_differ': diff})
                    rep.violation(key, '%s treats %s %s differently when it is wrapped in a type assertion / non-null assertion%s' % (
                        meth, where, sname, '; e.g. %r gives %s, erased form gives %s' % diff[0] if diff else ' (symbolic difference in the emitted calls)'), p)
    rep.vacuity.append('K5: %d plain/wrapped comparisons' % n_cmp)
    rep.sample({'kernel': 'wrapper transparency', 'comparisons': n_cmp})


def _canon(evs, names):
    """rename cell addresses (in references and inside symbol names) by first occurrence so that two runs can be compared"""
    names = dict(names)

    def nm(a):
        if a not in names:
            names[a] = 'c%d' % len(names)
        return names[a]

    def go(v):
        if isinstance(v, tuple):
            if len(v) == 3 and v[0] == 'ref' and isinstance(v[1], int):
                return ('ref', nm(v[1]), v[2])
            return tuple(go(x) for x in v)
        if isinstance(v, str):
            v = re.sub(r'\$(\d+)', lambda m: '$' + nm(int(m.group(1))), v)
            return re.sub(r'\b([A-Za-z_]\w*![0-9]+)\b', lambda m: nm(m.group(1)), v)      # non-stable fresh names
        return v
    return go(evs)


def k3(rep, cross):
    """type-only import / re-export statements request nothing"""
    for shape in itertools.product(['import', 'reexport'], repeat=2):
        ex = common.executor(unwind=6, str_cap=3)
        astb.install_rc_models(ex)

        def h_resolve(e, s, c):
            e.havoc_used.add('ModulePath::resolve (uninterpreted here; decided by C18)')
            s.event('resolve', c.args[0])
            return e.ret(s, c, Agg('struct', 'ModulePath', {0: str_const(b'R')}))
        ex.overrides.append((re.compile(r'^ModulePath::resolve$'), h_resolve))

        def h_tostring(e, s, c):
            v = deref(e, s, c.args[0])
            if isinstance(v, Opaque) and ('jsstr', str(v.id)) in s.extra:
                return e.ret(s, c, s.extra[('jsstr', str(v.id))])
            return None
        ex.overrides.append((re.compile(r'^<JsString as ToString>::to_string$'), h_tostring))
        fn = common.fn_name(ex, 'Interpreter', 'collect_import_requests_internal')
        st = State()
        ab = astb.AB(ex, st)
        flags = []
        stmts = []
        for i, kd in enumerate(shape):
            tok = Opaque('JsString', z3.Int('$tspec%d' % i))
            st.extra[('jsstr', str(tok.id))] = str_const(b't%d' % i)
            lit = ab.struct('StringLiteral', value=tok)
            fl = z3.Bool('type_only_%d' % i)
            flags.append(fl)
            if kd == 'import':
                stmts.append(ab.enum('Statement', 'Import', ab.box(ab.struct('ImportDeclaration', source=lit, type_only=Bool(fl)))))
            else:
                stmts.append(ab.enum('Statement', 'Export', ab.box(ab.struct('ExportDeclaration', source=ab.some(lit), type_only=Bool(fl)))))
        prog = ab.struct('Program', body=ab.rc(VecV(stmts, 'Statement')))
        interp = st.alloc(Agg('struct', 'Interpreter', {}, lazy=True))
        ex.call_function(st, fn, [Ref(interp), ab.ref(prog), ab.none(), ab.none()])
        ends = ex.run(st)
        if not common.require_clean(rep, ends, 'collect_import_requests_internal (type-only)'):
            continue
        for k, e in enumerate(ends):
            n = len(e.value.items) if isinstance(e.value, VecV) else -1
            want = z3.BitVecVal(0, 8)
            for f in flags:
                want = want + z3.If(f, z3.BitVecVal(0, 8), z3.BitVecVal(1, 8))
            g = want == z3.BitVecVal(n % 256, 8)
            r, m = ex.check_sat_pc(e.st.pc, [z3.Not(g)])
            what = 'collect_import_requests_internal %s path %d: a request iff the statement is not type-only' % ('/'.join(shape), k)
            rep.obligation(what, r, '2 statements, symbolic type_only flags', 0.0)
            if r == 'unsat':
                cross.append((what, list(e.st.pc) + [z3.Not(g)], 'unsat'))
            elif not rep.seen('C03/type-only-import/requested'):
                outs = driver.replay([{'cmd': 'eval', 'src': PAIRS[2][0], 'path': '/d/main.ts'}, {'cmd': 'eval', 'src': PAIRS[3][0], 'path': '/d/main.ts'}])
                rep.validated += 2
                bad = [o for o in outs if o.get('need_imports')]
                p = rep.write_replay('type-only-import', {'cmd': 'eval', 'src': PAIRS[2][0], 'path': '/d/main.ts', 'observed': outs})
                rep.violation('C03/type-only-import/requested', 'a type-only import/re-export produces an import request%s' % (
                    ': `%s` -> NeedImports %r' % (PAIRS[2][0], bad[0]['need_imports']) if bad else ' (symbolic counterexample)'), p)
        rep.absorb(ex)
    rep.sample({'kernel': 'collect_import_requests_internal with symbolic type_only flags', 'shapes': 4})


def run(rep):
    rep.bounds = dict(statements='TypeAlias, InterfaceDeclaration with arbitrary content', expressions='TypeAssertion / NonNull / Parenthesized around an arbitrary expression', imports='2 statements')
    rep.assumptions = ['BytecodeBuilder methods are recorded as events; every other Compiler method is abstracted', 'the AST is given (the parser is not part of the kernel)']
    rep.outside = ['the parser: type annotations at every position, speculative parses, generics vs comparisons, overload signatures, access modifiers, `declare`',
                   'identical values/output/errors of whole programs']
    cross = []
    # concrete companions: annotated program vs erased program
    reqs = []
    for a, b in PAIRS:
        reqs.append({'cmd': 'eval', 'src': a, 'path': '/d/main.ts'})
        reqs.append({'cmd': 'eval', 'src': b, 'path': '/d/main.ts'})
    outs = driver.replay(reqs)
    for i, (a, b) in enumerate(PAIRS):
        rep.validated += 1
        oa, ob = outs[2 * i], outs[2 * i + 1]
        ka = json.dumps({k: v for k, v in oa.items() if k != 'steps'}, sort_keys=True)
        kb = json.dumps({k: v for k, v in ob.items() if k != 'steps'}, sort_keys=True)
        if ka != kb:
            p = rep.write_replay('pair-%d' % i, {'annotated': a, 'erased': b, 'observed_annotated': oa, 'observed_erased': ob})
            key = 'C03/type-only-import/requested' if 'type {' in a and oa.get('need_imports') else 'C03/pair/%d' % i
            rep.violation(key, 'annotated program %r gives %s, its erased form %r gives %s' % (a, ka[:120], b, kb[:120]), p)
    k12(rep, cross)
    k3(rep, cross)
    k4(rep, cross)
    k5(rep, cross)
    from . import parsebk
    parsebk.check(rep, cross, 'C03')   # K6
    rep.cross = driver.cross_check(cross, 300, 'ALL', rep.tier, rep.seed)
    rep.extra['cross_checked_obligations'] = len(cross)


def replay_file(path):
    d = json.load(open(path))
    print(json.dumps(d)[:1500])
    return 0
