"""C03 - TypeScript type syntax is erased: compiler-side kernels only (the parser is outside the claim).

Decided on the real MIR with BytecodeBuilder recorded as events and every other Compiler method abstracted:
  K1  Compiler::compile_statement_impl on Statement::TypeAlias / InterfaceDeclaration returns Ok and emits NOTHING
      (no instruction, no register, no constant, no call into the rest of the compiler);
  K2  Compiler::compile_expression on TypeAssertion (`x as T`, `<T>x`) / NonNull (`x!`) / Parenthesized makes exactly one
      call - compile_expression(inner, SAME destination register) - and emits nothing itself;
  K3  Interpreter::collect_import_requests_internal requests a module for an import / re-export statement iff the statement is
      not type-only (`import type`, `export type ... from`).
How the parser treats annotations at every position (speculative parses, `<T>(x)` vs comparisons) is not encodable and is
outside the claim; so is everything else the statement says about whole programs.
"""
import itertools
import json
import re
import time
import z3

from emir import driver
from emir.values import *
from emir.strings import *
from emir.symex import State
from emir.models import deref
from . import common, astb, c09

PAIRS = [
    # (annotated program, erased program): concrete companions / replay route
    ('type A = number; interface I { x: A } const v: A = 2; let o: I = { x: v }; (o.x as number) + (<number>v) + o!.x', 'const v = 2; let o = { x: v }; (o.x) + (v) + o.x'),
    ('function f<T>(x: T): T { return x } declare const zz: number; f<number>(3)', 'function f(x) { return x } f(3)'),
    ('import type { T } from "./types"; const x: number = 1; x', 'const x = 1; x'),
    ('export type { T } from "./types"; const x: number = 1; x', 'const x = 1; x'),
]


def k12(rep, cross):
    # K1
    for variant, payload_ty in (('TypeAlias', 'TypeAliasDeclaration'), ('InterfaceDeclaration', 'InterfaceDeclaration')):
        ex = common.executor(unwind=3)
        astb.install_rc_models(ex)
        astb.BuilderStub(ex)
        ex.havoc(r'^Compiler::(?!compile_statement_impl$)', only_if=lambda e, s, c: True)
        fn = common.fn_name(ex, 'Compiler', 'compile_statement_impl')
        st = State()
        ab = astb.AB(ex, st)
        stmt = ab.enum('Statement', variant, ab.box(Agg('struct', payload_ty, {}, lazy=True)))
        comp = st.alloc(Agg('struct', 'Compiler', {}, lazy=True))
        ex.call_function(st, fn, [Ref(comp), ab.ref(stmt)])
        ends = ex.run(st)
        if not common.require_clean(rep, ends, 'compile_statement_impl(%s)' % variant):
            continue
        for k, e in enumerate(ends):
            evs = [ev for ev in e.st.events if ev[0] not in ('cast', 'set_span')]
            ok = isinstance(e.value, EnumV) and e.value.discr == 0 and not evs
            what = 'compile_statement_impl(%s) path %d: returns Ok and emits nothing' % (variant, k)
            rep.obligation(what, 'unsat' if ok else 'sat', 'any declaration content', 0.0, detail=[str(ev[0]) for ev in evs][:6])
            if not ok and not rep.seen('C03/compile_statement/%s' % variant):
                outs = driver.replay([{'cmd': 'eval', 'src': a} for a, b in PAIRS[:2]] + [{'cmd': 'eval', 'src': b} for a, b in PAIRS[:2]])
                rep.validated += len(outs)
                p = rep.write_replay('stmt-%s' % variant, {'variant': variant, 'events': [str(ev[:2]) for ev in evs][:10], 'pairs': PAIRS[:2], 'observed': outs})
                rep.violation('C03/compile_statement/%s' % variant, 'compiling a %s statement has a run-time effect: %s' % (variant, [str(ev[0]) for ev in evs][:5]), p)
        rep.sample({'kernel': 'compile_statement_impl(%s)' % variant, 'paths': len(ends)})
        rep.absorb(ex)
    # K2
    for variant, sname in (('TypeAssertion', 'TypeAssertionExpression'), ('NonNull', 'NonNullExpression'), ('Parenthesized', None)):
        ex = common.executor(unwind=3)
        astb.install_rc_models(ex)
        astb.BuilderStub(ex)

        def nested(e, s, c):
            return len(s.frames) >= 1 and (c.norm != 'Compiler::compile_expression' or len(s.frames) >= 1)
        calls = []

        def h_inner(e, s, c):
            # the recursive call: recorded with its expression and destination
            s.event('inner', c.args[1], c.args[2])
            e.havoc_used.add('Compiler::compile_expression (recursive call recorded with its arguments)')
            return e.ret(s, c, e.fresh(s, 'Result<(), JsError>', 'inner_res'))
        ex.overrides.append((re.compile(r'^Compiler::compile_expression$'), h_inner))
        ex.havoc(r'^Compiler::', only_if=lambda e, s, c: True)
        fn = common.fn_name(ex, 'Compiler', 'compile_expression')
        st = State()
        ab = astb.AB(ex, st)
        inner_expr = Agg('struct', 'Expression', {}, lazy=True, nm='$inner_expr')
        inner_cell = st.alloc(EnumV('Expression', z3.BitVec('inner_kind', 64), {}, lazy=True, nm='$inner'))
        st.assume(z3.ULT(z3.BitVec('inner_kind', 64), len(ex.enum_variants('Expression'))))
        rc = Agg('rc', 'Rc', {0: Ref(inner_cell)})
        if variant == 'Parenthesized':
            expr = ab.enum('Expression', 'Parenthesized', rc, ex.fresh(st, 'Span', '$span'))
        else:
            expr = ab.enum('Expression', variant, ab.struct(sname, expression=rc))
        dst = z3.BitVec('dst', 8)
        comp = st.alloc(Agg('struct', 'Compiler', {}, lazy=True))
        ex.call_function(st, fn, [Ref(comp), ab.ref(expr), Int(dst, False)])
        ends = ex.run(st)
        if not common.require_clean(rep, ends, 'compile_expression(%s)' % variant):
            continue
        for k, e in enumerate(ends):
            evs = [ev for ev in e.st.events if ev[0] not in ('cast', 'set_span')]     # set_span only feeds the source map
            inner = [ev for ev in evs if ev[0] == 'inner']
            shape_ok = len(evs) == 1 and len(inner) == 1 and isinstance(inner[0][1], Ref) and inner[0][1].addr == inner_cell
            g = z3.BoolVal(shape_ok)
            if shape_ok:
                g = inner[0][2].e == dst
            r, m = ex.check_sat_pc(e.st.pc, [z3.Not(g)])
            what = 'compile_expression(%s) path %d: exactly one call compile_expression(inner, same dst), nothing emitted' % (variant, k)
            rep.obligation(what, r, 'any inner expression, any destination register', 0.0)
            if r == 'unsat':
                cross.append((what, list(e.st.pc) + [z3.Not(g)], 'unsat'))
            elif not rep.seen('C03/compile_expression/%s' % variant):
                outs = driver.replay([{'cmd': 'eval', 'src': PAIRS[0][0]}, {'cmd': 'eval', 'src': PAIRS[0][1]}])
                rep.validated += 2
                p = rep.write_replay('expr-%s' % variant, {'variant': variant, 'events': [str(ev[:2]) for ev in evs][:10], 'pair': PAIRS[0], 'observed': outs})
                rep.violation('C03/compile_expression/%s' % variant, 'compiling %s is not a pure forward to the inner expression with the same destination: events %s' % (
                    variant, [str(ev[0]) for ev in evs][:5]), p)
        rep.sample({'kernel': 'compile_expression(%s)' % variant, 'paths': len(ends)})
        rep.absorb(ex)


def k3(rep, cross):
    """type-only import / re-export statements request nothing"""
    for shape in itertools.product(['import', 'reexport'], repeat=2):
        ex = common.executor(unwind=6, str_cap=3)
        astb.install_rc_models(ex)

        def h_resolve(e, s, c):
            e.havoc_used.add('ModulePath::resolve (uninterpreted here; decided by C18)')
            s.event('resolve', c.args[0])
            return e.ret(s, c, Agg('struct', 'ModulePath', {0: str_const(b'R')}))
        ex.overrides.append((re.compile(r'^ModulePath::resolve$'), h_resolve))

        def h_tostring(e, s, c):
            v = deref(e, s, c.args[0])
            if isinstance(v, Opaque) and ('jsstr', str(v.id)) in s.extra:
                return e.ret(s, c, s.extra[('jsstr', str(v.id))])
            return None
        ex.overrides.append((re.compile(r'^<JsString as ToString>::to_string$'), h_tostring))
        fn = common.fn_name(ex, 'Interpreter', 'collect_import_requests_internal')
        st = State()
        ab = astb.AB(ex, st)
        flags = []
        stmts = []
        for i, kd in enumerate(shape):
            tok = Opaque('JsString', z3.Int('$tspec%d' % i))
            st.extra[('jsstr', str(tok.id))] = str_const(b't%d' % i)
            lit = ab.struct('StringLiteral', value=tok)
            fl = z3.Bool('type_only_%d' % i)
            flags.append(fl)
            if kd == 'import':
                stmts.append(ab.enum('Statement', 'Import', ab.box(ab.struct('ImportDeclaration', source=lit, type_only=Bool(fl)))))
            else:
                stmts.append(ab.enum('Statement', 'Export', ab.box(ab.struct('ExportDeclaration', source=ab.some(lit), type_only=Bool(fl)))))
        prog = ab.struct('Program', body=ab.rc(VecV(stmts, 'Statement')))
        interp = st.alloc(Agg('struct', 'Interpreter', {}, lazy=True))
        ex.call_function(st, fn, [Ref(interp), ab.ref(prog), ab.none(), ab.none()])
        ends = ex.run(st)
        if not common.require_clean(rep, ends, 'collect_import_requests_internal (type-only)'):
            continue
        for k, e in enumerate(ends):
            n = len(e.value.items) if isinstance(e.value, VecV) else -1
            want = z3.BitVecVal(0, 8)
            for f in flags:
                want = want + z3.If(f, z3.BitVecVal(0, 8), z3.BitVecVal(1, 8))
            g = want == z3.BitVecVal(n % 256, 8)
            r, m = ex.check_sat_pc(e.st.pc, [z3.Not(g)])
            what = 'collect_import_requests_internal %s path %d: a request iff the statement is not type-only' % ('/'.join(shape), k)
            rep.obligation(what, r, '2 statements, symbolic type_only flags', 0.0)
            if r == 'unsat':
                cross.append((what, list(e.st.pc) + [z3.Not(g)], 'unsat'))
            elif not rep.seen('C03/type-only-import/requested'):
                outs = driver.replay([{'cmd': 'eval', 'src': PAIRS[2][0], 'path': '/d/main.ts'}, {'cmd': 'eval', 'src': PAIRS[3][0], 'path': '/d/main.ts'}])
                rep.validated += 2
                bad = [o for o in outs if o.get('need_imports')]
                p = rep.write_replay('type-only-import', {'cmd': 'eval', 'src': PAIRS[2][0], 'path': '/d/main.ts', 'observed': outs})
                rep.violation('C03/type-only-import/requested', 'a type-only import/re-export produces an import request%s' % (
                    ': `%s` -> NeedImports %r' % (PAIRS[2][0], bad[0]['need_imports']) if bad else ' (symbolic counterexample)'), p)
        rep.absorb(ex)
    rep.sample({'kernel': 'collect_import_requests_internal with symbolic type_only flags', 'shapes': 4})


def run(rep):
    rep.bounds = dict(statements='TypeAlias, InterfaceDeclaration with arbitrary content', expressions='TypeAssertion / NonNull / Parenthesized around an arbitrary expression', imports='2 statements')
    rep.assumptions = ['BytecodeBuilder methods are recorded as events; every other Compiler method is abstracted', 'the AST is given (the parser is not part of the kernel)']
    rep.outside = ['the parser: type annotations at every position, speculative parses, generics vs comparisons, overload signatures, access modifiers, `declare`',
                   'identical values/output/errors of whole programs']
    cross = []
    # concrete companions: annotated program vs erased program
    reqs = []
    for a, b in PAIRS:
        reqs.append({'cmd': 'eval', 'src': a, 'path': '/d/main.ts'})
        reqs.append({'cmd': 'eval', 'src': b, 'path': '/d/main.ts'})
    outs = driver.replay(reqs)
    for i, (a, b) in enumerate(PAIRS):
        rep.validated += 1
        oa, ob = outs[2 * i], outs[2 * i + 1]
        ka = json.dumps({k: v for k, v in oa.items() if k != 'steps'}, sort_keys=True)
        kb = json.dumps({k: v for k, v in ob.items() if k != 'steps'}, sort_keys=True)
        if ka != kb:
            p = rep.write_replay('pair-%d' % i, {'annotated': a, 'erased': b, 'observed_annotated': oa, 'observed_erased': ob})
            key = 'C03/type-only-import/requested' if 'type {' in a and oa.get('need_imports') else 'C03/pair/%d' % i
            rep.violation(key, 'annotated program %r gives %s, its erased form %r gives %s' % (a, ka[:120], b, kb[:120]), p)
    k12(rep, cross)
    k3(rep, cross)
    rep.cross = driver.cross_check(cross, 300, 'ALL', rep.tier, rep.seed)
    rep.extra['cross_checked_obligations'] = len(cross)


def replay_file(path):
    d = json.load(open(path))
    print(json.dumps(d)[:1500])
    return 0
