"""C15 - Numbers convert to and from text and integers exactly as specified (integer-conversion kernels).

(a) ToInt32/ToUint32 in the VM: arms BitAnd, BitOr, BitXor, LShift, RShift, URShift, BitNot of
    BytecodeVM::execute_op, every f64 bit pattern and undefined/null/boolean operands, against the ECMAScript
    definitions written over the IEEE bit fields.  No bound: the operand domain is complete.
(b) numeric property keys: PropertyKey::from_value(Number(x)) is Index(i) iff x is an integer in [0, 2^32-1], i = x.
(c) notation selection in value::number_to_string (integer / exponential / decimal) against the thresholds 1e21, 1e-6.
"""
import json
import math
import re
import time
import z3

from emir import driver
from emir.values import *
from emir.symex import State
from emir.models import deref
from emir.strings import str_const
from . import common, vmarms
from .vmarms import to_uint32_bits, i32_to_f64, u32_to_f64, py_to_int32, py_to_uint32

MASK = z3.BitVecVal(31, 32)

ARMS = {
    # name: (operand count, SMT oracle on ToNumber'd operands, JS operator, python oracle)
    'BitAnd': (2, lambda a, b: (to_uint32_bits(a) & to_uint32_bits(b), True), '&', lambda a, b: py_to_int32(a) & py_to_int32(b)),
    'BitOr': (2, lambda a, b: (to_uint32_bits(a) | to_uint32_bits(b), True), '|', lambda a, b: py_to_int32(a) | py_to_int32(b)),
    'BitXor': (2, lambda a, b: (to_uint32_bits(a) ^ to_uint32_bits(b), True), '^', lambda a, b: py_to_int32(a) ^ py_to_int32(b)),
    'LShift': (2, lambda a, b: (to_uint32_bits(a) << (to_uint32_bits(b) & MASK), True), '<<',
               lambda a, b: _wrap32(py_to_int32(a) << (py_to_uint32(b) & 31))),
    'RShift': (2, lambda a, b: (to_uint32_bits(a) >> (to_uint32_bits(b) & MASK), True), '>>',
               lambda a, b: py_to_int32(a) >> (py_to_uint32(b) & 31)),
    'URShift': (2, lambda a, b: (z3.LShR(to_uint32_bits(a), to_uint32_bits(b) & MASK), False), '>>>',
                lambda a, b: py_to_uint32(a) >> (py_to_uint32(b) & 31)),
    'BitNot': (1, lambda a: (~to_uint32_bits(a), True), '~', lambda a: ~py_to_int32(a)),
}


def _wrap32(v):
    v &= 0xFFFFFFFF
    return v - (1 << 32) if v >= (1 << 31) else v


DOMAIN = 'every f64 bit pattern x {undefined,null,boolean,number}'


def check_arms(rep, ex, cross, pid='C15'):
    h = vmarms.ArmHarness(ex, rep)
    nvec = vmarms.oracle_selftest()
    rep.extra['oracle_selftest_vectors'] = nvec
    # the real interpreter against the arithmetic definition on fixed vectors (also validates the replay route)
    vals = [0.0, -1.5, 2147483648.0, 4294967296.0, -2147483649.0, 1e21, 3.0, 31.0, 33.0, float('nan'), 6442450944.0, 2.0 ** 53 + 2]
    cases = []
    for name, (nops, oracle, jsop, pyo) in ARMS.items():
        for i, a in enumerate(vals):
            cases.append((name, (a,) if nops == 1 else (a, vals[(i * 5 + 3) % len(vals)])))
    reqs = []
    for name, args in cases:
        nops, oracle, jsop, pyo = ARMS[name]
        lits = [vmarms.js_literal(3, False, vmarms.f64_bits(a)) for a in args]
        reqs.append({'cmd': 'eval', 'src': ('%s %s' % (jsop, lits[0])) if nops == 1 else ('%s %s %s' % (lits[0], jsop, lits[1]))})
    outs = driver.replay(reqs)
    diffs = []
    for (name, args), o, rq in zip(cases, outs, reqs):
        want = float(ARMS[name][3](*args))
        got = vmarms.reply_value(o)
        rep.validated += 1
        if not vmarms.same_js(got, want):
            diffs.append('%s -> %r, ECMAScript %r' % (rq['src'], got, want))
    rep.extra['real_vs_ecmascript_on_fixed_vectors'] = diffs
    for name, (nops, oracle, jsop, pyo) in ARMS.items():
        def orc(ops, oracle=oracle):
            nums = [vmarms.sym_to_number_bits(o[1], o[2], o[3]) for o in ops]
            bvv, signed = oracle(*nums)
            return ('int', bvv, signed)

        def src(lits, jsop=jsop, nops=nops):
            return ('%s %s' % (jsop, lits[0])) if nops == 1 else ('%s %s %s' % (lits[0], jsop, lits[1]))

        def pyor(vals_, pyo=pyo):
            return float(pyo(*[vmarms.py_to_number(*v) for v in vals_]))
        vmarms.check_arm(rep, ex, h, pid, name, nops, orc, src, pyor, cross, DOMAIN)


def check_numeric_keys(rep, ex, cross):
    """(b) PropertyKey::from_value on Number(x)"""
    name = common.fn_name(ex, 'PropertyKey', 'from_value')
    ex.overrides.append((re.compile(r'^JsValue::to_js_string$'), lambda e, s, c: havoc_ret(e, s, c, Opaque('JsString'))))
    st = State()
    x = z3.FP('key_x', F64)
    a = st.alloc(EnumV('JsValue', 3, {3: {0: Float(x)}}))
    ex.call_function(st, name, [Ref(a)])
    ends = ex.run(st)
    if not common.require_clean(rep, ends, 'PropertyKey::from_value'):
        return
    idxv = ex.variant_index('PropertyKey', 'Index')
    two32 = z3.fpRealToFP(RNE, z3.RealVal(1 << 32), F64)
    is_int = z3.And(z3.Not(z3.fpIsNaN(x)), z3.Not(z3.fpIsInf(x)), z3.fpRoundToIntegral(RTZ, x) == x)
    in_range = z3.And(is_int, z3.fpGEQ(x, z3.FPVal(0.0, F64)), z3.fpLT(x, two32))
    in_range = z3.Or(in_range, z3.fpIsZero(x))  # -0 is the index 0
    for k, e in enumerate(ends):
        v = e.value
        is_index = isinstance(v.discr, int) and v.discr == idxv
        conds = []
        if is_index:
            i = v.payload[idxv][0].e
            conds = [z3.Not(z3.And(in_range, z3.fpUnsignedToFP(RNE, i, F64) == z3.fpAbs(x)))]
            what = 'from_value path %d: Index(i) only for integers in [0,2^32-1] and i == x' % k
        else:
            conds = [in_range]
            what = 'from_value path %d: every integer in [0,2^32-1] becomes an Index' % k
        t = time.time()
        r, m = ex.check_sat_pc(e.st.pc, conds)
        rep.obligation(what, r, 'all f64', time.time() - t)
        if r == 'unsat':
            cross.append((what, list(e.st.pc) + conds, 'unsat'))
        else:
            xv = m.eval(x, model_completion=True)
            isnan = z3.is_true(z3.simplify(z3.fpIsNaN(xv)))
            bits = 0x7ff8000000000000 if isnan else z3.simplify(z3.fpToIEEEBV(xv)).as_long()
            o = driver.replay([{'cmd': 'property_key', 'bits': '%016x' % bits}])[0]
            rep.validated += 1
            xf = vmarms.bits_f64(bits)
            want_index = (not math.isnan(xf)) and (not math.isinf(xf)) and xf == math.trunc(xf) and 0 <= xf < 2 ** 32
            got_index = o['from_value']['kind'] == 'index'
            if got_index == want_index and (not want_index or o['from_value']['index'] == int(xf)):
                rep.inconc('%s: counterexample x=%r does not reproduce' % (what, xf))
            else:
                p = rep.write_replay('numkey', {'cmd': 'property_key', 'bits': '%016x' % bits, 'observed': o})
                rep.violation('C15/PropertyKey::from_value/number', 'PropertyKey::from_value(%r) = %r' % (xf, o['from_value']), p)
    rep.sample({'kernel': 'PropertyKey::from_value(Number)', 'paths': len(ends)})


def havoc_ret(ex, st, call, value):
    st.event('call', call.norm)
    ex.havoc_used.add(call.norm)
    return ex.ret(st, call, value)


def check_notation(rep, ex, cross):
    """(c) which formatting route number_to_string takes"""
    def tag(label):
        def h(e, s, c):
            s.event('route', label)
            e.havoc_used.add(c.norm + ' (digits outside the claim)')
            return e.ret(s, c, str_const(label.encode()))
        return h
    ex.overrides.append((re.compile(r'^format_exponential$'), tag('EXP')))
    ex.overrides.append((re.compile(r'^format_decimal$'), tag('DEC')))
    ex.overrides.append((re.compile(r'^fmt::format$'), tag('INT')))
    ex.overrides.append((re.compile(r'^format_integer$'), tag('INT')))
    st = State()
    x = z3.FP('n2s_x', F64)
    ex.call_function(st, 'value::number_to_string', [Float(x)])
    ends = ex.run(st)
    if not common.require_clean(rep, ends, 'number_to_string'):
        return
    ax = z3.fpAbs(x)
    e21 = z3.fpRealToFP(RNE, z3.RealVal(10 ** 21), F64)
    em6 = z3.fpRealToFP(RNE, z3.Q(1, 10 ** 6), F64)
    finite = z3.And(z3.Not(z3.fpIsNaN(x)), z3.Not(z3.fpIsInf(x)))
    is_int = z3.fpRoundToIntegral(RTZ, x) == x
    want = {
        'NaN': z3.fpIsNaN(x),
        'Infinity': z3.And(z3.fpIsInf(x), z3.fpIsPositive(x)),
        '-Infinity': z3.And(z3.fpIsInf(x), z3.fpIsNegative(x)),
        '0': z3.fpIsZero(x),
        'INT': z3.And(finite, z3.Not(z3.fpIsZero(x)), is_int, z3.fpLT(ax, e21)),
        'EXP': z3.And(finite, z3.Not(z3.fpIsZero(x)), z3.Or(z3.fpGEQ(ax, e21), z3.fpLT(ax, em6))),
        'DEC': z3.And(finite, z3.Not(z3.fpIsZero(x)), z3.Not(is_int), z3.fpGEQ(ax, em6), z3.fpLT(ax, e21)),
    }
    for k, e in enumerate(ends):
        v = e.value
        n = z3.simplify(v.n).as_long()
        label = bytes(z3.simplify(b).as_long() for b in v.bytes[:n]).decode()
        if label not in want:
            rep.inconc('number_to_string path %d returned unexpected literal %r' % (k, label))
            continue
        t = time.time()
        r, m = ex.check_sat_pc(e.st.pc, [z3.Not(want[label])])
        what = 'number_to_string path %d: route %s taken only for its ECMAScript range' % (k, label)
        rep.obligation(what, r, 'all f64', time.time() - t)
        if r == 'unsat':
            cross.append((what, list(e.st.pc) + [z3.Not(want[label])], 'unsat'))
        else:
            xv = m.eval(x, model_completion=True)
            bits = z3.simplify(z3.fpToIEEEBV(xv)).as_long() if not z3.is_true(z3.simplify(z3.fpIsNaN(xv))) else 0x7ff8000000000000
            xf = vmarms.bits_f64(bits)
            o = driver.replay([{'cmd': 'number_to_string', 'bits': '%016x' % bits}])[0]
            rep.validated += 1
            s = o['out']
            has_e = 'e' in s and s not in ('Infinity', '-Infinity')
            want_e = (not math.isnan(xf)) and (not math.isinf(xf)) and xf != 0 and (abs(xf) >= 1e21 or abs(xf) < 1e-6)
            if has_e == want_e:
                rep.inconc('%s: counterexample %r (%s) does not reproduce' % (what, xf, s))
            else:
                p = rep.write_replay('notation', {'cmd': 'number_to_string', 'bits': '%016x' % bits, 'observed': s})
                rep.violation('C15/number_to_string/notation', 'number_to_string(%r) = %r uses the wrong notation' % (xf, s), p)
    rep.sample({'kernel': 'number_to_string notation selection', 'paths': len(ends)})


def range_contains(ex, st, call):
    r = deref(ex, st, call.args[0])
    x = deref(ex, st, call.args[1])
    lo, hi = r.fields[0], r.fields[1]
    if not isinstance(x, Float):
        return None
    ex.models_used.add('Range::<f64>::contains')
    return ex.ret(st, call, Bool(z3.And(z3.fpLEQ(lo.e, x.e), z3.fpLT(x.e, hi.e))))


def js_number_to_string(x):
    """Number::toString(x) of ECMAScript (radix 10), from Python's shortest round-trip repr - an independent implementation of the digits"""
    from decimal import Decimal
    if x != x:
        return 'NaN'
    if x in (float('inf'), float('-inf')):
        return 'Infinity' if x > 0 else '-Infinity'
    if x == 0:
        return '0'
    sign, digits, exp = Decimal(repr(abs(x))).as_tuple()
    digits = list(digits)
    while len(digits) > 1 and digits[-1] == 0:
        digits.pop()
        exp += 1
    ds = ''.join(str(d) for d in digits)
    k = len(ds)
    n = exp + k
    if k <= n <= 21:
        out = ds + '0' * (n - k)
    elif 0 < n <= 21:
        out = ds[:n] + '.' + ds[n:]
    elif -6 < n <= 0:
        out = '0.' + '0' * (-n) + ds
    else:
        e = n - 1
        out = (ds if k == 1 else ds[0] + '.' + ds[1:]) + 'e' + ('+' if e >= 0 else '-') + str(abs(e))
    return ('-' if x < 0 else '') + out


KF_TIE = 'C15/number_to_string/digits/exact-tie-between-two-shortest-strings'
TIE_VECTORS = [203563962632585.12]


def check_digits_concrete(rep):
    """replay route: number_to_string on boundary values and seeded random doubles of every magnitude against js_number_to_string"""
    import random
    import struct
    rnd = random.Random(rep.seed + 15)
    xs = [123456789012345680000.0, 999999999999999900000.0, 1e21, 1e100, 1e300, 1.2345e-7, 123456789e15, 1.7976931348623157e308, 5e-324, 2.2250738585072014e-308,
          1e-6, 1e-7, 0.000001234, 123.456, 203563962632585.12, -1.5e-10, -2.5e25, 4294967296.0, 9007199254740993.0, 0.1, 1 / 3, 100.0, 1e20, 12345678901234567890.0, -1e21, 1.5e-7]
    for _ in range(120 if rep.tier == 'quick' else 1200):
        bits = rnd.getrandbits(64)
        x = struct.unpack('<d', struct.pack('<Q', bits))[0]
        if x == x and x not in (float('inf'), float('-inf')):
            xs.append(x)
    for _ in range(40 if rep.tier == 'quick' else 400):
        xs.append(float(rnd.randint(1, 10 ** rnd.randint(1, 22))))
        xs.append(rnd.random() * 10 ** rnd.randint(-12, 25))
    reqs = [{'cmd': 'number_to_string', 'bits': '%016x' % struct.unpack('<Q', struct.pack('<d', x))[0]} for x in xs]
    outs = driver.replay(reqs)
    bad = []
    ties = []
    for x, o in zip(xs, outs):
        rep.validated += 1
        want = js_number_to_string(x)
        got = o.get('out')
        if got != want:
            # the one class that is a known finding: the double lies EXACTLY half-way between two decimal strings of the same (shortest)
            # length; ECMAScript takes the even one, Rust's formatter (which tsrun uses for the digits) the other
            try:
                from decimal import Decimal
                is_tie = (len(got) == len(want) and float(got) == x and float(want) == x and
                          abs(Decimal(got) - Decimal(x)) == abs(Decimal(want) - Decimal(x)))
            except Exception:
                is_tie = False
            (ties if is_tie else bad).append((x, got, want))
    if ties:
        x, got, want = ties[0]
        p = rep.write_replay('digits-tie', {'cmd': 'number_to_string', 'bits': '%016x' % struct.unpack('<Q', struct.pack('<d', x))[0], 'observed': got, 'expected': want,
                                            'all_ties': [(repr(a), b, c) for a, b, c in ties]})
        rep.violation(KF_TIE, 'number_to_string(%r) = %r; the double is exactly half-way between that and %r, ECMAScript prescribes the even digit string %r' % (x, got, want, want), p)
    if bad and not rep.seen('C15/number_to_string/digits'):
        x, got, want = bad[0]
        p = rep.write_replay('digits', {'cmd': 'number_to_string', 'bits': '%016x' % struct.unpack('<Q', struct.pack('<d', x))[0], 'observed': got, 'expected': want,
                                        'others': [(repr(a), b, c) for a, b, c in bad[1:8]], 'wrong_of': '%d of %d' % (len(bad), len(xs))})
        rep.violation('C15/number_to_string/digits', 'number_to_string(%r) = %r, ECMAScript Number::toString gives %r (%d of %d vectors differ)' % (x, got, want, len(bad), len(xs)), p)
    rep.sample({'kernel': 'number_to_string digits (replay route)', 'vectors': len(xs), 'differing': len(bad)})


JS_WS = [0x9, 0xA, 0xB, 0xC, 0xD, 0x20, 0xA0, 0x1680] + list(range(0x2000, 0x200B)) + [0x2028, 0x2029, 0x202F, 0x205F, 0x3000, 0xFEFF]
NEAR_WS = [0x85, 0x180E, 0x200B, 0x200C, 0x2060, 0x1C, 0x1F, 0x8]


def check_whitespace(rep, cross):
    """(d) StringToNumber trims exactly the ECMAScript WhiteSpace and LineTerminator code points: the predicate trim_js_whitespace uses
    is decided for EVERY char; the same set is confirmed through the real interpreter on the 25 members and 8 near misses."""
    import json as _json
    bad_c = []
    srcs = []
    for cp in JS_WS + NEAR_WS:
        ch = '\\u%04X' % cp
        srcs.append('[String(Number("%s7%s")), String("%s8" == 8)].join(",")' % (ch, ch, ch))
    outs = driver.replay([{'cmd': 'eval', 'src': x} for x in srcs])
    for cp, o in zip(JS_WS + NEAR_WS, outs):
        rep.validated += 1
        want = '7,true' if cp in JS_WS else 'NaN,false'
        got = (o.get('value') or {}).get('v')
        if got != want:
            bad_c.append((cp, got, want))
    if bad_c and not rep.seen('C15/string_to_number/whitespace-set'):
        cp, got, want = bad_c[0]
        p = rep.write_replay('whitespace', {'cmd': 'eval', 'src': srcs[(JS_WS + NEAR_WS).index(cp)], 'expected': want, 'observed': got, 'all': [(hex(c), g, w) for c, g, w in bad_c]})
        rep.violation('C15/string_to_number/whitespace-set', 'Number("\\u%04X7\\u%04X") / "\\u%04X8" == 8 give %r, ECMAScript: %r (code points that differ: %s)' % (
            cp, cp, cp, got, want, [hex(c) for c, _, _ in bad_c]), p)
    ex = common.executor(unwind=3)
    cands = [n for n in ex.mir.fn_index if n == 'is_js_whitespace' or n.endswith('::is_js_whitespace')]
    if len(cands) != 1:
        rep.inconc('trim_js_whitespace::is_js_whitespace not found in the MIR dump (%d candidates): the whitespace predicate moved' % len(cands))
        return
    st = State()
    c = z3.BitVec('ch', 32)
    st.assume(z3.Or(z3.ULT(c, 0xD800), z3.And(z3.UGT(c, 0xDFFF), z3.ULE(c, 0x10FFFF))))
    ex.call_function(st, cands[0], [Char(c)])
    ends = ex.run(st)
    if not common.require_clean(rep, ends, 'is_js_whitespace'):
        return
    want = z3.Or([c == v for v in JS_WS])
    for k, e in enumerate(ends):
        g = e.value.e == want
        r, m = ex.check_sat_pc(e.st.pc, [z3.Not(g)])
        what = 'is_js_whitespace path %d: true exactly for the ECMAScript WhiteSpace / LineTerminator code points' % k
        rep.obligation(what, r, 'every Unicode scalar value', 0.0)
        if r == 'unsat':
            cross.append((what, list(e.st.pc) + [z3.Not(g)], 'unsat'))
        elif not rep.seen('C15/string_to_number/whitespace-set'):
            cp = m.eval(c, model_completion=True).as_long()
            src = '[String(Number("\\u%04X7")), String("\\u%04X8" == 8)].join(",")' % (cp, cp) if cp <= 0xFFFF else 'String(Number(String.fromCodePoint(%d) + "7"))' % cp
            o = driver.replay([{'cmd': 'eval', 'src': src}])[0]
            rep.validated += 1
            p = rep.write_replay('whitespace', {'cmd': 'eval', 'src': src, 'code_point': hex(cp), 'observed': o})
            rep.violation('C15/string_to_number/whitespace-set', 'U+%04X is %streated as whitespace by StringToNumber: %s gives %r' % (
                cp, '' if cp not in JS_WS else 'not ', src, (o.get('value') or {}).get('v')), p)
    rep.sample({'kernel': 'trim_js_whitespace::is_js_whitespace', 'paths': len(ends)})
    rep.absorb(ex)


def run(rep):
    rep.bounds = dict(operands='every f64 bit pattern; kinds undefined/null/boolean/number', loops='none in these kernels')
    rep.assumptions = [
        'strings, symbols and objects as operands are excluded (they reach interning / heap code)',
        'Guard::guard/unguard in set_reg are recorded as events only (C02 checks them)',
        'NaN payload bits are not distinguished (SMT-FP has one NaN)',
        'digits produced by format!/Grisu are outside the claim; only the choice of notation is decided in (c)',
    ]
    rep.outside = ['shortest round-trip digit generation (core::fmt float formatting)', 'format_exponential (log10/powi)',
                   'toFixed/toPrecision/toExponential/radix toString', 'decimal -> double parsing (str::parse::<f64>)']
    cross = []
    ex = common.executor(unwind=4)
    check_arms(rep, ex, cross)
    rep.absorb(ex)
    ex2 = common.executor(unwind=4)
    check_numeric_keys(rep, ex2, cross)
    rep.absorb(ex2)
    ex3 = common.executor(unwind=4)
    check_notation(rep, ex3, cross)
    rep.absorb(ex3)
    check_whitespace(rep, cross)
    check_digits_concrete(rep)
    rep.cross = driver.cross_check(cross, 300, 'ALL', rep.tier, rep.seed)
    rep.extra['cross_checked_obligations'] = len(cross)


def replay_file(path):
    d = json.load(open(path))
    o = driver.replay([{k: v for k, v in d.items() if k in ('cmd', 'src', 'bits', 's')}])[0]
    print(json.dumps(o))
    if d['cmd'] == 'eval' and 'expected' in d:
        got = vmarms.bits_f64(int(o['value']['bits'], 16)) if o.get('ok') and o['value']['t'] == 'number' else None
        print('%s -> %r, expected %r' % (d['src'], got, d['expected']))
        return 0 if got == d['expected'] else 1
    return 0
