"""shared set-up for property checks"""
import random
import time
import z3

from emir import driver
from emir.mirparse import MirFile
from emir.rustsrc import RustSrc
from emir.symex import Executor, State, PathEnd, Abort
from emir.values import *

_cache = {}


def load(features=()):
    key = tuple(features)
    if key not in _cache:
        path, hv, dt = driver.mir_dump(features)
        mir = MirFile(path)
        feats = ('std', 'regex', 'console') + tuple(features)
        src = RustSrc(driver.REPO, feats)
        _cache[key] = (mir, src, hv)
    return _cache[key]


def executor(unwind=8, str_cap=8, features=(), timeout_ms=60000):
    mir, src, hv = load(features)
    ex = Executor(mir, src, unwind=unwind, str_cap=str_cap, timeout_ms=timeout_ms)
    k = ('fnkeys',) + tuple(features)
    if k not in _cache:
        ex._build_fnkeys()
        ex.closure_fn('{closure@none}')
        _cache[k] = (ex._fnkeys, ex._free, ex._closures)
    ex._fnkeys, ex._free, ex._closures = _cache[k]
    return ex


def fn_name(ex, ty, method, trait=None):
    c = ex._fnkeys.get((ty, trait, method), [])
    if len(c) != 1:
        raise driver.Inconclusive('cannot locate %s::%s in the MIR dump (%d candidates) - was it renamed?' % (ty, method, len(c)))
    return c[0]


def status_counts(ends):
    d = {}
    for e in ends:
        d[e.status] = d.get(e.status, 0) + 1
    return d


def require_clean(rep, ends, what, allow=('return',)):
    """every path must end in an allowed status; anything else makes the check inconclusive (never a pass)"""
    bad = [e for e in ends if e.status not in allow]
    for e in bad[:3]:
        rep.inconc('%s: path ended with %s: %s' % (what, e.status, e.detail))
    return not bad
