// Kani harnesses for the unsafe bitmap kernels of src/gc.rs (C13).
// Overlaid on a scratch copy of the repository as a child module of gc.rs, so private items are visible.
use super::*;

fn any_mask() -> ChunkBitmask {
    ChunkBitmask { bits: kani::any() }
}

/// set(i) makes get(i) true and leaves every other bit alone; the unchecked accesses stay in bounds for i < 256
#[kani::proof]
fn bitmask_set_get() {
    let mut m = any_mask();
    let before = m;
    let i: usize = kani::any();
    let j: usize = kani::any();
    kani::assume(i < 256 && j < 256);
    m.set(i);
    assert!(m.get(i));
    if j != i {
        assert!(m.get(j) == before.get(j));
    }
    kani::cover!(i == 255 && j == 0);
    kani::cover!(i == 64 && j == 63);
}

/// clear() unmarks everything
#[kani::proof]
fn bitmask_clear() {
    let mut m = any_mask();
    m.clear();
    let j: usize = kani::any();
    kani::assume(j < 256);
    assert!(!m.get(j));
    kani::cover!(j == 200);
}

/// membership of index k in the set the iterator still has to yield
fn in_remaining(m: &ChunkBitmask, current_word: usize, current_bits: u64, len: usize, k: usize) -> bool {
    if k >= len || k >= 256 {
        return false;
    }
    let w = k >> 6;
    if w == current_word {
        (current_bits >> (k & 63)) & 1 == 1
    } else if w > current_word {
        !m.get(k)
    } else {
        false
    }
}

/// a fresh iterator yields the smallest unmarked index below len, or None when there is none
#[kani::proof]
#[kani::unwind(6)]
fn unmarked_iter_first() {
    let m = any_mask();
    let len: usize = kani::any();
    kani::assume(len <= 256);
    let mut it = UnmarkedIter { bitmask: &m, len, current_word: 0, current_bits: !m.bits[0], base_index: 0 };
    let k: usize = kani::any();
    kani::assume(k < 256);
    match it.next() {
        Some(i) => {
            assert!(i < len);
            assert!(!m.get(i));
            if k < i {
                assert!(m.get(k));
            }
            kani::cover!(i == 130);
        }
        None => {
            if k < len {
                assert!(m.get(k));
            }
            kani::cover!(len == 256);
        }
    }
}

/// inductive step: from ANY iterator state satisfying the representation invariant, next() returns the minimum of the
/// remaining set and removes exactly that element (so a whole sweep visits every unmarked slot below len exactly once)
#[kani::proof]
#[kani::unwind(6)]
fn unmarked_iter_step() {
    let m = any_mask();
    let len: usize = kani::any();
    kani::assume(len <= 256);
    let cw: usize = kani::any();
    kani::assume(cw < 4);
    let cb: u64 = kani::any();
    // invariant: the pending bits of the current word are unmarked positions
    kani::assume(cb & m.bits[cw] == 0);
    let mut it = UnmarkedIter { bitmask: &m, len, current_word: cw, current_bits: cb, base_index: cw << 6 };
    let k: usize = kani::any();
    kani::assume(k < 256);
    let k_before = in_remaining(&m, cw, cb, len, k);
    let r = it.next();
    match r {
        Some(i) => {
            assert!(in_remaining(&m, cw, cb, len, i));
            if k_before {
                assert!(k >= i);
            }
            // invariant re-established
            assert!(it.current_word < 4);
            assert!(it.base_index == it.current_word << 6);
            assert!(it.current_bits & m.bits[it.current_word] == 0);
            let k_after = in_remaining(&m, it.current_word, it.current_bits, len, k);
            assert!(k_after == (k_before && k != i));
            kani::cover!(i == 70 && cw == 0);
        }
        None => {
            assert!(!k_before);
            kani::cover!(cw == 2);
        }
    }
}

/// linear index <-> (chunk, slot) arithmetic used by mark and sweep
#[kani::proof]
fn chunk_index_round_trip() {
    let chunk: usize = kani::any();
    let slot: usize = kani::any();
    kani::assume(chunk < (1usize << 40) && slot < CHUNK_CAPACITY);
    let index = chunk * CHUNK_CAPACITY + slot;
    assert!(index / CHUNK_CAPACITY == chunk);
    assert!(index % CHUNK_CAPACITY == slot);
    assert!(CHUNK_CAPACITY == 256);
}
