//! Concrete twin of the symbolic kernels: runs requests (one JSON object per stdin line) against the
//! real tsrun build and prints one JSON reply per line.  Used for encoder validation and for replaying
//! solver counterexamples before anything is reported.
use serde_json::{json, Value};
use std::io::{BufRead, Write};
use tsrun::{Interpreter, JsValue, ModulePath, StepResult};

fn js_to_json(v: &JsValue) -> Value {
    match v {
        JsValue::Undefined => json!({"t": "undefined"}),
        JsValue::Null => json!({"t": "null"}),
        JsValue::Boolean(b) => json!({"t": "boolean", "v": b}),
        JsValue::Number(n) => json!({"t": "number", "bits": format!("{:016x}", n.to_bits()), "repr": format!("{:?}", n)}),
        JsValue::String(s) => json!({"t": "string", "v": s.as_str()}),
        JsValue::Symbol(_) => json!({"t": "symbol"}),
        JsValue::Object(_) => json!({"t": "object"}),
    }
}

fn run_program(src: &str, path: Option<&str>, max_steps: u64) -> Value {
    let mut interp = Interpreter::new();
    run_on(&mut interp, src, path, max_steps)
}

fn run_on(interp: &mut Interpreter, src: &str, path: Option<&str>, max_steps: u64) -> Value {
    if let Err(e) = interp.prepare(src, path.map(|p| ModulePath::new(p))) {
        return json!({"ok": false, "phase": "prepare", "error": format!("{}", e)});
    }
    let mut n = 0u64;
    loop {
        n += 1;
        if n > max_steps {
            return json!({"ok": false, "phase": "steps", "error": "step budget exceeded"});
        }
        match interp.step() {
            Ok(StepResult::Continue) => continue,
            Ok(StepResult::Complete(v)) => return json!({"ok": true, "value": js_to_json(v.value()), "steps": n}),
            Ok(StepResult::NeedImports(reqs)) => {
                let l: Vec<Value> = reqs
                    .iter()
                    .map(|r| json!({"specifier": r.specifier, "resolved": r.resolved_path.as_str()}))
                    .collect();
                return json!({"ok": true, "need_imports": l});
            }
            Ok(StepResult::Suspended { pending, cancelled }) => {
                return json!({"ok": true, "suspended": {"pending": pending.len(), "cancelled": cancelled.len()}})
            }
            Ok(StepResult::Done) => return json!({"ok": true, "done": true}),
            Err(e) => return json!({"ok": false, "phase": "run", "error": format!("{}", e)}),
        }
    }
}

fn handle(req: &Value) -> Value {
    let cmd = req["cmd"].as_str().unwrap_or("");
    match cmd {
        "resolve" => {
            let spec = req["spec"].as_str().unwrap_or("");
            let out = match req["importer"].as_str() {
                Some(i) => ModulePath::resolve(spec, Some(&ModulePath::new(i))),
                None => ModulePath::resolve(spec, None),
            };
            json!({"out": out.as_str()})
        }
        "eval" => {
            let src = req["src"].as_str().unwrap_or("");
            let max = req["max_steps"].as_u64().unwrap_or(50_000_000);
            run_program(src, req["path"].as_str(), max)
        }
        "eval_seq" => {
            // several programs on ONE interpreter (C11)
            let mut interp = Interpreter::new();
            let mut outs = Vec::new();
            if let Some(a) = req["programs"].as_array() {
                for p in a {
                    let src = p["src"].as_str().unwrap_or("");
                    let mut o = run_on(&mut interp, src, p["path"].as_str(), 50_000_000);
                    if let Some(m) = o.as_object_mut() { m.insert("call_depth_after".to_string(), json!(interp.call_depth())); }
                    outs.push(o);
                }
            }
            json!({"outs": outs})
        }
        "regalloc" => {
            // build a pre-state by a history of public operations, then apply one operation
            let mut b = tsrun::compiler::BytecodeBuilder::new();
            let regs = b.registers();
            if let Some(h) = req["history"].as_array() {
                for step in h {
                    let name = step[0].as_str().unwrap_or("");
                    let arg = step[1].as_u64().unwrap_or(0) as u8;
                    match name {
                        "alloc" => { let _ = regs.alloc(); }
                        "free" => regs.free(arg),
                        "reserve" => { let _ = regs.reserve_range(arg); }
                        "save" => regs.save(),
                        "restore" => regs.restore(),
                        _ => {}
                    }
                }
            }
            let pre = json!({"next": regs.current(), "max_used": regs.max_used()});
            let arg = req["arg"].as_u64().unwrap_or(0) as u8;
            let res = match req["op"].as_str().unwrap_or("") {
                "alloc" => match regs.alloc() { Ok(r) => json!({"ok": r}), Err(e) => json!({"err": format!("{}", e)}) },
                "free" => { regs.free(arg); json!({}) }
                "reserve_range" => match regs.reserve_range(arg) { Ok(r) => json!({"ok": r}), Err(e) => json!({"err": format!("{}", e)}) },
                "save" => { regs.save(); json!({}) }
                "restore" => { regs.restore(); json!({}) }
                _ => json!({"error": "unknown op"}),
            };
            // observe the post-state through further allocations
            let post = json!({"next": regs.current(), "max_used": regs.max_used()});
            let mut following = Vec::new();
            for _ in 0..4 {
                match regs.alloc() { Ok(r) => following.push(json!(r)), Err(_) => following.push(json!("err")) }
            }
            json!({"pre": pre, "result": res, "post": post, "next_allocs": following})
        }
        "add_constants" => {
            let mut b = tsrun::compiler::BytecodeBuilder::new();
            let n = req["count"].as_u64().unwrap_or(0);
            let mut last_ok: Option<u16> = None;
            let mut first_err: Option<u64> = None;
            let mut mismatch: Option<u64> = None;
            for i in 0..n {
                match b.add_constant(tsrun::compiler::Constant::Number(i as f64)) {
                    Ok(idx) => { if idx as u64 != i && mismatch.is_none() { mismatch = Some(i); } last_ok = Some(idx); }
                    Err(_) => { if first_err.is_none() { first_err = Some(i); } }
                }
            }
            json!({"last_ok": last_ok, "first_err_at": first_err, "first_index_mismatch_at": mismatch})
        }
        "order_trace" => {
            // scripted host: answers every pending order with its own id (as a number) on the next round
            use tsrun::{InterpreterConfig, OrderResponse, RuntimeValue};
            let config = InterpreterConfig { internal_modules: vec![tsrun::create_eval_internal_module()], ..Default::default() };
            let mut interp = Interpreter::with_config(config);
            let src = req["src"].as_str().unwrap_or("");
            let mut trace: Vec<Value> = Vec::new();
            let mut issued: Vec<u64> = Vec::new();
            let mut answered: Vec<u64> = Vec::new();
            let mut cancelled_seen: Vec<u64> = Vec::new();
            let mut violation: Option<String> = None;
            let mut first = interp.prepare(src, Some(ModulePath::new("/main.ts")));
            let mut idle_suspends = 0u32;
            let mut steps = 0u64;
            let mut final_value = Value::Null;
            'outer: loop {
                let r = match first { Ok(StepResult::Continue) | Err(_) if false => unreachable!(), _ => std::mem::replace(&mut first, Ok(StepResult::Continue)) };
                let r = match r { Ok(StepResult::Continue) => interp.step(), other => other };
                steps += 1;
                if steps > 5_000_000 { violation = Some("step budget exceeded".into()); break; }
                match r {
                    Ok(StepResult::Continue) => continue,
                    Ok(StepResult::Complete(v)) => {
                        let unanswered: Vec<&u64> = issued.iter().filter(|i| !answered.contains(i) && !cancelled_seen.contains(i)).collect();
                        if !unanswered.is_empty() { violation = Some(format!("Complete with unanswered orders {:?}", unanswered)); }
                        final_value = js_to_json(v.value());
                        trace.push(json!("Complete"));
                        break;
                    }
                    Ok(StepResult::Suspended { pending, cancelled }) => {
                        let ids: Vec<u64> = pending.iter().map(|o| o.id.0).collect();
                        let cids: Vec<u64> = cancelled.iter().map(|o| o.0).collect();
                        trace.push(json!({"suspended": {"pending": ids, "cancelled": cids}}));
                        for i in &ids {
                            if issued.contains(i) { violation = Some(format!("order {} handed to the host twice", i)); break 'outer; }
                            issued.push(*i);
                        }
                        for c in &cids {
                            if !issued.contains(c) { violation = Some(format!("cancellation of an order {} that was never handed out", c)); break 'outer; }
                            if cancelled_seen.contains(c) { violation = Some(format!("order {} cancelled twice", c)); break 'outer; }
                            cancelled_seen.push(*c);
                        }
                        let todo: Vec<u64> = issued.iter().cloned().filter(|i| !answered.contains(i) && !cancelled_seen.contains(i)).collect();
                        if todo.is_empty() {
                            idle_suspends += 1;
                            if idle_suspends > 3 { violation = Some("Suspended although the host has nothing left to answer".into()); break; }
                        } else {
                            idle_suspends = 0;
                            let err_for: Vec<u64> = req["error_for"].as_array().map(|a| a.iter().filter_map(|v| v.as_u64()).collect()).unwrap_or_default();
                            let mk = |i: &u64| OrderResponse { id: tsrun::OrderId(*i), result: if err_for.contains(i) { Err(tsrun::JsError::type_error(format!("host error {}", i))) } else { Ok(RuntimeValue::unguarded(JsValue::Number(*i as f64))) } };
                            answered.extend(todo.iter());
                            let mode = req["fulfill"].as_str().unwrap_or("batch");
                            if mode == "split" {
                                // one fulfill_orders call per response, last issued first
                                for i in todo.iter().rev() { interp.fulfill_orders(vec![mk(i)]); }
                            } else {
                                interp.fulfill_orders(todo.iter().map(mk).collect());
                            }
                            if mode == "then_empty" { interp.fulfill_orders(Vec::new()); }
                        }
                    }
                    Ok(StepResult::NeedImports(_)) => { trace.push(json!("NeedImports")); break; }
                    Ok(StepResult::Done) => { trace.push(json!("Done")); break; }
                    Err(e) => { trace.push(json!({"error": format!("{}", e)})); break; }
                }
            }
            if violation.is_none() {
                if let Some(exp) = req["expect_cancelled"].as_array() {
                    let mut want: Vec<u64> = exp.iter().filter_map(|v| v.as_u64()).collect();
                    let mut got = cancelled_seen.clone();
                    want.sort();
                    got.sort();
                    if want != got { violation = Some(format!("cancellations reported to the host {:?}, program cancelled {:?}", got, want)); }
                }
                if let Some(exp) = req["expect_issued"].as_u64() {
                    if issued.len() as u64 != exp { violation = Some(format!("{} orders handed to the host, program issued {}", issued.len(), exp)); }
                }
            }
            json!({"trace": trace, "issued": issued, "answered": answered, "cancelled": cancelled_seen, "value": final_value, "protocol_violation": violation})
        }
        "eval_vs_step" => {
            // the two public ways of running one program: Interpreter::eval (vm.run) and prepare + step
            use tsrun::InterpreterConfig;
            let src = req["src"].as_str().unwrap_or("");
            let _describe = |r: Result<StepResult, tsrun::JsError>| -> Value {
                match r {
                    Ok(StepResult::Continue) => json!("Continue"),
                    Ok(StepResult::Complete(v)) => json!({"complete": js_to_json(v.value())}),
                    Ok(StepResult::NeedImports(l)) => json!({"need_imports": l.iter().map(|x| json!([x.specifier, x.resolved_path.as_str(), x.importer.as_ref().map(|p| p.as_str().to_string())])).collect::<Vec<Value>>()}),
                    Ok(StepResult::Suspended { pending, cancelled }) => json!({"suspended": {"pending": pending.iter().map(|o| o.id.0).collect::<Vec<u64>>(), "cancelled": cancelled.iter().map(|o| o.0).collect::<Vec<u64>>()}}),
                    Ok(StepResult::Done) => json!("Done"),
                    Err(e) => json!({"error": format!("{}", e)}),
                }
            };
            let mk = || Interpreter::with_config(InterpreterConfig { internal_modules: vec![tsrun::create_eval_internal_module()], ..Default::default() });
            let describe_ref = |r: &Result<StepResult, tsrun::JsError>| -> Value {
                match r {
                    Ok(StepResult::Continue) => json!("Continue"),
                    Ok(StepResult::Complete(v)) => json!({"complete": js_to_json(v.value())}),
                    Ok(StepResult::NeedImports(l)) => json!({"need_imports": l.iter().map(|x| json!([x.specifier, x.resolved_path.as_str(), x.importer.as_ref().map(|p| p.as_str().to_string())])).collect::<Vec<Value>>()}),
                    Ok(StepResult::Suspended { pending, cancelled }) => json!({"suspended": {"pending": pending.iter().map(|o| o.id.0).collect::<Vec<u64>>(), "cancelled": cancelled.iter().map(|o| o.0).collect::<Vec<u64>>()}}),
                    Ok(StepResult::Done) => json!("Done"),
                    Err(e) => json!({"error": format!("{}", e)}),
                }
            };
            let mut a = mk();
            let ra_raw = a.eval(src, Some(ModulePath::new("/main.ts")));
            let ra = describe_ref(&ra_raw);
            let mut b = mk();
            let mut rb = b.prepare(src, Some(ModulePath::new("/main.ts")));
            let mut n = 0u64;
            while let Ok(StepResult::Continue) = rb {
                rb = b.step();
                n += 1;
                if n > 5_000_000 { break; }
            }
            // drive both interpreters on with the same scripted host (every pending order is answered with its id) until a terminal result
            fn finish(interp: &mut Interpreter, first: Result<StepResult, tsrun::JsError>) -> Value {
                use tsrun::{OrderResponse, RuntimeValue};
                let mut r = first;
                let mut n = 0u64;
                let mut idle = 0u32;
                loop {
                    n += 1;
                    if n > 2_000_000 { return json!("step budget"); }
                    match r {
                        Ok(StepResult::Continue) => { r = interp.step(); }
                        Ok(StepResult::Suspended { pending, .. }) => {
                            if pending.is_empty() { idle += 1; if idle > 3 { return json!("suspended with nothing to answer"); } } else { idle = 0; }
                            interp.fulfill_orders(pending.iter().map(|o| OrderResponse { id: o.id, result: Ok(RuntimeValue::unguarded(JsValue::Number(o.id.0 as f64))) }).collect());
                            r = interp.step();
                        }
                        Ok(StepResult::Complete(v)) => return json!({"complete": js_to_json(v.value())}),
                        Ok(StepResult::NeedImports(l)) => return json!({"need_imports": l.len()}),
                        Ok(StepResult::Done) => return json!("Done"),
                        Err(e) => return json!({"error": format!("{}", e).lines().next().unwrap_or("").to_string()}),
                    }
                }
            }
            let rb_first = describe_ref(&rb);
            let fa = finish(&mut a, ra_raw);
            let fb = finish(&mut b, rb);
            json!({"eval": ra, "step": rb_first, "eval_final": fa, "step_final": fb, "differ": ra != rb_first || fa != fb})
        }
        "source_map" => {
            use tsrun::compiler::{BytecodeBuilder, Op};
            let mut b = BytecodeBuilder::new();
            let spans: Vec<tsrun::lexer::Span> = req["spans"].as_array().map(|a| a.iter().map(|s| tsrun::lexer::Span::new(
                s["start"].as_u64().unwrap_or(0) as usize, s["end"].as_u64().unwrap_or(0) as usize,
                s["line"].as_u64().unwrap_or(0) as u32, s["column"].as_u64().unwrap_or(0) as u32)).collect()).unwrap_or_default();
            let mut si = 0usize;
            let mut emitted = 0usize;
            for c in req["ops"].as_str().unwrap_or("").chars() {
                if c == 'S' {
                    if let Some(sp) = spans.get(si) { b.set_span(*sp); }
                    si += 1;
                } else {
                    b.emit(Op::Nop);
                    emitted += 1;
                }
            }
            let chunk = b.finish();
            let lookups: Vec<Value> = (0..emitted).map(|k| match chunk.get_source_location(k) {
                Some(sp) => json!({"start": sp.start, "end": sp.end, "line": sp.line, "column": sp.column}),
                None => Value::Null,
            }).collect();
            json!({"lookups": lookups})
        }
        "two_waiters" => {
            // two async functions awaiting the same pending promise; resolving it must wake both, in order
            let src = "let log = []; let res; const p = new Promise(r => { res = r; });\n\
                async function w(n) { await p; log.push(n); }\n\
                const a = w('A'); const b = w('B'); res(1); await a; await b; log.join('')";
            run_program(src, Some("/main.ts"), 1_000_000)
        }
        "gc_repeat" => {
            // run the same self-contained program several times on ONE interpreter; live objects after collect() each time
            let src = req["src"].as_str().unwrap_or("");
            let n = req["times"].as_u64().unwrap_or(6);
            let mut interp = Interpreter::new();
            let mut live = Vec::new();
            let mut outs = Vec::new();
            for _ in 0..n {
                let o = run_on(&mut interp, src, None, 50_000_000);
                outs.push(o["ok"].clone());
                interp.collect();
                live.push(interp.gc_stats().live_objects);
            }
            json!({"live": live, "ok": outs})
        }
        "seq_graph" => {
            // several programs (each may be a module graph supplied from a map) on ONE interpreter; optionally a run is abandoned after
            // `max_steps` steps or is never resumed after its first Suspended.  Reports each outcome and call_depth() afterwards.
            fn drive(interp: &mut Interpreter, p: &Value) -> Value {
                let src = p["src"].as_str().unwrap_or("");
                let path = p["path"].as_str();
                let modules = p["modules"].as_object().cloned().unwrap_or_default();
                let max_steps = p["max_steps"].as_u64().unwrap_or(2_000_000);
                let mut requested: Vec<String> = Vec::new();
                let mut r = interp.prepare(src, path.map(ModulePath::new));
                let mut n = 0u64;
                let outcome = loop {
                    n += 1;
                    if n > max_steps { break json!("abandoned after step budget"); }
                    match r {
                        Ok(StepResult::Continue) => { r = interp.step(); }
                        Ok(StepResult::NeedImports(reqs)) => {
                            if reqs.is_empty() || requested.len() > 40 { break json!({"error": "empty or endless NeedImports"}); }
                            let mut failed = None;
                            for rq in reqs {
                                let key = rq.resolved_path.as_str().to_string();
                                requested.push(key.clone());
                                match modules.get(&key).and_then(|v| v.as_str()) {
                                    Some(msrc) => { if let Err(e) = interp.provide_module(rq.resolved_path, msrc) { failed = Some(json!({"provide_error": format!("{}", e)})); break; } }
                                    None => { failed = Some(json!({"missing_module": key})); break; }
                                }
                            }
                            if let Some(f) = failed { break f; }
                            r = interp.step();
                        }
                        Ok(StepResult::Complete(v)) => break json!({"complete": js_to_json(v.value())}),
                        Ok(StepResult::Suspended { pending, .. }) => break json!({"suspended": pending.iter().map(|o| o.id.0).collect::<Vec<u64>>()}),
                        Ok(StepResult::Done) => break json!("Done"),
                        Err(e) => break json!({"error": format!("{}", e).lines().next().unwrap_or("").to_string()}),
                    }
                };
                json!({"outcome": outcome, "requested": requested, "call_depth_after": interp.call_depth()})
            }
            let mk = || Interpreter::with_config(tsrun::InterpreterConfig { internal_modules: vec![tsrun::create_eval_internal_module()], ..Default::default() });
            let mut shared = mk();
            let mut outs = Vec::new();
            if let Some(a) = req["programs"].as_array() {
                for p in a {
                    let on_shared = drive(&mut shared, p);
                    let mut fresh = mk();
                    let on_fresh = drive(&mut fresh, p);
                    outs.push(json!({"shared": on_shared, "fresh": on_fresh}));
                }
            }
            json!({"outs": outs})
        }
        "module_graph" => {
            // load a module graph: the host supplies the requested sources from a map, in the order asked for or reversed
            let mut interp = Interpreter::new();
            let entry = req["entry"].as_str().unwrap_or("/d/main.ts");
            let modules = req["modules"].as_object().cloned().unwrap_or_default();
            let reverse = req["order"].as_str() == Some("reverse");
            let one_at_a_time = req["batch"].as_str() == Some("one");
            let main_src = modules.get(entry).and_then(|v| v.as_str()).unwrap_or("");
            let mut rounds = Vec::new();
            let mut outcome = json!("running");
            let mut r = interp.prepare(main_src, Some(ModulePath::new(entry)));
            let mut n = 0u64;
            loop {
                n += 1;
                if n > 2_000_000 { outcome = json!({"error": "step budget"}); break; }
                match r {
                    Ok(StepResult::Continue) => { r = interp.step(); }
                    Ok(StepResult::NeedImports(reqs)) => {
                        rounds.push(json!(reqs.iter().map(|x| json!({"specifier": x.specifier, "resolved": x.resolved_path.as_str(),
                            "importer": x.importer.as_ref().map(|p| p.as_str().to_string())})).collect::<Vec<Value>>()));
                        if reqs.is_empty() || rounds.len() > 40 { outcome = json!({"error": "empty or endless NeedImports"}); break; }
                        let mut list: Vec<_> = reqs.into_iter().collect();
                        if reverse { list.reverse(); }
                        if one_at_a_time { list.truncate(1); }
                        let mut failed = false;
                        for rq in list {
                            let key = rq.resolved_path.as_str().to_string();
                            match modules.get(&key).and_then(|v| v.as_str()) {
                                Some(src) => { if let Err(e) = interp.provide_module(rq.resolved_path, src) { outcome = json!({"provide_error": format!("{}", e)}); failed = true; break; } }
                                None => { outcome = json!({"missing_module": key}); failed = true; break; }
                            }
                        }
                        if failed { break; }
                        r = interp.step();
                    }
                    Ok(StepResult::Complete(v)) => { outcome = json!({"complete": js_to_json(v.value())}); break; }
                    Ok(_) => { outcome = json!("other"); break; }
                    Err(e) => { outcome = json!({"error": format!("{}", e)}); break; }
                }
            }
            json!({"rounds": rounds, "outcome": outcome})
        }
        "module_seq" => {
            // first: a main module whose dependency is provided by the host; then an observer script on the SAME interpreter
            let mut interp = Interpreter::new();
            let main = req["main"].as_str().unwrap_or("");
            let dep = req["dep"].as_str().unwrap_or("");
            let observer = req["observer"].as_str().unwrap_or("");
            let mut first = Vec::new();
            let mut r = interp.prepare(main, Some(ModulePath::new("/d/main.ts")));
            let mut n = 0u64;
            loop {
                n += 1;
                if n > 2_000_000 { first.push(json!("step budget")); break; }
                match r {
                    Ok(StepResult::Continue) => { r = interp.step(); }
                    Ok(StepResult::NeedImports(reqs)) => {
                        first.push(json!({"need_imports": reqs.iter().map(|x| x.resolved_path.as_str().to_string()).collect::<Vec<String>>()}));
                        let mut failed = reqs.is_empty();
                        if first.len() > 20 { failed = true; }
                        for rq in reqs {
                            if let Err(e) = interp.provide_module(rq.resolved_path, dep) { first.push(json!({"provide_error": format!("{}", e)})); failed = true; }
                        }
                        if failed { break; }
                        r = interp.step();
                    }
                    Ok(StepResult::Complete(v)) => { first.push(json!({"complete": js_to_json(v.value())})); break; }
                    Ok(_) => { first.push(json!("other")); break; }
                    Err(e) => { first.push(json!({"error": format!("{}", e)})); break; }
                }
            }
            let obs = run_on(&mut interp, observer, None, 2_000_000);
            let fresh = run_program(observer, None, 2_000_000);
            json!({"first": first, "observer": obs, "fresh": fresh})
        }
        "gc_stress" => {
            // the same program with the default collector schedule and with a collection forced between every two steps
            let src = req["src"].as_str().unwrap_or("");
            let normal = run_program(src, Some("/main.ts"), 5_000_000);
            let mut interp = Interpreter::new();
            interp.set_gc_threshold(1);
            let mut r = interp.prepare(src, Some(ModulePath::new("/main.ts")));
            let mut n = 0u64;
            let stressed = loop {
                n += 1;
                if n > 5_000_000 { break json!({"ok": false, "error": "step budget"}); }
                match r {
                    Ok(StepResult::Continue) => { interp.collect(); r = interp.step(); }
                    Ok(StepResult::Complete(v)) => break json!({"ok": true, "value": js_to_json(v.value())}),
                    Ok(_) => break json!({"ok": true, "other": true}),
                    Err(e) => break json!({"ok": false, "error": format!("{}", e)}),
                }
            };
            let a = normal.get("value").cloned().unwrap_or(json!(normal.get("error").cloned()));
            let b = stressed.get("value").cloned().unwrap_or(json!(stressed.get("error").cloned()));
            json!({"normal": a, "stressed": b, "differ": a != b})
        }
        "api_key" => {
            // host API and script must see each other's properties under the same key text
            use tsrun::api;
            let k = req["s"].as_str().unwrap_or("");
            let mut interp = Interpreter::new();
            let mut obj = None;
            if interp.prepare("globalThis.hostObj = {}; globalThis.hostObj", None).is_ok() {
                loop {
                    match interp.step() {
                        Ok(StepResult::Continue) => continue,
                        Ok(StepResult::Complete(v)) => { obj = Some(v); break; }
                        _ => break,
                    }
                }
            }
            let obj = match obj { Some(o) => o, None => return json!({"error": "setup failed"}) };
            let _ = api::set_property(obj.value(), k, JsValue::Number(5.0));
            let kq = serde_json::to_string(k).unwrap_or_default();
            let seen = run_on(&mut interp, &format!("hostObj[{}]", kq), None, 100000);
            let script_sees = seen["value"]["repr"].as_str() == Some("5.0");
            let _ = run_on(&mut interp, &format!("hostObj[{}] = 9; 0", kq), None, 100000);
            let back = api::get_property(obj.value(), k).map(|v| v.as_number()).unwrap_or(None);
            json!({"script_sees_host_write": script_sees, "host_sees_script_write": back == Some(9.0)})
        }
        "number_to_string" => {
            let bits = u64::from_str_radix(req["bits"].as_str().unwrap_or("0"), 16).unwrap_or(0);
            json!({"out": tsrun::value::number_to_string(f64::from_bits(bits)).to_string()})
        }
        "property_key" => {
            // the four routes from a value to a property key
            let mut interp = Interpreter::new();
            let describe = |k: &tsrun::value::PropertyKey| -> Value {
                match k {
                    tsrun::value::PropertyKey::Index(i) => json!({"kind": "index", "index": i}),
                    tsrun::value::PropertyKey::String(s) => json!({"kind": "string", "s": s.as_str()}),
                    tsrun::value::PropertyKey::Symbol(_) => json!({"kind": "symbol"}),
                }
            };
            if let Some(s) = req["s"].as_str() {
                let js = interp.intern(s);
                let a = tsrun::value::PropertyKey::from_value(&JsValue::String(js.clone()));
                let b = interp.property_key(s);
                let c = interp.property_key_from_js_string(js.clone());
                let d = interp.property_key_from_value(&JsValue::String(js));
                json!({"from_value": describe(&a), "property_key": describe(&b), "from_js_string": describe(&c), "interp_from_value": describe(&d)})
            } else {
                let bits = u64::from_str_radix(req["bits"].as_str().unwrap_or("0"), 16).unwrap_or(0);
                let v = JsValue::Number(f64::from_bits(bits));
                let a = tsrun::value::PropertyKey::from_value(&v);
                let d = interp.property_key_from_value(&v);
                json!({"from_value": describe(&a), "interp_from_value": describe(&d)})
            }
        }
        _ => json!({"error": format!("unknown cmd {}", cmd)}),
    }
}

fn main() {
    let stdin = std::io::stdin();
    let stdout = std::io::stdout();
    let mut out = stdout.lock();
    for line in stdin.lock().lines() {
        let line = match line {
            Ok(l) => l,
            Err(_) => break,
        };
        if line.trim().is_empty() {
            continue;
        }
        let req: Value = match serde_json::from_str(&line) {
            Ok(v) => v,
            Err(e) => {
                let _ = writeln!(out, "{}", json!({"error": format!("bad request: {}", e)}));
                continue;
            }
        };
        let r = std::panic::catch_unwind(|| handle(&req));
        let reply = match r {
            Ok(v) => v,
            Err(p) => {
                let msg = if let Some(s) = p.downcast_ref::<String>() {
                    s.clone()
                } else if let Some(s) = p.downcast_ref::<&str>() {
                    s.to_string()
                } else {
                    "panic".to_string()
                };
                json!({"panic": msg})
            }
        };
        let _ = writeln!(out, "{}", reply);
        let _ = out.flush();
    }
}
