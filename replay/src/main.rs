//! Concrete twin of the symbolic kernels: runs requests (one JSON object per stdin line) against the
//! real tsrun build and prints one JSON reply per line.  Used for encoder validation and for replaying
//! solver counterexamples before anything is reported.
use serde_json::{json, Value};
use std::io::{BufRead, Write};
use tsrun::{Interpreter, JsValue, ModulePath, StepResult};

fn js_to_json(v: &JsValue) -> Value {
    match v {
        JsValue::Undefined => json!({"t": "undefined"}),
        JsValue::Null => json!({"t": "null"}),
        JsValue::Boolean(b) => json!({"t": "boolean", "v": b}),
        JsValue::Number(n) => json!({"t": "number", "bits": format!("{:016x}", n.to_bits()), "repr": format!("{:?}", n)}),
        JsValue::String(s) => json!({"t": "string", "v": s.as_str()}),
        JsValue::Symbol(_) => json!({"t": "symbol"}),
        JsValue::Object(_) => json!({"t": "object"}),
    }
}

fn run_program(src: &str, path: Option<&str>, max_steps: u64) -> Value {
    let mut interp = Interpreter::new();
    run_on(&mut interp, src, path, max_steps)
}

fn run_on(interp: &mut Interpreter, src: &str, path: Option<&str>, max_steps: u64) -> Value {
    if let Err(e) = interp.prepare(src, path.map(|p| ModulePath::new(p))) {
        return json!({"ok": false, "phase": "prepare", "error": format!("{}", e)});
    }
    let mut n = 0u64;
    loop {
        n += 1;
        if n > max_steps {
            return json!({"ok": false, "phase": "steps", "error": "step budget exceeded"});
        }
        match interp.step() {
            Ok(StepResult::Continue) => continue,
            Ok(StepResult::Complete(v)) => return json!({"ok": true, "value": js_to_json(v.value()), "steps": n}),
            Ok(StepResult::NeedImports(reqs)) => {
                let l: Vec<Value> = reqs
                    .iter()
                    .map(|r| json!({"specifier": r.specifier, "resolved": r.resolved_path.as_str()}))
                    .collect();
                return json!({"ok": true, "need_imports": l});
            }
            Ok(StepResult::Suspended { pending, cancelled }) => {
                return json!({"ok": true, "suspended": {"pending": pending.len(), "cancelled": cancelled.len()}})
            }
            Ok(StepResult::Done) => return json!({"ok": true, "done": true}),
            Err(e) => return json!({"ok": false, "phase": "run", "error": format!("{}", e)}),
        }
    }
}

fn handle(req: &Value) -> Value {
    let cmd = req["cmd"].as_str().unwrap_or("");
    match cmd {
        "resolve" => {
            let spec = req["spec"].as_str().unwrap_or("");
            let out = match req["importer"].as_str() {
                Some(i) => ModulePath::resolve(spec, Some(&ModulePath::new(i))),
                None => ModulePath::resolve(spec, None),
            };
            json!({"out": out.as_str()})
        }
        "eval" => {
            let src = req["src"].as_str().unwrap_or("");
            let max = req["max_steps"].as_u64().unwrap_or(50_000_000);
            run_program(src, req["path"].as_str(), max)
        }
        "eval_seq" => {
            // several programs on ONE interpreter (C11)
            let mut interp = Interpreter::new();
            let mut outs = Vec::new();
            if let Some(a) = req["programs"].as_array() {
                for p in a {
                    let src = p["src"].as_str().unwrap_or("");
                    outs.push(run_on(&mut interp, src, p["path"].as_str(), 50_000_000));
                }
            }
            json!({"outs": outs})
        }
        "regalloc" => {
            // build a pre-state by a history of public operations, then apply one operation
            let mut b = tsrun::compiler::BytecodeBuilder::new();
            let regs = b.registers();
            if let Some(h) = req["history"].as_array() {
                for step in h {
                    let name = step[0].as_str().unwrap_or("");
                    let arg = step[1].as_u64().unwrap_or(0) as u8;
                    match name {
                        "alloc" => { let _ = regs.alloc(); }
                        "free" => regs.free(arg),
                        "reserve" => { let _ = regs.reserve_range(arg); }
                        "save" => regs.save(),
                        "restore" => regs.restore(),
                        _ => {}
                    }
                }
            }
            let pre = json!({"next": regs.current(), "max_used": regs.max_used()});
            let arg = req["arg"].as_u64().unwrap_or(0) as u8;
            let res = match req["op"].as_str().unwrap_or("") {
                "alloc" => match regs.alloc() { Ok(r) => json!({"ok": r}), Err(e) => json!({"err": format!("{}", e)}) },
                "free" => { regs.free(arg); json!({}) }
                "reserve_range" => match regs.reserve_range(arg) { Ok(r) => json!({"ok": r}), Err(e) => json!({"err": format!("{}", e)}) },
                "save" => { regs.save(); json!({}) }
                "restore" => { regs.restore(); json!({}) }
                _ => json!({"error": "unknown op"}),
            };
            // observe the post-state through further allocations
            let post = json!({"next": regs.current(), "max_used": regs.max_used()});
            let mut following = Vec::new();
            for _ in 0..4 {
                match regs.alloc() { Ok(r) => following.push(json!(r)), Err(_) => following.push(json!("err")) }
            }
            json!({"pre": pre, "result": res, "post": post, "next_allocs": following})
        }
        "add_constants" => {
            let mut b = tsrun::compiler::BytecodeBuilder::new();
            let n = req["count"].as_u64().unwrap_or(0);
            let mut last_ok: Option<u16> = None;
            let mut first_err: Option<u64> = None;
            let mut mismatch: Option<u64> = None;
            for i in 0..n {
                match b.add_constant(tsrun::compiler::Constant::Number(i as f64)) {
                    Ok(idx) => { if idx as u64 != i && mismatch.is_none() { mismatch = Some(i); } last_ok = Some(idx); }
                    Err(_) => { if first_err.is_none() { first_err = Some(i); } }
                }
            }
            json!({"last_ok": last_ok, "first_err_at": first_err, "first_index_mismatch_at": mismatch})
        }
        "number_to_string" => {
            let bits = u64::from_str_radix(req["bits"].as_str().unwrap_or("0"), 16).unwrap_or(0);
            json!({"out": tsrun::value::number_to_string(f64::from_bits(bits)).to_string()})
        }
        "property_key" => {
            // the four routes from a value to a property key
            let mut interp = Interpreter::new();
            let describe = |k: &tsrun::value::PropertyKey| -> Value {
                match k {
                    tsrun::value::PropertyKey::Index(i) => json!({"kind": "index", "index": i}),
                    tsrun::value::PropertyKey::String(s) => json!({"kind": "string", "s": s.as_str()}),
                    tsrun::value::PropertyKey::Symbol(_) => json!({"kind": "symbol"}),
                }
            };
            if let Some(s) = req["s"].as_str() {
                let js = interp.intern(s);
                let a = tsrun::value::PropertyKey::from_value(&JsValue::String(js.clone()));
                let b = interp.property_key(s);
                let c = interp.property_key_from_js_string(js.clone());
                let d = interp.property_key_from_value(&JsValue::String(js));
                json!({"from_value": describe(&a), "property_key": describe(&b), "from_js_string": describe(&c), "interp_from_value": describe(&d)})
            } else {
                let bits = u64::from_str_radix(req["bits"].as_str().unwrap_or("0"), 16).unwrap_or(0);
                let v = JsValue::Number(f64::from_bits(bits));
                let a = tsrun::value::PropertyKey::from_value(&v);
                let d = interp.property_key_from_value(&v);
                json!({"from_value": describe(&a), "interp_from_value": describe(&d)})
            }
        }
        _ => json!({"error": format!("unknown cmd {}", cmd)}),
    }
}

fn main() {
    let stdin = std::io::stdin();
    let stdout = std::io::stdout();
    let mut out = stdout.lock();
    for line in stdin.lock().lines() {
        let line = match line {
            Ok(l) => l,
            Err(_) => break,
        };
        if line.trim().is_empty() {
            continue;
        }
        let req: Value = match serde_json::from_str(&line) {
            Ok(v) => v,
            Err(e) => {
                let _ = writeln!(out, "{}", json!({"error": format!("bad request: {}", e)}));
                continue;
            }
        };
        let r = std::panic::catch_unwind(|| handle(&req));
        let reply = match r {
            Ok(v) => v,
            Err(p) => {
                let msg = if let Some(s) = p.downcast_ref::<String>() {
                    s.clone()
                } else if let Some(s) = p.downcast_ref::<&str>() {
                    s.to_string()
                } else {
                    "panic".to_string()
                };
                json!({"panic": msg})
            }
        };
        let _ = writeln!(out, "{}", reply);
        let _ = out.flush();
    }
}
