#!/bin/bash
# usage: tools/regress_seeds.sh [tier] [ids...] - every seeded change must still be caught (exit 1) by the check of its property.
# Applies each patch to /repo in turn (tools/try_patch.sh restores the tree and the evidence file). Not a registered command.
TIER=${1:-quick}; shift
cd /verif
IDS="$@"; [ -z "$IDS" ] && IDS=$(ls seeded)
for id in $IDS; do
  prop=$(python3 -c "import json;print(json.load(open('seeded/$id/meta.json'))['property'])")
  if ! git -C /repo apply --check /verif/seeded/$id/patch.diff 2>/dev/null; then echo "$id $prop DOES-NOT-APPLY"; continue; fi
  out=$(tools/try_patch.sh /verif/seeded/$id/patch.diff $prop $TIER 2>&1)
  rc=$(echo "$out" | grep -o "exit=[0-9]*" | tail -1)
  echo "$id $prop $rc $(echo "$out" | grep -c '^VIOLATION') violations"
done
