#!/usr/bin/env python3
"""Regenerates MANIFEST.json from the table below (kept in one place so claims stay consistent with DESIGN.md)."""
import json
import os

HERE = os.path.dirname(os.path.dirname(os.path.abspath(__file__)))
props = [json.loads(l) for l in open(os.path.join(HERE, 'properties.jsonl'))]
ids = [p['id'] for p in props]

TRUST = ("Trusted: rustc's MIR printer (nightly; the stable compiler lowers the same source), the MIR executor and the std models "
         "listed in the evidence file, z3 5.1.0 (deciding) with z3 4.8.12 and cvc5 1.0.3 re-deciding the final obligations. "
         "Where a kernel has a concrete twin, encoder and oracles are validated against the real build on fixed and seeded vectors before "
         "any symbolic query. A solver counterexample that is an INPUT is replayed on the real build (dev and release) and only a "
         "reproduced difference is reported; where the counterexample is an interpreter STATE (ledgers, frames) the check replays "
         "witness programs and otherwise reports the symbolic counterexample as such (DESIGN.md 9.2). "
         "A pass says nothing outside the stated kernels and bounds.")
TECH = "SMT-based symbolic execution of the compiler's MIR for the real functions (z3; cvc5 and a second z3 re-decide)"

CHECKS = {
 'C01': dict(design='section 3, C01', text=(
    "Kernel claim only. For EVERY pair of primitive operands (undefined, null, boolean, any f64 bit pattern) the VM arms Sub, Mul, Div, "
    "Neg, Plus, Not, Lt, LtEq, Gt, GtEq, StrictEq, StrictNotEq, Eq, NotEq, the seven bitwise arms, the four conditional jumps, and "
    "JsMapKey eq/hash (SameValueZero, eq => equal hash) are executed symbolically from BytecodeVM::execute_op's MIR and shown equal to the "
    "ECMAScript abstract operations written in SMT. No loop, no bound on values. The relational arms on two strings (value::js_compare) "
    "equal lexicographic order for all byte strings of up to 3 bytes; `==`/`!=` between a number or boolean and a string (<= 3/5 bytes) "
    "compare with the interpreter's own string_to_number (both it and Rust's float parser are uninterpreted functions of the content); "
    "the opcode sequence emitted for ++/-- applies ToNumber to the loaded value before Add/Sub and before the postfix copy. Block-scope "
    "exits are a replay route only (`break`/`continue` leaving a scope open is a known finding). Parser, most of the compiler, objects "
    "and the library - the bulk of the property - are outside the claim.")),
 'C03': dict(design='section 3, C03 (compiler-side kernels; the parser is outside)', text=(
    "Kernel claim, compiler side only. On the real MIR (BytecodeBuilder as events, other Compiler methods abstracted): "
    "compile_statement_impl on TypeAlias / InterfaceDeclaration returns Ok and emits nothing; compile_expression on TypeAssertion / "
    "NonNull / Parenthesized makes exactly one call compile_expression(inner, same destination) and emits nothing else; "
    "collect_import_requests_internal produces a request iff the import / re-export is not type-only; compile_export_declaration on a "
    "type-only export emits nothing; and (relational) in every position where the compiler inspects the shape of an operand - typeof/delete "
    "operand, call callee, template tag, ++/-- operand, the optional-chain functions, inferred names, enum initialisers - compiling X and "
    "compiling `X as T` / `X!` produce the same builder calls and compiler calls for six operand shapes. Concrete annotated-vs-erased "
    "program pairs are a replay route only. Parser side, one kernel: every speculative parse of the type grammar that takes a lexer "
    "checkpoint (`<T>x`, `f<T>(..)`, mapped / function types, the two peeks; other Parser/Lexer methods abstracted) has on every feasible "
    "DECLINING path restored the lexer to the entry checkpoint and the entry current token, so a declined speculation cannot shift how "
    "neighbouring tokens parse. What the speculations ACCEPT (generics vs comparisons, overloads, modifiers, declare) - most of the "
    "property - is not encodable and outside the claim.")),
 'C04': dict(design='section 3, C04 (kernel changed: see DESIGN.md)', text=(
    "Kernel claim: TypeScript's enum auto-increment. Compiler::compile_enum_declaration is executed symbolically (BytecodeBuilder "
    "recorded as events) on two-member enums whose first member is any non-negative finite f64 literal, its negation, or absent: the value "
    "loaded for the member without initialiser equals the TypeScript emit (previous constant + 1 in doubles), forward and reverse stores "
    "are emitted for both members in order, a member WITH an initialiser gets its value from the expression compiler (never a constant "
    "loaded by the declaration itself, so `-0` stays -0), and compilation never panics. Compiler::compile_constructor_body on one "
    "parameter with symbolic accessibility/readonly flags and a one-statement body emits the store `this.x = x` iff the parameter is a "
    "parameter property and before the first body statement is compiled. Seven TypeScript programs (enums with -0 / string "
    "/ mixed members, a namespace merged with a function, constructor parameter properties incl. defaults and early return) are compared "
    "with the JavaScript the TypeScript compiler emits for them - a replay route. EnumData (value.rs) is unreachable from compiled "
    "programs and is not the kernel. Computed/const/merged enums, nested and merged namespaces and abstract classes are outside the claim.")),
 'C05': dict(design='section 3, C05', text=(
    "Kernel claim: compiler-side panic freedom at width boundaries. Every function of src/compiler whose MIR narrows a count to u8/u16 "
    "(array literals, call arguments, template literals, tagged templates, arrow/function/constructor parameter lists, array patterns) is "
    "executed symbolically with AST vector lengths as unconstrained usize (loops abstracted to one arbitrary iteration, other Compiler "
    "methods havoc'd): no feasible arithmetic panic and no silent truncation for ANY construct size; RegisterAllocator::{alloc,free,"
    "reserve_range,save,restore} never panic from any allocator state; compile_enum_declaration never "
    "panics for any numeric literal. Lexer::advance keeps byte position / line / column exact over 3 (thorough 4) symbolic characters; "
    "Lexer::checkpoint -> arbitrary scanning -> Lexer::restore is the identity on every position field and re-creates the character iterator "
    "over source[current_pos..] (any lexer state, ASCII source <= 8 bytes); every speculative parse that takes a lexer checkpoint "
    "(try_parse_angle_bracket_assertion, try_parse_call_with_type_args, try_parse_mapped_type, try_parse_function_type, peek_is, "
    "peek_is_property_name; all other Parser/Lexer methods abstracted) has, on every feasible declining path, restored the lexer to the "
    "entry checkpoint and put back the entry `current` (and `previous` where it was saved) before returning. The parser's recursion depth, "
    "the COST of speculative re-parsing, most of the lexer and 'bounded work' are outside the claim.")),
 'C20': dict(design='section 3, C20', text=(
    "Kernel claim: source-map and stack-trace kernels. (a) For every sequence of up to 4 (thorough 6) BytecodeBuilder set_span/emit "
    "operations with symbolic spans and every instruction index, finish + BytecodeChunk::get_source_location returns the span current at "
    "emission (same start; line/column of the first span of its run), None only before any span. (c) BytecodeVM::build_stack_trace with up "
    "to 2 (3) trampoline frames looks up ip-1 in each frame's own chunk, innermost first, and emits exactly the frames whose lookup "
    "succeeds with that lookup's line/column. Every Compiler method that creates a nested Compiler hands it the source file before using it "
    "(frames name the module, not <eval>). (b) Lexer::advance keeps line/column for every 3 (4) character prefix over a 10-character "
    "alphabet. Whether the compiler sets the right span, frames below native builtins and function names are outside.")),
 'C06': dict(design='section 3, C06', text=(
    "Kernel claim: allocation sizes derived from script numbers. String.prototype.repeat/padStart/padEnd and the Array constructor are "
    "executed symbolically (other callees abstracted) for EVERY f64 size argument and an arbitrary short receiver: on every path the bytes "
    "or elements requested (str::repeat length x count, Vec::with_capacity, or the converted number bounding a fill loop) stay <= 2^31 or "
    "the native returns an error first, and no arithmetic-overflow panic of the size computation is feasible (ToNumber of the argument "
    "executed for real); counterexamples are replayed in a child process (release and dev build) under a 3 GiB address-space limit "
    "(abort/panic/timeout versus catchable error). JsObject::set_property on an array is executed for every u32 index: the length it asks "
    "Vec::resize for must stay <= 2^31 - it does not (`a[4294967294] = 1` aborts the process): a known finding. Bounded work per step, native re-entry depth, stack overflow and the "
    "other natives are outside the claim.")),
 'C07': dict(design='section 3, C07', text=(
    "Kernel claim: the save/restore round trip. BytecodeVM::save_state followed by BytecodeVM::from_saved_state is executed symbolically "
    "on a lazily materialised VM (one register, call frame and scope, zero or one trampoline frame, symbolic numbers/handles): every field "
    "of the VM and of the trampoline frame that carries program-visible state is compared before/after. Seven fields are lost today "
    "(this_value, pending_completion, exception_value, saved_env_stack, current_constructor of the suspended frame; pending_completion and "
    "exception_value of outer frames) - known findings, each with a program that shows the loss through the public API; any OTHER lost "
    "field is a violation. Schedules, batching and promise combinators are outside the claim.")),
 'C09': dict(design='section 3, C09', text=(
    "Kernel claim: request canonicalisation/deduplication and the bind-time resolution base. Interpreter::dedupe_import_requests on up to 3 (4) requests with symbolic "
    "resolved paths keeps exactly the first occurrence of each distinct path in order; Interpreter::collect_import_requests_internal on "
    "programs of up to 2 (3) import/re-export/other statements yields one request per import or re-export, in order, resolved against "
    "resolve_base (ModulePath::resolve uninterpreted here, decided by C18) and carrying the given importer; "
    "Interpreter::resolve_module_specifier (used when a running module body binds its imports) resolves against the module being executed "
    "and against the entry module only when there is none. Four whole graphs (nested directories, diamond under two spellings, a live "
    "binding re-exported through one and through two hops) are loaded through the public API under three supply orders as a replay route. Evaluation order, exactly-once "
    "execution and live bindings in general - the larger part of the property - are outside the symbolic claim.")),
 'C16': dict(design='section 3, C16', text=(
    "Kernel claim: key canonicalisation only. For every string of up to 6 (11) bytes over {0-9,+,-,.,e,space}, PropertyKey::from_value and "
    "the three Interpreter routes (property_key, property_key_from_js_string, property_key_from_value) return Index(i) exactly for the "
    "canonical decimal spelling of i in [0,2^32-1] and otherwise String with unchanged content (no key is rewritten, keys are injective, "
    "all routes agree); for every f64 the two number routes agree; json_to_js_value_with_guard (JSON.parse / create_from_json) and "
    "api::get_property / api::set_property build the same canonical key for every such document/host string (boundary spellings also "
    "through JSON.parse and the host API as a replay route); every Ok path of js_value_to_json_with_visited for an object inserts its id "
    "into the cycle-detection set once and removes it again (a shared acyclic sub-object is not a cycle). serde_json, the rest of "
    "tree<->heap conversion (toJSON, replacer, omitted functions) and escapes are outside.")),
 'C08': dict(design='section 3, C08', text=(
    "Kernel claim: the ledger hand-over step. Interpreter::process_vm_result (every VmResult variant) and Interpreter::step entered with "
    "no active VM are executed symbolically on a lazily materialised Interpreter whose pending/cancelled order lists (any length), "
    "suspended_for_order and waiting-context map are arbitrary: Complete only when nothing is outstanding, every Suspended carries exactly "
    "the old pending/cancelled contents and empties both (handed over exactly once), Suspended only when the host can still act, Done "
    "only when nothing waits. Interpreter::fulfill_orders adds every response (0-2 symbolic ones) to the table the resume step reads and "
    "drops nothing; __cancelOrder__(id) appends an allocated id to cancelled_orders exactly once for every number argument; "
    "BytecodeVM::inject_exception - how an error response re-enters the program - reports 'no handler' only after the whole trampoline "
    "stack was searched. A scripted host over the real interpreter (batch / one call per response / extra empty call / error responses) "
    "is a replay route. Who files orders, promise settlement, combinators and most of the resume half of step are outside the claim.")),
 'C11': dict(design='section 3, C11', text=(
    "Kernel claim: terminal-step bookkeeping. Interpreter::step with an active VM (BytecodeVM::step havoc'd to any VmStepResult and any "
    "change of interpreter state except the run bookkeeping) plus finalize_active_execution/process_vm_result: after a terminal Complete "
    "or Err the environment is the one saved at prepare() and active_saved_env/active_module_env/active_module_path are cleared; a run "
    "that can continue keeps them. execute_pending_module, finalize_active_execution, abandon_active_execution and eval restore the "
    "environment they replaced on every path to a return (a compile error after the module environment was installed is assumed away in "
    "those four). prepare / setup_vm_from_program remember the environment at entry; the interpreter call_stack is popped once per VM "
    "frame left and pushed iff a frame is pushed; and prepare / eval started from an ARBITRARY earlier interpreter state (a run that "
    "failed, was abandoned or is suspended: ledgers of symbolic length, symbolic Options) hand the new run over with empty call_stack, "
    "env_guards, exports, order ledgers, wait graph, suspended_for_order, main_module_path equal to the given path and the dead run's "
    "start environment restored. Seven two-program sequences through the public API are a replay route. What happens inside the VM "
    "between two steps is outside the claim.")),
 'C19': dict(design='section 3, C19', text=(
    "Kernel claim (relational): Interpreter::run_vm_to_completion (eval route) and Interpreter::process_vm_result (step route) executed "
    "from the same symbolic interpreter state on the same symbolic VmResult return the same Result<StepResult,_>, make the same calls with "
    "the same arguments in the same order and leave the same ledger, on every jointly feasible path pair; eval restores the environment "
    "on every path like the step route does, or hands a suspended run over with the start environment remembered; the request list "
    "prepare, eval and setup_vm_from_program hand to the host is the one dedupe_import_requests returned (or process_pending_modules' own). "
    "Ten programs are "
    "run through eval and through prepare+step to the END with the same scripted host (results, request lists, order traffic compared) "
    "and one module is consumed as entry program and as host-supplied dependency - replay routes. Export finalisation as such, the C API "
    "and vm.run vs vm.step are outside the claim (a few concrete eval-vs-step programs are only a replay route).")),
 'C10': dict(design='section 3, C10', text=(
    "Kernel claim. (a) One operation of RegisterAllocator::{alloc,free,reserve_range,save,restore} from an ARBITRARY pre-state satisfying "
    "the representation invariant (itself proved inductive): handed-out registers are never live, stay below max_used <= 255, Err only "
    "when nothing fits; free lists up to 3 (quick) / 6 (thorough) entries, all register values. (b) BytecodeBuilder::add_constant for any "
    "pool length (index == old length < 65535 or Err), emit_load_number for every f64 (LoadInt only when exact). 'Limits are never "
    "cumulative', nesting depth and run-time lengths are outside the claim.")),
 'C02': dict(design='section 3, C02', text=(
    "Kernel claim, a necessary condition only: register-write guarding. On every path of BytecodeVM::set_reg, set_resume_value and "
    "from_saved_state (symbolic old/new values: numbers, object handles, undefined) an object that ends up in a register slot was passed "
    "to Guard::guard on the VM's own register_guard first, the slot holds the new value, a displaced object is unguarded only after the "
    "new one was guarded, and from_saved_state guards every restored register, `this` and call-frame environment on the guard it then "
    "owns and the registers of a suspended outer frame on the guard that frame owns. The guard discipline of the ~400 natives, Traceable for JsObject and the collector are outside the claim.")),
 'C13': dict(design='section 3, C13', engine='E-Kani', technique='bounded model checking of the compiled code with Kani/CBMC (SAT), all values, unwinding assertions on', text=(
    "Kernel claim: the unsafe bitmap kernels of src/gc.rs, decided by Kani/CBMC for ALL values: ChunkBitmask::{set,get,clear} for every "
    "256-bit mask and index < 256 (including in-bounds-ness of the unchecked accesses); UnmarkedIter::next for a fresh iterator and as an "
    "inductive step from any iterator state satisfying its representation invariant (returns the minimum of the remaining unmarked set "
    "below len and removes exactly it, invariant re-established); the chunk*256+slot index arithmetic. History-level behaviour of Space "
    "(mark/sweep/pool/ref-counts, stale handles, dropping the heap) is NOT decided."),
    note="Trusted: Kani 0.68 / CBMC 6.11 with CaDiCaL on the code compiled by Kani's pinned toolchain; harnesses are a cfg(kani) child module of gc.rs overlaid on a scratch copy of /repo (the repository is not modified). kani::cover! witnesses must be SATISFIED (vacuity). A failing harness is reported with the Kani log as replay artefact."),
 'C14': dict(design='section 9.6, C14 (rebuilt as an inductive invariant)', text=(
    "Kernel claim: the env-guard ledger. Interpreter::env_guards is touched by push_env_guard/pop_env_guard/push_scope/pop_scope only; the "
    "set of functions calling one of them directly is recomputed from the MIR on every run and each gets a contract, all other callees "
    "abstracted by assume-guarantee (arbitrary result and &mut data, no effect on env_guards / vm.saved_env_stack / vm.trampoline_stack). "
    "From an ARBITRARY VM state with symbolic vector lengths, restore_from_trampoline_frame, handle_error_with_trampoline_unwind, "
    "push_trampoline_frame_and_call_bytecode(_construct), find_exception_handler, unwind_frame_scopes and the PushScope/PopScope arms of "
    "execute_op preserve G == B + T + |saved_env_stack| (T = sum over trampoline frames of 1 + |frame.saved_env_stack|) on every path "
    "(one solver query each; loops unrolled 3 times); a VM that gives up or reports Terminal(Complete) leaves no frame and no open scope; "
    "call_bytecode_function_with_new_target, eval_code_in_scope_with_this and any new user are balanced; execute_op has no other call "
    "site of a primitive. A concrete companion runs 16 self-contained programs repeatedly and compares live-object counts after "
    "collect(). Generators (their saved state does not carry saved_env_stack: known finding), break/continue out of a block inside one "
    "activation, the collector and root_guard misuse are outside the claim.")),
 'C15': dict(design='section 3, C15', text=(
    "Kernel claim. (a) ToInt32/ToUint32: the seven bitwise VM arms on every f64 bit pattern and undefined/null/boolean operands equal "
    "the ECMAScript definitions written over the IEEE-754 bit fields (complete operand domain, no bound). (b) PropertyKey::from_value on "
    "numbers is Index(i) iff the number is an integer in [0,2^32-1]. (c) value::number_to_string takes the integer/exponential/decimal "
    "route exactly on the ECMAScript ranges (1e21, 1e-6). (d) The whitespace predicate of StringToNumber is true exactly for the "
    "ECMAScript WhiteSpace/LineTerminator code points, for every Unicode scalar value. The digits number_to_string prints are compared "
    "with an independent shortest-repr oracle on boundary and seeded random doubles - a replay route, not part of the symbolic claim. "
    "toFixed/toPrecision/toExponential/radix and decimal string->number parsing are outside the claim.")),
 'C17': dict(design='section 3, C17', text=(
    "Kernel claim: NULL-argument totality. From the MIR dump built with --features c-api, each of the 64 extern \"C\" tsrun_* entry points "
    "is executed symbolically with every pointer parameter independently NULL or valid (helpers in src/ffi executed for real, everything "
    "behind them abstracted): on every feasible path no caller-supplied pointer is dereferenced (a *p place, CStr::from_ptr, "
    "slice::from_raw_parts, Box::from_raw, ptr::read/write) while it may still be NULL - also inside closures the entry point hands to "
    "iterators or other abstracted callees (each is run once on arbitrary arguments; `(a..b).map(f).collect()` runs f only when a < b). Entry points whose exploration exceeds the path "
    "budget are listed as not encoded. Lifetimes, use-after-free, string validity and re-entrancy are outside the claim.")),
 'C18': dict(design='section 3, C18', text=(
    "Whole property within bounds. Symbolic execution of the real MIR of ModulePath::{resolve,normalize_path,parent,is_bare,is_relative} "
    "for EVERY specifier and importer (present or absent) within the byte bounds (quick: spec<=6, importer<=6, <=3 slashes; thorough: "
    "spec<=7, importer<=7, <=3 slashes) over the alphabet '/.abts': on each feasible path the solver shows the result equals a reference "
    "resolver written from the property statement, is a canonical absolute path when the importer is absolute, is a fixed point of "
    "resolve, and that bare specifiers are untouched.")),
}

NA = {
 'C12': "determinism and instance isolation are statements about the ABSENCE of shared/ambient state (statics, address-dependent hashing, allocator reuse) across runs, threads and processes; no function's input/output behaviour encodes them, and neither Kani nor the MIR executor has a notion of process restarts or address randomisation (DESIGN.md section 5)",
}

engines = [
 {"name": "E-Kani", "path": "kani/", "serves_properties": ["C13"],
  "kind_free_text": "Kani 0.68 proof harnesses (kani/gc_h.rs) overlaid as a cfg(kani) child module of src/gc.rs on a scratch copy of /repo; CBMC 6.11 + CaDiCaL decide"},
 {"name": "E-MIR", "path": "emir/", "serves_properties": sorted(k for k in CHECKS if k != 'C13'),
  "kind_free_text": "symbolic executor for rustc MIR (nightly -Zunpretty=mir dump of /repo's working tree, regenerated whenever a source "
                    "byte changes) emitting SMT; z3 5.1.0 decides, z3 4.8.12 and cvc5 re-decide final obligations; counterexamples are "
                    "replayed on the real build via replay/"},
]

checks = []
for pid in sorted(CHECKS):
    c = CHECKS[pid]
    checks.append({
        "property_id": pid,
        "quick_cmd": "./check %s --tier quick" % pid,
        "thorough_cmd": "./check %s --tier thorough" % pid,
        "evidence_file": "evidence/%s.json" % pid,
        "replay_cmd_template": "./check %s --replay {path}" % pid,
        "engine": c.get('engine', 'E-MIR'),
        "level_claimed": {"category": "model_checking", "text": c['text'], "design_ref": "DESIGN.md " + c['design']},
        "level_note": c.get('note', TRUST),
        "technique": c.get('technique', TECH),
    })

na = []
for pid in ids:
    if pid in CHECKS:
        continue
    na.append({"property_id": pid, "reason": NA.get(pid, "kernel check designed in DESIGN.md section 3 but not built/registered yet in this tree")})

m = {
 "version": 1,
 "setup_cmd": "./setup.sh",
 "hooks": {
  "guard": "none - no source hooks: checks read the compiler's MIR dump of /repo's working tree; Kani harnesses are overlaid on a scratch copy under cfg(kani)",
  "enable": "n/a - nothing in /repo is guarded; ./check regenerates the MIR dump from /repo's current tree whenever a source byte changes",
  "baseline_off_cmd": "cd /repo && cargo nextest run --workspace --no-fail-fast --tool-config-file pb:/w/lib/nextest.toml --profile pb --test-threads 8 --offline",
  "source_commits": [],
  "add_only": True,
 },
 "engines": engines,
 "checks": checks,
 "not_applicable": na,
 "notes": "Every check: exit 0 = all obligations unsat within the stated bounds (KNOWN-FINDING lines for listed findings); exit 1 + "
          "'VIOLATION property=<id> replay=<path>' = a solver counterexample that reproduced on the real build; exit 2 = inconclusive "
          "(timeout, unmodelled callee, unwinding bound too small, encoder/real mismatch, solver disagreement) - never a pass. "
          "Fix commits in /repo: see known_findings.json ('fixed' entries).",
}
json.dump(m, open(os.path.join(HERE, 'MANIFEST.json'), 'w'), indent=1)
print('claimed:', sorted(CHECKS), 'n/a:', len(na))
