#!/usr/bin/env python3
"""usage: tools/save_seed.py <SEED-DIR-ID> <n> <CHECK-ID> <dest-name> "<needs_to_manifest>"
Copy /tmp/seed-<ID>/{patch<n>.diff,demo<n>.rs,notes<n>.md,confirm<n>.txt} into /verif/seeded/<dest-name>/, run the
check against /repo with the patch applied (tools/try_patch.sh) and record the result in meta.json."""
import json
import os
import shutil
import subprocess
import sys

sid, n, check, dest, needs = sys.argv[1:6]
sd = '/tmp/seed-%s' % sid
dd = '/verif/seeded/%s' % dest
os.makedirs(dd, exist_ok=True)
shutil.copy('%s/patch%s.diff' % (sd, n), dd + '/patch.diff')
shutil.copy('%s/demo%s.rs' % (sd, n), dd + '/demo.rs')
shutil.copy('%s/notes%s.md' % (sd, n), dd + '/notes.md')
confirm = open('%s/confirm%s.txt' % (sd, n)).read().splitlines()
head = subprocess.run(['git', '-C', '/repo', 'rev-parse', '--short', 'HEAD'], capture_output=True, text=True).stdout.strip()
r = subprocess.run(['/verif/tools/try_patch.sh', dd + '/patch.diff', check, 'quick'], capture_output=True, text=True)
out = [l for l in r.stdout.splitlines() if l.strip()]
rc = None
for l in out:
    if l.startswith('exit='):
        rc = int(l[5:])
first = open(dd + '/notes.md').read().strip().splitlines()[0].lstrip('# ').strip()
meta = {
    'id': dest, 'property': check,
    'origin': 'sub-agent given only the property text and its own git worktree of /repo (nothing from /verif)',
    'what': first, 'needs_to_manifest': needs, 'applies_to_repo_head': head,
    'confirmed_by_me': {
        'how': 'tools/confirm_suite.sh %s %s in worktree /tmp/wt-%s: git apply, full existing suite (cargo nextest, 2454 tests), '
               'demo test with and without the patch' % (sid, n, sid),
        'log': confirm},
    'checked_with': {'cmd': 'tools/try_patch.sh seeded/%s/patch.diff %s quick' % (dest, check), 'exit': rc,
                     'output': [l[:300] for l in out if not l.startswith('exit=')]},
    'caught': rc == 1,
}
json.dump(meta, open(dd + '/meta.json', 'w'), indent=1)
print(dest, 'exit', rc, 'caught' if rc == 1 else 'NOT CAUGHT')
for l in out[:4]:
    print('   ', l[:200])
