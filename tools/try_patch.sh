#!/bin/sh
# usage: tools/try_patch.sh <patch.diff> <PROPERTY-ID> [tier]  - apply a seeded change to /repo, run one check, undo.
# The evidence file of the property is preserved (evidence must describe the unchanged tree).
P="$1"; ID="$2"; TIER="${3:-quick}"
# one patched tree at a time: /repo is shared
exec 9>/tmp/try_patch.lock; flock 9
cd /repo || exit 9
git apply "$P" || { echo "patch does not apply"; exit 9; }
cd /verif
cp evidence/$ID.json /tmp/evidence.$ID.$$ 2>/dev/null
./check "$ID" --tier "$TIER" > /tmp/try_patch.$$.log 2>&1
RC=$?
grep -E "^VIOLATION|^INCONCLUSIVE|^KNOWN-FINDING|^C[0-9]+ (quick|thorough)" /tmp/try_patch.$$.log | cut -c1-330 | head -8
grep -A1 "^VIOLATION" /tmp/try_patch.$$.log | grep -v "^VIOLATION\|^--" | cut -c1-260 | head -3
echo "exit=$RC"
rm -f /tmp/try_patch.$$.log
[ -f /tmp/evidence.$ID.$$ ] && mv /tmp/evidence.$ID.$$ evidence/$ID.json
git -C /repo checkout -- .
