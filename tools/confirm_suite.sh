#!/bin/bash
# usage: confirm_suite.sh <ID> <n> : full existing suite + demo with/without the patch, at the worktree's current HEAD
ID=$1; N=$2; WT=/tmp/wt-$ID; SD=/tmp/seed-$ID; OUT=$SD/confirm$N.txt
cd $WT || exit 9
git checkout -q -- . ; rm -f tests/seed_demo.rs
{
echo "== confirm $ID patch$N at $(git rev-parse --short HEAD) $(date -u +%FT%TZ)"
git apply $SD/patch$N.diff && echo "patch applies"
echo "-- existing test suite with patch"
cargo nextest run --workspace --no-fail-fast --offline --test-threads 5 2>&1 | grep -E "^\s*Summary|^error" | head -3
cp $SD/demo$N.rs tests/seed_demo.rs
echo "-- demo with patch (must FAIL)"
cargo test --offline $FEAT --test seed_demo 2>&1 | grep -E "^test result|^error" | head -3
git checkout -q -- .
echo "-- demo without patch (must PASS)"
cargo test --offline $FEAT --test seed_demo 2>&1 | grep -E "^test result|^error" | head -3
rm -f tests/seed_demo.rs
git status --short | head -3
} > $OUT 2>&1
