//! Host-held result of api::call_method must survive a collection as long as
//! the guard it was registered with is alive.
use serde_json::json;
use tsrun::{api, Interpreter, JsValue};

#[test]
fn call_method_result_survives_host_collect() {
    let mut interp = Interpreter::new();
    let guard = api::create_guard(&interp);
    let arr = api::create_from_json(&mut interp, &guard, &json!([10, 20, 30, 40])).unwrap();

    // slice() returns a fresh array that only the host knows about.
    let sliced = api::call_method(&mut interp, &guard, &arr, "slice", &[JsValue::from(1)]).unwrap();
    assert_eq!(api::len(&sliced), Some(3));

    // Host forces a collection between two API calls.
    interp.collect();

    assert!(api::is_array(&sliced), "result of call_method was reclaimed");
    assert_eq!(api::len(&sliced), Some(3));
    assert_eq!(api::get_index(&sliced, 0).unwrap().as_number(), Some(20.0));

    // Same with automatic collection on subsequent allocations.
    interp.set_gc_threshold(1);
    let mapped = api::call_method(&mut interp, &guard, &arr, "concat", &[]).unwrap();
    for _ in 0..8 {
        let _ = api::create_object(&mut interp, &guard).unwrap();
    }
    assert_eq!(api::len(&mapped), Some(4));
    assert_eq!(api::get_index(&mapped, 3).unwrap().as_number(), Some(40.0));
    assert_eq!(api::len(&arr), Some(4));
}
