//! Objects used as Map keys stay alive (and keep their identity) for as long
//! as the Map is reachable, no matter when the collector runs.
use tsrun::{Interpreter, StepResult};

const SRC: &str = r#"
const m = new Map();
function fill() {
    for (let i = 0; i < 5; i++) { m.set({ id: i }, "v" + i); }
}
fill();
// unrelated allocation pressure
let junk = [];
for (let i = 0; i < 300; i++) { junk.push({ j: i }); }
let sum = 0;
for (const [k, v] of m) { sum += k.id; }
const fresh = { id: 99 };
const ids = [];
m.forEach((v, k) => { ids.push(String(k.id)); });
String(sum) + ":" + m.has(fresh) + ":" + m.size + ":" + ids.join(",")
"#;

fn run_with(threshold: Option<usize>, force: bool) -> String {
    let mut interp = Interpreter::new();
    if let Some(t) = threshold {
        interp.set_gc_threshold(t);
    }
    interp.prepare(SRC, None).unwrap();
    let mut n = 0usize;
    loop {
        match interp.step().unwrap() {
            StepResult::Continue => {
                n += 1;
                if force && n % 50 == 0 {
                    interp.collect();
                }
            }
            StepResult::Complete(v) => {
                return v.value().as_str().map(|s| s.to_string()).unwrap_or_else(|| format!("{:?}", v.value()));
            }
            _ => panic!("unexpected step result"),
        }
    }
}

#[test]
fn map_object_keys_survive_collection() {
    let expected = "10:false:5:0,1,2,3,4";
    assert_eq!(run_with(Some(0), false), expected, "gc disabled");
    assert_eq!(run_with(None, false), expected, "default threshold");
    assert_eq!(run_with(Some(1), false), expected, "threshold 1");
    assert_eq!(run_with(Some(7), false), expected, "threshold 7");
    assert_eq!(run_with(Some(0), true), expected, "host-forced collect");
}
