// Demo for seeded defect 1 (C18): an absolute specifier with a trailing slash
// and no dot segments must still be canonicalised (no trailing slash), and two
// spellings of the same file must resolve to equal paths.
use tsrun::ModulePath;

#[test]
fn absolute_specifier_trailing_slash_is_removed() {
    let base = ModulePath::new("/src/app/main.ts");

    // Sanity: these work with and without the defect.
    assert_eq!(ModulePath::resolve("/lib/./util/", Some(&base)).as_str(), "/lib/util");
    assert_eq!(ModulePath::resolve("./util/", Some(&base)).as_str(), "/src/app/util");

    // The specific trigger: absolute, trailing slash, no '.', '..' or '//' anywhere.
    let r = ModulePath::resolve("/lib/util/", Some(&base));
    assert_eq!(r.as_str(), "/lib/util", "trailing slash must be removed");
    assert!(!r.as_str().ends_with('/'));

    // Two spellings of the same file resolve to equal paths.
    assert_eq!(
        ModulePath::resolve("/lib/util/", None),
        ModulePath::resolve("/lib/util", None)
    );
    assert_eq!(
        ModulePath::resolve("/lib/util/", None),
        ModulePath::resolve("../../lib/util/", Some(&base))
    );
}
