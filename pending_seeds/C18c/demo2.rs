// Demo for seeded defect 2 (C18): a "./" specifier whose LAST segment is '.' or
// '..' (so it contains no "./" or "../" hop after the prefix) must still be
// canonicalised against the importer's directory.
use tsrun::ModulePath;

#[test]
fn dot_segment_at_end_of_relative_specifier_is_removed() {
    let base = ModulePath::new("/src/app/main.ts");

    // Sanity: these work with and without the defect.
    assert_eq!(ModulePath::resolve("./utils.ts", Some(&base)).as_str(), "/src/app/utils.ts");
    assert_eq!(ModulePath::resolve("./a/../b.ts", Some(&base)).as_str(), "/src/app/b.ts");
    assert_eq!(ModulePath::resolve("../lib/..", Some(&base)).as_str(), "/src");
    assert_eq!(ModulePath::resolve("./lib/..", None).as_str(), "");

    // The specific trigger: './' prefix, then a trailing '..' or '.' segment.
    let r = ModulePath::resolve("./lib/..", Some(&base));
    assert_eq!(r.as_str(), "/src/app", "trailing '..' must be resolved");
    let r = ModulePath::resolve("./..", Some(&base));
    assert_eq!(r.as_str(), "/src", "'./..' is the importer's grandparent directory");
    let r = ModulePath::resolve("./lib/.", Some(&base));
    assert_eq!(r.as_str(), "/src/app/lib", "trailing '.' must be removed");

    // No '.'/'..' segment survives, and resolving again changes nothing.
    for spec in ["./lib/..", "./..", "./lib/.", "./a/b/.."] {
        let r = ModulePath::resolve(spec, Some(&base));
        assert!(
            r.as_str().split('/').all(|s| s != "." && s != ".."),
            "{spec:?} -> {:?} still has dot segments",
            r.as_str()
        );
        assert_eq!(ModulePath::resolve(r.as_str(), Some(&base)), r);
    }

    // Two spellings of the same file resolve to equal paths.
    assert_eq!(
        ModulePath::resolve("./lib/..", Some(&base)),
        ModulePath::resolve("./lib/../", Some(&base))
    );
}
