use tsrun::gc::{GcPtr, Traceable};
use tsrun::{Gc, Heap, Reset};

#[derive(Default)]
struct Obj {
    value: i32,
    refs: Vec<Gc<Obj>>,
}

impl Reset for Obj {
    fn reset(&mut self) {
        self.value = 0;
        self.refs.clear();
    }
}

impl Traceable for Obj {
    fn trace<F: FnMut(GcPtr<Self>)>(&self, mut visitor: F) {
        for r in &self.refs {
            visitor(r.copy_ref());
        }
    }
}

/// 100 slots in one chunk (last chunk partially filled, tail word 64..99 partial).
/// Objects 64..99 are unguarded and their handles dropped -> unreachable.
/// After collect() exactly the 64 reachable objects may be counted live and the
/// 36 others must be reset and reusable.
#[test]
fn garbage_in_partial_tail_word_is_swept() {
    let heap: Heap<Obj> = Heap::new();
    heap.set_gc_threshold(0);
    let g = heap.create_guard();

    let mut objs: Vec<Gc<Obj>> = Vec::new();
    for i in 0..100 {
        let o = g.alloc();
        o.borrow_mut().value = i + 1;
        objs.push(o);
    }
    assert_eq!(heap.stats().live_objects, 100);

    // Make 64..99 unreachable.
    let tail: Vec<Gc<Obj>> = objs.split_off(64);
    for o in &tail {
        assert!(g.unguard(o));
    }
    let probe = tail[10].clone(); // stale handle, only used to observe the reset
    drop(tail);

    heap.collect();

    let stats = heap.stats();
    assert_eq!(stats.total_objects, 100);
    assert_eq!(
        stats.live_objects, 64,
        "exactly the objects reachable from live guards are live after collect()"
    );
    assert_eq!(stats.pooled_objects, 36);
    assert_eq!(probe.borrow().value, 0, "unreachable object must have been reset");

    // survivors keep their contents
    for (i, o) in objs.iter().enumerate() {
        assert_eq!(o.borrow().value, i as i32 + 1);
    }

    // and the swept slots are reusable: 36 more allocations need no new slots
    let g2 = heap.create_guard();
    for _ in 0..36 {
        g2.alloc();
    }
    assert_eq!(heap.stats().total_objects, 100);
}
