use tsrun::gc::{GcPtr, Traceable};
use tsrun::{Gc, Heap, Reset};

#[derive(Default)]
struct Obj {
    value: i32,
    refs: Vec<Gc<Obj>>,
}

impl Reset for Obj {
    fn reset(&mut self) {
        self.value = 0;
        self.refs.clear();
    }
}

impl Traceable for Obj {
    fn trace<F: FnMut(GcPtr<Self>)>(&self, mut visitor: F) {
        for r in &self.refs {
            visitor(r.copy_ref());
        }
    }
}

/// Baseline: two stale handles to a collected slot, dropped after the slot is
/// reused, drive the new tenant's ref_count to 0 -> it is reset and pooled
/// although it is still reachable from a live guard.
#[test]
fn stale_handles_kill_new_tenant() {
    let heap: Heap<Obj> = Heap::new();
    heap.set_gc_threshold(0);
    let g1 = heap.create_guard();
    let g2 = heap.create_guard();

    let holder = g2.alloc(); // slot 0, stays guarded throughout
    let a = g1.alloc(); // slot 1
    let a2 = a.clone();
    g1.unguard(&a);
    heap.collect(); // slot 1 pooled; a, a2 are stale
    assert_eq!(heap.stats().live_objects, 1);

    let b = g2.alloc(); // reuses slot 1
    assert_eq!(b.id(), a.id());
    b.borrow_mut().value = 7;
    holder.borrow_mut().refs.push(b.clone());

    drop(a);
    drop(a2);
    drop(b);
    // b is guarded by g2 directly and via holder
    assert_eq!(heap.stats().live_objects, 2, "b still reachable from g2");
    assert_eq!(holder.borrow().refs[0].borrow().value, 7, "b keeps contents");
    heap.collect();
    assert_eq!(heap.stats().live_objects, 2);
}
