//! C05 seed demo 2: every source text is accepted or rejected cleanly, in
//! bounded time.
//!
//! Ambient class declarations (`declare class X { ... }`) are skipped by the
//! parser.  A body that contains something that is not a member must be
//! rejected (or accepted) promptly - it must not make the parser spin.

use std::sync::mpsc;
use std::thread;
use std::time::Duration;

use tsrun::parser::Parser;
use tsrun::string_dict::StringDict;

/// Parse `source` on a helper thread; Some(is_ok) if it finished within the
/// time limit, None if it is still running.
fn parse_with_timeout(source: &'static str, limit: Duration) -> Option<bool> {
    let (tx, rx) = mpsc::channel();
    thread::spawn(move || {
        let mut dict = StringDict::new();
        let mut parser = Parser::new(source, &mut dict);
        let ok = parser.parse_program().is_ok();
        let _ = tx.send(ok);
    });
    rx.recv_timeout(limit).ok()
}

const LIMIT: Duration = Duration::from_secs(10);

#[test]
fn well_formed_ambient_classes_are_accepted() {
    for src in [
        "declare class A { }",
        "declare class A { x: number; y?: string; }",
        "declare class A { constructor(a: number); m(): void; static s: number; }",
        "declare class A { new (x: number): A; [k]: number; }",
    ] {
        assert_eq!(parse_with_timeout(src, LIMIT), Some(true), "source: {}", src);
    }
}

#[test]
fn malformed_ambient_class_bodies_terminate() {
    for src in [
        "declare class A { 1 }",
        "declare class A { + }",
        "declare class A { x: number; ( }",
        "declare class A { x: number; => y }",
        "declare class A { static 42; }",
        "declare class A { ) }",
        "declare class A { ;; }",
        "declare class A { x: number; ;",
    ] {
        let outcome = parse_with_timeout(src, LIMIT);
        assert!(
            outcome.is_some(),
            "parser did not finish within {:?} on: {}",
            LIMIT,
            src
        );
    }
}
