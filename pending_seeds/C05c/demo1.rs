//! C05 seed demo 1: every source text is accepted or rejected cleanly.
//!
//! An array literal of N elements needs N consecutive registers.  Whatever N is,
//! compiling it must either succeed or return an error value; it must never
//! panic.  The interesting N is the one where the reserved range ends exactly at
//! the top of the 8-bit register file.

use std::panic::{AssertUnwindSafe, catch_unwind};

use tsrun::compiler::Compiler;
use tsrun::parser::Parser;
use tsrun::string_dict::StringDict;
use tsrun::{Interpreter, JsValue};

fn array_source(n: usize) -> String {
    let mut s = String::from("const a = [");
    for i in 0..n {
        if i > 0 {
            s.push(',');
        }
        s.push('0');
    }
    s.push_str("]; a.length");
    s
}

/// Ok(true) = compiled, Ok(false) = clean error, Err = panic.
fn compile_outcome(source: &str) -> Result<bool, String> {
    catch_unwind(AssertUnwindSafe(|| {
        let mut dict = StringDict::new();
        let mut parser = Parser::new(source, &mut dict);
        let program = match parser.parse_program() {
            Ok(p) => p,
            Err(_) => return false,
        };
        Compiler::compile_program(&program).is_ok()
    }))
    .map_err(|e| {
        e.downcast_ref::<String>()
            .cloned()
            .or_else(|| e.downcast_ref::<&str>().map(|s| s.to_string()))
            .unwrap_or_else(|| "panic".to_string())
    })
}

#[test]
fn array_literals_of_every_size_compile_or_fail_cleanly() {
    let mut panics = Vec::new();
    for n in 0..=300usize {
        if let Err(msg) = compile_outcome(&array_source(n)) {
            panics.push((n, msg));
        }
    }
    assert!(
        panics.is_empty(),
        "compiler panicked on array literals of these sizes: {:?}",
        panics
    );
}

#[test]
fn call_argument_lists_of_every_size_compile_or_fail_cleanly() {
    let mut panics = Vec::new();
    for n in 0..=300usize {
        let args = vec!["0"; n].join(",");
        let src = format!("function f() {{ return arguments.length; }} f({});", args);
        if let Err(msg) = compile_outcome(&src) {
            panics.push((n, msg));
        }
    }
    assert!(
        panics.is_empty(),
        "compiler panicked on call argument lists of these sizes: {:?}",
        panics
    );
}

#[test]
fn accepted_array_literals_have_the_written_length() {
    // Whatever is accepted must also mean what was written (a wrapped register
    // cursor would silently clobber r0.. instead of panicking in release builds).
    for n in 240..=260usize {
        let src = array_source(n);
        let outcome = catch_unwind(AssertUnwindSafe(|| {
            let mut interp = Interpreter::new();
            interp.eval_bytecode(&src)
        }));
        match outcome {
            Ok(Ok(JsValue::Number(len))) => assert_eq!(len as usize, n, "wrong length for n={}", n),
            Ok(Ok(_)) => panic!("non-number result for n={}", n),
            Ok(Err(_)) => {} // clean rejection is fine
            Err(_) => panic!("evaluation panicked for an array literal of {} elements", n),
        }
    }
}
