//! C06 demo 1: a call through a bound function must stay under host control.
//!
//! The host drives the script with step() and counts steps. A loop of N
//! iterations inside a function needs at least N host-visible steps, whichever
//! way the function was called. If the call is executed by a nested VM run inside
//! one step(), the host sees only a handful of steps and can neither time the
//! script out nor observe its call depth.

use tsrun::{Interpreter, StepResult};

/// Steps the program to completion; returns (steps, max call depth seen, result).
fn drive(src: &str, budget: usize) -> (usize, usize, f64) {
    let mut interp = Interpreter::new();
    let first = interp.prepare(src, None).expect("prepare");
    assert!(matches!(first, StepResult::Continue));
    let mut steps = 0usize;
    let mut max_depth = 0usize;
    loop {
        assert!(steps < budget, "step budget exhausted");
        steps += 1;
        match interp.step().expect("step") {
            StepResult::Continue => {
                max_depth = max_depth.max(interp.call_depth());
            }
            StepResult::Complete(v) => {
                return (steps, max_depth, v.as_number().expect("number result"));
            }
            other => panic!("unexpected step result: {:?}", other),
        }
    }
}

const N: usize = 20_000;

#[test]
fn plain_call_is_stepped() {
    let src = format!(
        "function spin() {{ let i = 0; while (i < {N}) {{ i++; }} return i; }}\nspin()"
    );
    let (steps, depth, result) = drive(&src, 10_000_000);
    assert_eq!(result, N as f64);
    assert!(steps > N, "plain call: only {steps} steps for {N} iterations");
    assert!(depth >= 1, "plain call: call depth never visible to the host");
}

#[test]
fn bound_call_is_stepped() {
    let src = format!(
        "function spin() {{ let i = 0; while (i < {N}) {{ i++; }} return i; }}\n\
         const bound = spin.bind(null);\n\
         bound()"
    );
    let (steps, depth, result) = drive(&src, 10_000_000);
    assert_eq!(result, N as f64);
    assert!(
        steps > N,
        "bound call: the host saw only {steps} steps for a loop of {N} iterations - \
         the body ran inside a single step()"
    );
    assert!(depth >= 1, "bound call: call depth never visible to the host");
}

#[test]
fn bound_call_with_bound_args_is_stepped() {
    let src = format!(
        "function spin(limit, extra) {{ let i = 0; while (i < limit) {{ i++; }} return i + extra; }}\n\
         const bound = spin.bind(null, {N});\n\
         bound(1)"
    );
    let (steps, depth, result) = drive(&src, 10_000_000);
    assert_eq!(result, (N + 1) as f64);
    assert!(
        steps > N,
        "bound call with bound args: only {steps} steps for {N} iterations"
    );
    assert!(depth >= 1);
}

#[test]
fn recursion_through_bound_function_is_visible_in_call_depth() {
    // Recursion routed through a bound function: the host must be able to see the
    // depth grow (so that --max-depth can stop it) instead of the native stack growing.
    let src = "let rec;\n\
               function down(n) { return n === 0 ? 0 : 1 + rec(n - 1); }\n\
               rec = down.bind(null);\n\
               rec(40)";
    let (_steps, depth, result) = drive(src, 10_000_000);
    assert_eq!(result, 40.0);
    assert!(
        depth >= 40,
        "recursion through a bound function reached depth 40 but the host saw at most {depth}"
    );
}
