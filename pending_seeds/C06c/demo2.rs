//! C06 demo 2: String.prototype.repeat with a huge count must end in a catchable
//! RangeError, never in a panic / abort of the embedding process.
//!
//! The interesting inputs are the ones where (byte length) * (count) does not fit in
//! 64 bits: a string of 4096 bytes repeated 2^52 times is 2^64 bytes, a string of
//! 2048 bytes repeated 2^53 times likewise. Counts up to 2^53 are ordinary script
//! numbers.

use tsrun::{Interpreter, StepResult};

fn eval_string(src: &str) -> String {
    let mut interp = Interpreter::new();
    let first = interp.prepare(src, None).expect("prepare");
    assert!(matches!(first, StepResult::Continue));
    for _ in 0..10_000_000usize {
        match interp.step().expect("step") {
            StepResult::Continue => continue,
            StepResult::Complete(v) => {
                return v.as_str().expect("string result").to_string();
            }
            other => panic!("unexpected step result: {:?}", other),
        }
    }
    panic!("too many steps");
}

fn classify(expr: &str) -> String {
    let src = format!(
        "let out;\n\
         try {{ const r = {expr}; out = 'ok:' + r.length; }}\n\
         catch (e) {{ out = (e instanceof RangeError) ? 'RangeError' : 'other:' + e; }}\n\
         out"
    );
    eval_string(&src)
}

#[test]
fn repeat_small_counts_still_work() {
    assert_eq!(classify("'ab'.repeat(3)"), "ok:6");
    assert_eq!(classify("''.repeat(2 ** 53)"), "ok:0");
    assert_eq!(classify("'x'.repeat(4096).repeat(2)"), "ok:8192");
}

#[test]
fn repeat_too_long_is_a_range_error() {
    assert_eq!(classify("'x'.repeat(1e10)"), "RangeError");
    assert_eq!(classify("'x'.repeat(2 ** 53)"), "RangeError");
}

#[test]
fn repeat_whose_byte_size_wraps_64_bits_is_a_range_error() {
    // 4096 * 2^52 == 2^64
    assert_eq!(classify("'x'.repeat(4096).repeat(2 ** 52)"), "RangeError");
    // 2048 * 2^53 == 2^64
    assert_eq!(classify("'x'.repeat(2048).repeat(2 ** 53)"), "RangeError");
    // 4097 * 2^52 == 2^64 + 2^52 (wraps to a large but "fitting" number only on 32-bit;
    // on 64-bit it wraps to 2^52, still above the limit - included for completeness)
    assert_eq!(classify("'x'.repeat(4097).repeat(2 ** 52)"), "RangeError");
    // 3 bytes per char: 3 * 2048 = 6144 bytes; 6144 * 2^53 wraps to 2^63 .. anything
    assert_eq!(classify("'\\u20ac'.repeat(2048).repeat(2 ** 53)"), "RangeError");
}
