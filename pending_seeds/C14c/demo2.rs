//! C14 seed 2: the result of a Promise.race() that nobody ever decides must be reclaimed
//! like any other unreachable promise.
use tsrun::{Interpreter, StepResult};

fn run_once(interp: &mut Interpreter, src: &str) {
    let r = (|| -> Result<(), tsrun::JsError> {
        interp.prepare(src, None)?;
        loop {
            match interp.step()? {
                StepResult::Continue => continue,
                _ => return Ok(()),
            }
        }
    })();
    drop(r);
}

fn series(src: &str, k: usize) -> Vec<usize> {
    let mut interp = Interpreter::new();
    let mut v = Vec::new();
    for _ in 0..k {
        run_once(&mut interp, src);
        interp.collect();
        v.push(interp.gc_stats().live_objects);
    }
    v
}

fn assert_flat(name: &str, src: &str) {
    let v = series(src, 8);
    let first = v.first().copied().unwrap_or(0);
    assert!(
        v.iter().all(|&n| n == first),
        "{name}: live objects after collect() grow over repetitions: {v:?}"
    );
}

#[test]
fn decided_race_is_reclaimed() {
    assert_flat(
        "race decided later",
        "(function(){ let res; const a = new Promise(r => { res = r; }); \
          const b = new Promise(() => {}); \
          const p = Promise.race([a, b]); p.then(v => v); res({x: 1}); })();",
    );
}

#[test]
fn race_already_settled_input_is_reclaimed() {
    assert_flat(
        "race with settled input",
        "(function(){ const p = Promise.race([Promise.resolve({x:1}), new Promise(() => {})]); \
          p.then(v => v); })();",
    );
}

#[test]
fn undecided_race_is_reclaimed() {
    assert_flat(
        "race never decided",
        "(function(){ const a = new Promise(() => {}); const b = new Promise(() => {}); \
          const p = Promise.race([a, b]); p.then(v => ({got: v})); })();",
    );
}
