//! C14 seed 1: a generator abandoned (or closed, or failed) while it is delegating with
//! `yield*` must not keep the delegate alive forever.
use tsrun::{Interpreter, StepResult};

fn run_once(interp: &mut Interpreter, src: &str) {
    let r = (|| -> Result<(), tsrun::JsError> {
        interp.prepare(src, None)?;
        loop {
            match interp.step()? {
                StepResult::Continue => continue,
                _ => return Ok(()),
            }
        }
    })();
    drop(r);
}

fn series(src: &str, k: usize) -> Vec<usize> {
    let mut interp = Interpreter::new();
    let mut v = Vec::new();
    for _ in 0..k {
        run_once(&mut interp, src);
        interp.collect();
        v.push(interp.gc_stats().live_objects);
    }
    v
}

fn assert_flat(name: &str, src: &str) {
    let v = series(src, 8);
    let first = v.first().copied().unwrap_or(0);
    assert!(
        v.iter().all(|&n| n == first),
        "{name}: live objects after collect() grow over repetitions: {v:?}"
    );
}

#[test]
fn delegation_run_to_the_end_is_reclaimed() {
    assert_flat(
        "yield* exhausted",
        "(function(){ function* inner(){ yield {a:1}; yield 2; } \
          function* outer(){ yield* inner(); } \
          const g = outer(); while(!g.next().done){} })();",
    );
}

#[test]
fn generator_abandoned_while_delegating_is_reclaimed() {
    assert_flat(
        "yield* abandoned",
        "(function(){ function* inner(){ yield {a:1}; yield 2; } \
          function* outer(){ yield* inner(); } \
          const g = outer(); g.next(); })();",
    );
}

#[test]
fn generator_closed_while_delegating_is_reclaimed() {
    assert_flat(
        "yield* then return()",
        "(function(){ function* inner(){ yield [1,2,3]; yield 2; } \
          function* outer(){ yield* inner(); } \
          const g = outer(); g.next(); g.return(7); })();",
    );
}
