use tsrun::{Interpreter, StepResult};

fn run_once(interp: &mut Interpreter, src: &str) {
    let r = (|| -> Result<(), tsrun::JsError> {
        interp.prepare(src, None)?;
        loop {
            match interp.step()? {
                StepResult::Continue => continue,
                _ => return Ok(()),
            }
        }
    })();
    drop(r);
}

fn series(src: &str, k: usize) -> Vec<usize> {
    let mut interp = Interpreter::new();
    let mut v = Vec::new();
    for _ in 0..k {
        run_once(&mut interp, src);
        interp.collect();
        v.push(interp.gc_stats().live_objects);
    }
    v
}

#[test]
fn probe() {
    let progs: &[(&str, &str)] = &[
        ("yieldstar_abandon", "(function(){ function* inner(){ yield {a:1}; yield 2; } function* outer(){ yield* inner(); } const g = outer(); g.next(); })();"),
        ("yieldstar_full", "(function(){ function* inner(){ yield {a:1}; yield 2; } function* outer(){ yield* inner(); } const g = outer(); while(!g.next().done){} })();"),
        ("arr_values", "(function(){ const it = [1,2,3].values(); it.next(); })();"),
        ("map_entries", "(function(){ const m = new Map([[1,2]]); for (const e of m.entries()) {} })();"),
        ("forof_arr", "(function(){ let s=0; for (const x of [1,2,3]) s+=x; })();"),
        ("spread_set", "(function(){ const s=new Set([1,2]); const a=[...s]; })();"),
        ("throw_in_call", "(function(){ function f(){ { let o={}; throw new Error('x'); } } f(); })();"),
        ("promise", "(function(){ const p = new Promise((res)=>res({a:1})); p.then(v=>v).finally(()=>{}); })();"),
        ("bind", "(function(){ function f(){}; const b=f.bind({}); b(); })();"),
    ];
    for (name, src) in progs {
        println!("{name}: {:?}", series(src, 8));
    }
}
