#!/bin/sh
# Build what the checks need from files on disk only (offline): the replay crate against /repo and a
# warm MIR-dump target dir.  Both are rebuilt by the checks themselves whenever /repo changes.
set -e
cd "$(dirname "$0")"
export CARGO_NET_OFFLINE=true
python3-vt - <<'PY'
import sys
sys.path.insert(0, '.')
from emir import driver
print(driver.replay_bin('dev'))
print(driver.replay_bin('release'))
print(driver.mir_dump(())[0])
print(driver.mir_dump(('c-api',))[0])
PY
