"""Parser for rustc's textual MIR dump (-Zunpretty=mir).

Only the subset that occurs in the dump of this repository is handled; anything else raises
MirSyntaxError so that a check becomes INCONCLUSIVE instead of silently mis-reading code.
"""
import re
from dataclasses import dataclass, field


class MirSyntaxError(Exception):
    pass


# ------------------------------------------------------------------------------------------------
# low level scanning helpers
# ------------------------------------------------------------------------------------------------
OPEN = {'(': ')', '[': ']', '{': '}', '<': '>'}
CLOSE = {v: k for k, v in OPEN.items()}


def _skip_literal(s, i):
    """s[i] is a quote char; return index just past the literal, or i+1 for a lifetime tick."""
    c = s[i]
    n = len(s)
    if c == '"':
        j = i + 1
        while j < n:
            if s[j] == '\\':
                j += 2
                continue
            if s[j] == '"':
                return j + 1
            j += 1
        raise MirSyntaxError('unterminated string in ' + s)
    # single quote: char literal or lifetime
    if i + 1 < n and s[i + 1] == '\\':
        j = i + 2
        while j < n and s[j] != "'":
            j += 1
        # handle '\'' : the escaped char itself is a quote
        if s[i + 2] == "'" and j == i + 2:
            j = i + 3
        return j + 1
    if i + 2 < n and s[i + 2] == "'":
        return i + 3
    return i + 1  # lifetime


def scan_top(s, start=0):
    """Yield (index, char) for every char of s that is at bracket depth 0 and outside literals."""
    depth = 0
    i = start
    n = len(s)
    while i < n:
        c = s[i]
        if c in '"\'':
            j = _skip_literal(s, i)
            if depth == 0:
                for k in range(i, j):
                    pass
            i = j
            continue
        if c == '-' and i + 1 < n and s[i + 1] == '>':
            if depth == 0:
                yield i, '->'
            i += 2
            continue
        if c in OPEN:
            if depth == 0:
                yield i, c
            depth += 1
        elif c in CLOSE:
            depth -= 1
            if depth == 0:
                yield i, c
        elif depth == 0:
            yield i, c
        i += 1


def split_top(s, sep):
    """Split s at top-level occurrences of the single-character separator sep."""
    parts = []
    last = 0
    depth = 0
    i = 0
    n = len(s)
    while i < n:
        c = s[i]
        if c in '"\'':
            i = _skip_literal(s, i)
            continue
        if c == '-' and i + 1 < n and s[i + 1] == '>':
            i += 2
            continue
        if c in OPEN:
            depth += 1
        elif c in CLOSE:
            depth -= 1
        elif c == sep and depth == 0:
            parts.append(s[last:i])
            last = i + 1
        i += 1
    parts.append(s[last:])
    return [p.strip() for p in parts if p.strip() != '']


def find_top(s, sub, start=0):
    """Index of first top-level occurrence of substring sub, or -1."""
    depth = 0
    i = start
    n = len(s)
    m = len(sub)
    while i < n:
        c = s[i]
        if depth == 0 and s.startswith(sub, i):
            return i
        if c in '"\'':
            i = _skip_literal(s, i)
            continue
        if c == '-' and i + 1 < n and s[i + 1] == '>':
            i += 2
            continue
        if c in OPEN:
            depth += 1
        elif c in CLOSE:
            depth -= 1
        i += 1
    return -1


def match_close(s, i):
    """s[i] is an opening bracket; return index of its matching closer."""
    depth = 0
    n = len(s)
    j = i
    while j < n:
        c = s[j]
        if c in '"\'':
            j = _skip_literal(s, j)
            continue
        if c == '-' and j + 1 < n and s[j + 1] == '>':
            j += 2
            continue
        if c in OPEN:
            depth += 1
        elif c in CLOSE:
            depth -= 1
            if depth == 0:
                return j
        j += 1
    raise MirSyntaxError('unbalanced: ' + s)


def match_open_from_end(s):
    """s ends with a closing bracket; return index of the matching opener."""
    # scan forward recording bracket stack; simplest robust way
    stack = []
    i = 0
    n = len(s)
    res = None
    while i < n:
        c = s[i]
        if c in '"\'':
            i = _skip_literal(s, i)
            continue
        if c == '-' and i + 1 < n and s[i + 1] == '>':
            i += 2
            continue
        if c in OPEN:
            stack.append(i)
        elif c in CLOSE:
            o = stack.pop()
            if i == n - 1:
                res = o
        i += 1
    if res is None:
        raise MirSyntaxError('no closing bracket at end: ' + s)
    return res


# ------------------------------------------------------------------------------------------------
# AST
# ------------------------------------------------------------------------------------------------
@dataclass
class Place:
    local: str
    proj: tuple  # of tuples

    def __str__(self):
        return self.local + ''.join('.' + str(p) for p in self.proj)


@dataclass
class Func:
    name: str
    args: list            # [(local, type)]
    ret_type: str
    locals: dict          # local -> type string
    blocks: dict          # 'bbN' -> Block
    debug: dict           # local -> source name
    line: int
    is_const: bool = False


@dataclass
class Block:
    stmts: list
    term: tuple
    cleanup: bool = False
    lines: list = field(default_factory=list)


_local_re = re.compile(r'^_\d+$')


def parse_place(s):
    s = s.strip()
    if _local_re.match(s):
        return Place(s, ())
    if s.endswith(']'):
        o = match_open_from_end(s)
        base = parse_place(s[:o])
        idx = s[o + 1:-1].strip()
        if _local_re.match(idx):
            return Place(base.local, base.proj + (('index', idx),))
        m = re.match(r'^(-?)(\d+) of (\d+)$', idx)
        if m:
            return Place(base.local, base.proj + (('constindex', int(m.group(2)), int(m.group(3)), m.group(1) == '-'),))
        m = re.match(r'^(\d+)\.\.(-?)(\d+)$', idx)
        if m:
            return Place(base.local, base.proj + (('subslice', int(m.group(1)), int(m.group(3)), m.group(2) == '-'),))
        m = re.match(r'^(\d+):$', idx)
        if m:
            return Place(base.local, base.proj + (('subslice', int(m.group(1)), 0, True),))
        raise MirSyntaxError('index projection: ' + s)
    if s.startswith('(') and match_close(s, 0) == len(s) - 1:
        inner = s[1:-1].strip()
        if inner.startswith('*'):
            base = parse_place(inner[1:])
            return Place(base.local, base.proj + (('deref',),))
        k = find_top(inner, ' as ')
        if k >= 0:
            base = parse_place(inner[:k])
            return Place(base.local, base.proj + (('downcast', inner[k + 4:].strip()),))
        k = find_top(inner, ': ')
        if k >= 0:
            left = inner[:k]
            ty = inner[k + 2:].strip()
            d = left.rfind('.')
            base = parse_place(left[:d])
            return Place(base.local, base.proj + (('field', int(left[d + 1:]), ty),))
        # plain parenthesised place
        return parse_place(inner)
    raise MirSyntaxError('place: ' + s)


def parse_operand(s):
    s = s.strip()
    if s.startswith('no_retag '):
        s = s[len('no_retag '):].strip()
    if s.startswith('copy '):
        return ('copy', parse_place(s[5:]))
    if s.startswith('move '):
        return ('move', parse_place(s[5:]))
    if s.startswith('const '):
        return ('const', s[6:].strip())
    if re.match(r'^[A-Za-z_<]', s):
        return ('const', 'fnitem ' + s)
    raise MirSyntaxError('operand: ' + s)


BINOPS = {'Add', 'Sub', 'Mul', 'Div', 'Rem', 'BitAnd', 'BitOr', 'BitXor', 'Shl', 'Shr', 'Eq', 'Lt', 'Le', 'Ne',
          'Ge', 'Gt', 'Cmp', 'Offset', 'AddWithOverflow', 'SubWithOverflow', 'MulWithOverflow', 'AddUnchecked',
          'SubUnchecked', 'MulUnchecked', 'ShlUnchecked', 'ShrUnchecked'}
UNOPS = {'Not', 'Neg', 'PtrMetadata'}

_cast_re = re.compile(r'^(.*) as (.*) \((\w+(?:\([^)]*\))?(?:, \w+)?)\)$')


def parse_rvalue(s):
    s = s.strip()
    if s.startswith('&raw const '):
        return ('rawptr', False, parse_place(s[len('&raw const '):]))
    if s.startswith('&raw mut '):
        return ('rawptr', True, parse_place(s[len('&raw mut '):]))
    if s.startswith('&mut '):
        return ('ref', True, parse_place(s[5:]))
    if s.startswith('&fake shallow '):
        return ('ref', False, parse_place(s[len('&fake shallow '):]))
    if s.startswith('&'):
        return ('ref', False, parse_place(s[1:]))
    if s.startswith('discriminant(') and s.endswith(')'):
        return ('discr', parse_place(s[len('discriminant('):-1]))
    if s.startswith('Len(') and s.endswith(')'):
        return ('len', parse_place(s[4:-1]))
    if s.endswith(' Implicit))') or s.endswith('AsCast))') or s.startswith('copy ') or s.startswith('move ') \
            or s.startswith('const ') or s.startswith('no_retag '):
        # operand or cast
        m = None
        if s.endswith(')'):
            o = match_open_from_end(s)
            kind = s[o + 1:-1]
            pre = s[:o].rstrip()
            k = find_top(pre, ' as ')
            if k >= 0 and re.match(r'^[A-Za-z]\w*(\(.*\))?(, \w+)?$', kind) and not pre.startswith('const "'):
                # make sure it is the last ' as '
                k2 = k
                while True:
                    k3 = find_top(pre, ' as ', k2 + 1)
                    if k3 < 0:
                        break
                    k2 = k3
                return ('cast', parse_operand(pre[:k2]), pre[k2 + 4:].strip(), kind)
        return ('use', parse_operand(s))
    # binop / unop
    m = re.match(r'^(\w+)\(', s)
    if m and s.endswith(')') and match_close(s, m.end() - 1) == len(s) - 1:
        name = m.group(1)
        inner = s[m.end():-1]
        if name in BINOPS:
            a, b = split_top(inner, ',')
            return ('binop', name, parse_operand(a), parse_operand(b))
        if name in UNOPS:
            return ('unop', name, parse_operand(inner))
        if name == 'CopyForDeref' or name == 'deref_copy':
            return ('use', ('copy', parse_place(inner)))
    if s.startswith('deref_copy '):
        return ('use', ('copy', parse_place(s[len('deref_copy '):])))
    # tuple aggregate
    if s.startswith('(') and match_close(s, 0) == len(s) - 1:
        inner = s[1:-1]
        parts = split_top(inner, ',')
        return ('tuple', [parse_operand(p) for p in parts])
    if s == '()':
        return ('tuple', [])
    # array aggregate / repeat
    if s.startswith('[') and match_close(s, 0) == len(s) - 1:
        inner = s[1:-1]
        k = find_top(inner, '; ')
        if k >= 0:
            return ('repeat', parse_operand(inner[:k]), inner[k + 2:].strip())
        parts = split_top(inner, ',')
        return ('array', [parse_operand(p) for p in parts])
    # closure / coroutine aggregate:  {closure@...} { a: copy _1 }   or   {closure@...}
    if s.startswith('{closure@') or s.startswith('{coroutine@'):
        c = match_close(s, 0)
        ty = s[:c + 1]
        rest = s[c + 1:].strip()
        fields = []
        if rest:
            if not (rest.startswith('{') and rest.endswith('}')):
                raise MirSyntaxError('closure aggregate: ' + s)
            for p in split_top(rest[1:-1], ','):
                k = find_top(p, ': ')
                fields.append((p[:k].strip(), parse_operand(p[k + 2:])))
        return ('closure', ty, fields)
    # ADT aggregates
    if s.endswith('}'):
        o = match_open_from_end(s)
        path = s[:o].strip()
        fields = []
        for p in split_top(s[o + 1:-1], ','):
            k = find_top(p, ': ')
            fields.append((p[:k].strip(), parse_operand(p[k + 2:])))
        return ('adt', path, fields, 'named')
    if s.endswith(')'):
        o = match_open_from_end(s)
        path = s[:o].strip()
        fields = [(None, parse_operand(p)) for p in split_top(s[o + 1:-1], ',')]
        return ('adt', path, fields, 'tuple')
    # unit-like ADT
    if re.match(r'^[A-Za-z_<\[\(&]', s):
        return ('adt', s, [], 'unit')
    raise MirSyntaxError('rvalue: ' + s)


_targets_re = re.compile(r'\[(.*)\]')


def parse_targets(s):
    """'[return: bb1, unwind continue]' -> dict"""
    s = s.strip()
    if s.startswith('['):
        c = match_close(s, 0)
        body = s[1:c]
    else:
        body = s
    d = {}
    for p in split_top(body, ','):
        if p.startswith('unwind'):
            d['unwind'] = p[len('unwind'):].strip(': ').strip()
            continue
        k = p.find(':')
        d[p[:k].strip()] = p[k + 1:].strip()
    return d


def parse_terminator(s):
    s = s.strip()
    if s.endswith(';'):
        s = s[:-1]
    if s == 'return':
        return ('return',)
    if s == 'unreachable':
        return ('unreachable',)
    if s == 'resume' or s.startswith('unwind terminate') or s == 'terminate' or s.startswith('terminate('):
        return ('resume',)
    if s.startswith('goto -> '):
        return ('goto', s[len('goto -> '):].strip())
    if s.startswith('switchInt('):
        c = match_close(s, len('switchInt'))
        op = parse_operand(s[len('switchInt('):c])
        rest = s[c + 1:].strip()
        assert rest.startswith('->')
        tg = rest[2:].strip()
        body = tg[1:match_close(tg, 0)]
        targets = []
        otherwise = None
        for p in split_top(body, ','):
            k = p.rfind(':')
            key = p[:k].strip()
            val = p[k + 1:].strip()
            if key == 'otherwise':
                otherwise = val
            else:
                targets.append((parse_int_literal(key), val))
        return ('switch', op, targets, otherwise)
    if s.startswith('drop('):
        c = match_close(s, 4)
        pl = parse_place(s[5:c])
        rest = s[c + 1:].strip()
        tg = parse_targets(rest[2:].strip())
        return ('drop', pl, tg.get('return'))
    if s.startswith('assert('):
        c = match_close(s, 6)
        inner = s[7:c]
        parts = split_top(inner, ',')
        cond = parts[0]
        expected = True
        if cond.startswith('!'):
            expected = False
            cond = cond[1:]
        msg = parts[1] if len(parts) > 1 else ''
        rest = s[c + 1:].strip()
        tg = parse_targets(rest[2:].strip())
        return ('assert', parse_operand(cond), expected, msg, tg.get('success'))
    # call
    k = find_top(s, ' = ')
    if k >= 0:
        dest = parse_place(s[:k])
        rhs = s[k + 3:]
    else:
        dest = None
        rhs = s
    a = find_top(rhs, ' -> ')
    if a < 0:
        raise MirSyntaxError('terminator: ' + s)
    callpart = rhs[:a].strip()
    tgt = rhs[a + 4:].strip()
    if not callpart.endswith(')'):
        raise MirSyntaxError('call: ' + s)
    o = match_open_from_end(callpart)
    callee = callpart[:o].strip()
    args = [parse_operand(p) for p in split_top(callpart[o + 1:-1], ',')]
    if tgt.startswith('['):
        tg = parse_targets(tgt)
        ret = tg.get('return')
    else:
        ret = None  # diverging: "-> unwind continue"
    return ('call', dest, callee, args, ret)


def parse_int_literal(s):
    s = s.strip()
    m = re.match(r'^(-?\d+)(_[iu](8|16|32|64|128|size))?$', s)
    if m:
        return int(m.group(1))
    raise MirSyntaxError('int literal: ' + s)


def parse_statement(s):
    s = s.strip()
    if s.endswith(';'):
        s = s[:-1]
    if s == 'nop' or s.startswith('StorageLive(') or s.startswith('StorageDead(') or s.startswith('FakeRead(') \
            or s.startswith('PlaceMention(') or s.startswith('AscribeUserType(') or s.startswith('Retag(') \
            or s.startswith('Coverage::') or s.startswith('ConstEvalCounter') or s.startswith('BackwardIncompatibleDropHint('):
        return ('nop',)
    if s.startswith('assume('):
        return ('assume', parse_operand(s[len('assume('):-1]))
    if s.startswith('Deinit('):
        return ('nop',)
    m = re.match(r'^discriminant\((.*)\) = (\d+)$', s)
    if m:
        return ('setdiscr', parse_place(m.group(1)), int(m.group(2)))
    k = find_top(s, ' = ')
    if k < 0:
        raise MirSyntaxError('statement: ' + s)
    return ('assign', parse_place(s[:k]), parse_rvalue(s[k + 3:]))


# ------------------------------------------------------------------------------------------------
# whole-file index, lazy function parsing
# ------------------------------------------------------------------------------------------------
_fn_head = re.compile(r'^(fn|const|static(?: mut)?) (.*) \{$')
_let_re = re.compile(r'^\s*let (?:mut )?(_\d+): (.*);$')
_debug_re = re.compile(r'^\s*debug (\S+) => (.*);$')
_bb_re = re.compile(r'^\s*(bb\d+)( \(cleanup\))?: \{$')
_alloc_re = re.compile(r'^(alloc\d+) \(.*size: (\d+), align: (\d+)\) \{(.*)$')


class MirFile:
    def __init__(self, path):
        self.path = path
        with open(path, 'r', encoding='utf-8', errors='replace') as f:
            self.lines = f.read().split('\n')
        self.fn_index = {}     # full name -> (start, end)   (first definition wins for duplicates)
        self.fn_multi = {}     # full name -> [starts]
        self.const_index = {}
        self.allocs = {}       # allocN -> bytes
        self._cache = {}
        self._index()

    def _index(self):
        lines = self.lines
        n = len(lines)
        i = 0
        while i < n:
            ln = lines[i]
            if ln and not ln[0].isspace():
                m = _fn_head.match(ln)
                if m:
                    kind = m.group(1)
                    head = m.group(2)
                    # find end: next line that is exactly '}'
                    j = i + 1
                    while j < n and lines[j] != '}':
                        j += 1
                    if kind == 'fn':
                        o = None
                        # name is up to the '(' that opens the argument list: first top-level '('
                        for idx, ch in scan_top(head):
                            if ch == '(':
                                o = idx
                                break
                        name = head[:o]
                        self.fn_multi.setdefault(name, []).append(i)
                        if name not in self.fn_index:
                            self.fn_index[name] = (i, j)
                    else:
                        k = find_top(head, ': ')
                        name = head[:k]
                        self.const_index.setdefault(name, (i, j))
                    i = j + 1
                    continue
                m = _alloc_re.match(ln)
                if m:
                    name = m.group(1)
                    size = int(m.group(2))
                    data = bytearray()
                    relocs = False
                    if m.group(4).strip().endswith('}'):
                        self.allocs[name] = bytes()
                        i += 1
                        continue
                    j = i + 1
                    while j < n and lines[j] != '}':
                        body = lines[j]
                        # "    0x00 │ 2e 2e 2f   │ ../" or "    2e 2e 2f      │ ../"
                        segs = body.split('│')
                        hexpart = segs[0] if len(segs) == 2 else (segs[1] if len(segs) >= 3 else segs[0])
                        if '╾' in body or '─' in hexpart:
                            relocs = True
                        else:
                            for tok in hexpart.split():
                                if re.match(r'^[0-9a-f]{2}$', tok):
                                    data.append(int(tok, 16))
                                elif tok == '__':
                                    data.append(0)
                        j += 1
                    self.allocs[name] = None if relocs else bytes(data[:size])
                    i = j + 1
                    continue
            i += 1

    def names(self):
        return self.fn_index.keys()

    def get(self, name):
        if name in self._cache:
            return self._cache[name]
        if name in self.fn_index:
            start, end = self.fn_index[name]
            f = self._parse_body(name, start, end, False)
        elif name in self.const_index:
            start, end = self.const_index[name]
            f = self._parse_body(name, start, end, True)
        else:
            raise KeyError(name)
        self._cache[name] = f
        return f

    def _parse_body(self, name, start, end, is_const):
        lines = self.lines
        head = lines[start]
        m = _fn_head.match(head)
        h = m.group(2)
        args = []
        if not is_const:
            o = len(name)
            c = match_close(h, o)
            for p in split_top(h[o + 1:c], ','):
                k = p.find(': ')
                args.append((p[:k].strip(), p[k + 2:].strip()))
            rest = h[c + 1:].strip()
            ret = rest[2:].strip() if rest.startswith('->') else '()'
        else:
            k = find_top(h, ': ')
            rest = h[k + 2:]
            e = rest.rfind(' =')
            ret = rest[:e].strip()
        locals_ = {a: t for a, t in args}
        debug = {}
        blocks = {}
        i = start + 1
        cur = None
        while i < end:
            ln = lines[i]
            mb = _bb_re.match(ln)
            if mb:
                cur = Block([], None, mb.group(2) is not None)
                blocks[mb.group(1)] = cur
                i += 1
                body = []
                while lines[i].strip() != '}':
                    body.append(lines[i].strip())
                    i += 1
                cur.lines = body
                i += 1
                continue
            ml = _let_re.match(ln)
            if ml:
                locals_[ml.group(1)] = ml.group(2)
            else:
                md = _debug_re.match(ln)
                if md:
                    debug[md.group(2)] = md.group(1)
            i += 1
        f = Func(name, args, ret, locals_, blocks, debug, start + 1, is_const)
        return f

    def parse_block(self, blk):
        """Parse statements of a block lazily (so unparseable code elsewhere in a function does not matter)."""
        if blk.term is not None:
            return
        if blk.cleanup:
            blk.term = ('resume',)
            return
        body = blk.lines
        stmts = []
        for s in body[:-1]:
            stmts.append(parse_statement(s))
        blk.stmts = stmts
        blk.term = parse_terminator(body[-1])
