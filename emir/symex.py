"""Symbolic executor for rustc MIR (E-MIR).  See DESIGN.md section 1.1."""
import re
import time
import z3

from .mirparse import MirFile, Place, split_top, find_top, match_close, MirSyntaxError
from .values import *
from . import values as VAL


class Abort(Exception):
    """ends the current path with a status"""

    def __init__(self, status, detail=''):
        super().__init__(status + ': ' + str(detail))
        self.status = status
        self.detail = detail


class Inconclusive(Exception):
    pass


class PathEnd:
    def __init__(self, status, st, value=None, detail=''):
        self.status = status      # return | panic | unreachable | bound | unmodelled | diverge
        self.st = st
        self.value = value
        self.detail = detail

    def __repr__(self):
        return 'PathEnd(%s %s %r)' % (self.status, self.detail, self.value)


class Frame:
    __slots__ = ('fn', 'locals', 'block', 'idx', 'dest', 'ret_block', 'visits', 'on_return', 'tag')

    def __init__(self, fn):
        self.fn = fn
        self.locals = {}
        self.block = 'bb0'
        self.idx = 0
        self.dest = None
        self.ret_block = None
        self.visits = {}
        self.on_return = None
        self.tag = None

    def clone(self):
        f = Frame(self.fn)
        f.locals = dict(self.locals)
        f.block = self.block
        f.idx = self.idx
        f.dest = self.dest
        f.ret_block = self.ret_block
        f.visits = dict(self.visits)
        f.on_return = self.on_return
        f.tag = self.tag
        return f


_addr_counter = itertools.count(1)


class State:
    def __init__(self):
        self.store = {}
        self.frames = []
        self.pc = []
        self.events = []
        self.extra = {}
        self.model = None     # a model of pc, when known (saves feasibility queries)

    def clone(self):
        s = State()
        s.model = self.model
        s.store = dict(self.store)
        s.frames = [f.clone() for f in self.frames]
        s.pc = list(self.pc)
        s.events = list(self.events)
        s.extra = dict(self.extra)
        return s

    def alloc(self, v):
        a = next(_addr_counter)
        self.store[a] = v
        return a

    def assume(self, cond):
        self.pc.append(cond)
        if self.model is not None:
            # keep the witness model when it already satisfies the new conjunct (fresh symbols are completed arbitrarily,
            # so this only succeeds when the conjunct does not mention unconstrained new symbols in a falsifiable way)
            try:
                if not z3.is_true(self.model.eval(cond, model_completion=False)):
                    self.model = None
            except z3.Z3Exception:
                self.model = None
        self._ids = None

    def pc_ids(self):
        ids = getattr(self, '_ids', None)
        if ids is None or len(ids[1]) != len(self.pc):
            s = {}
            for p in self.pc:
                sp = z3.simplify(p)
                s[sp.get_id()] = sp        # keep the AST alive: z3 reuses ids of freed ASTs
            ids = (s, list(self.pc))
            self._ids = ids
        return ids[0]

    def event(self, *ev):
        self.events.append(ev)


class CallSite:
    __slots__ = ('callee', 'norm', 'segs', 'args', 'dest', 'ret_block', 'dest_ty', 'arg_ops', 'generics', 'self_ty', 'trait')

    def __repr__(self):
        return 'Call(%s)' % self.callee


# ------------------------------------------------------------------------------------------------
# callee normalisation
# ------------------------------------------------------------------------------------------------
def split_path(s):
    """split a printed path at top-level '::'"""
    parts = []
    depth = 0
    i = 0
    last = 0
    n = len(s)
    from .mirparse import _skip_literal, OPEN, CLOSE
    while i < n:
        c = s[i]
        if c in '"\'':
            i = _skip_literal(s, i)
            continue
        if c == '-' and i + 1 < n and s[i + 1] == '>':
            i += 2
            continue
        if c in OPEN:
            depth += 1
        elif c in CLOSE:
            depth -= 1
        elif c == ':' and depth == 0 and i + 1 < n and s[i + 1] == ':':
            parts.append(s[last:i])
            last = i + 2
            i += 2
            continue
        i += 1
    parts.append(s[last:])
    return parts


def impl_ty_name(t):
    t = strip_path(t)
    if t.startswith('['):
        return 'array' if find_top(t[1:-1], '; ') >= 0 else 'slice'
    k = t.find('<')
    if k > 0:
        return t[:k]
    return t


def normalise_callee(callee):
    """-> (norm, segs, generics, self_ty, trait)"""
    segs = split_path(callee)
    out = []
    generics = []
    self_ty = None
    trait = None
    for s in segs:
        s = s.strip()
        if s.startswith('<impl ') and s.endswith('>'):
            self_ty = strip_path(s[6:-1])
            out.append(impl_ty_name(s[6:-1]))
        elif s.startswith('<') and s.endswith('>'):
            inner = s[1:-1]
            k = find_top(inner, ' as ')
            if k >= 0:
                self_ty = strip_path(inner[:k])
                trait = strip_path(inner[k + 4:])
                out.append('<%s as %s>' % (self_ty, trait))
            elif not out:
                # bare qualified type e.g. <[T]>::len  or <T>::method
                self_ty = strip_path(inner)
                out.append(impl_ty_name(inner))
            else:
                generics.append(split_top(inner, ','))
        else:
            out.append(s)
    if len(out) >= 2:
        norm = out[-2] + '::' + out[-1]
        if self_ty is None and out[-2][:1].isupper():
            self_ty = out[-2]
    else:
        norm = out[-1]
    return norm, out, generics, self_ty, trait


# ------------------------------------------------------------------------------------------------
# constants
# ------------------------------------------------------------------------------------------------
def decode_rust_str(body):
    """decode the inside of a Rust string/char literal as printed by the MIR dump -> bytes (utf-8)"""
    out = bytearray()
    i = 0
    n = len(body)
    while i < n:
        c = body[i]
        if c == '\\':
            d = body[i + 1]
            if d == 'n':
                out.append(10)
                i += 2
            elif d == 'r':
                out.append(13)
                i += 2
            elif d == 't':
                out.append(9)
                i += 2
            elif d == '0':
                out.append(0)
                i += 2
            elif d == '\\':
                out.append(92)
                i += 2
            elif d == '"':
                out.append(34)
                i += 2
            elif d == "'":
                out.append(39)
                i += 2
            elif d == 'x':
                out.append(int(body[i + 2:i + 4], 16))
                i += 4
            elif d == 'u':
                j = body.index('}', i)
                out.extend(chr(int(body[i + 3:j], 16)).encode('utf-8'))
                i = j + 1
            else:
                raise MirSyntaxError('escape in ' + body)
        else:
            out.extend(c.encode('utf-8'))
            i += 1
    return bytes(out)


NAMED_F64 = {
    'NAN': z3.fpNaN(F64), 'INFINITY': z3.fpPlusInfinity(F64), 'NEG_INFINITY': z3.fpMinusInfinity(F64),
    'MAX': z3.FPVal(1.7976931348623157e308, F64), 'MIN': z3.FPVal(-1.7976931348623157e308, F64),
    'EPSILON': z3.FPVal(2.220446049250313e-16, F64), 'MIN_POSITIVE': z3.FPVal(2.2250738585072014e-308, F64),
}


def fp_from_python(x):
    import math
    import struct
    bits = struct.unpack('<Q', struct.pack('<d', x))[0]
    return z3.fpBVToFP(z3.BitVecVal(bits, 64), F64)


_int_const_re = re.compile(r'^(-?\d+)_(u8|u16|u32|u64|u128|usize|i8|i16|i32|i64|i128|isize)$')
_float_const_re = re.compile(r'^(-?[0-9.]+(?:[eE][+-]?\d+)?|-?inf|NaN|-?NaN)(f64|f32)$')
_named_int_re = re.compile(r'^(?:core::num::<impl )?(u8|u16|u32|u64|u128|usize|i8|i16|i32|i64|i128|isize)>?::(MAX|MIN|BITS)$')


class Executor:
    def __init__(self, mir, src, unwind=8, str_cap=8, timeout_ms=60000):
        self.mir = mir
        self.src = src
        self.unwind = unwind
        self.str_cap = str_cap
        self.solver = z3.Solver()
        self.solver.set('timeout', timeout_ms)
        self._asserted = []
        self.last_model = None
        self.overrides = []       # [(regex, handler)]
        self.fresh_hooks = []     # [(regex on stripped type, fn(ex, st, ty) -> V)]
        self.opaque_types = [re.compile(p) for p in (
            r'^Gc<', r'^Guard<', r'^Rc<', r'^Weak<', r'^RefCell<', r'^Box<dyn', r'^Heap<', r'^Cell<',
            r'^FxHashMap<', r'^HashMap<', r'^FxHashSet<', r'^HashSet<', r'^IndexMap<', r'^BTreeMap<', r'^StringDict',
            r'^JsString$', r'^JsSymbol$', r'^dyn ', r'^fn\(', r'^for<')]
        self.stats = dict(queries=0, solver_s=0.0, paths=0, fast=0)
        self.functions_encoded = set()
        self.models_used = set()
        self.havoc_used = set()
        self._fnkeys = None
        self._closures = None
        self.trace = False
        self.auto_havoc = False
        self.subsume_key = None    # optional fn(state) -> hashable: states with an already-seen key are dropped (coarse merging)
        self.execute_real = []     # regexes of crate functions that are executed although auto_havoc is on
        self.auto_invoke_closures = False   # closures passed to auto-havoc'd callees are run once on arbitrary arguments
        self.auto_frames = {}      # struct name -> set of field indices auto-havoc'd callees are assumed not to touch
        from . import models
        self.models = models.REGISTRY

    # -------------------------------------------------------------------------------------------
    # solver
    # -------------------------------------------------------------------------------------------
    def _sync(self, pc):
        """make the solver's assertion stack equal to the path condition pc (one push level per conjunct)"""
        cur = self._asserted
        k = 0
        n = min(len(cur), len(pc))
        while k < n and cur[k] is pc[k]:
            k += 1
        if len(cur) > k:
            self.solver.pop(len(cur) - k)
            del cur[k:]
        for p in pc[k:]:
            self.solver.push()
            self.solver.add(p)
            cur.append(p)

    def feasible(self, st, cond=None):
        """is pc /\ cond satisfiable?  On sat the witness model is left in self.last_model."""
        if cond is not None:
            c = z3.simplify(cond)
            if z3.is_false(c):
                self.stats['fast'] += 1
                return False
            if st.model is not None:
                try:
                    if z3.is_true(st.model.eval(c, model_completion=True)):
                        self.stats['fast'] += 1
                        self.last_model = st.model
                        return True
                except z3.Z3Exception:
                    pass
        t = time.time()
        self._sync(st.pc)
        r = self.solver.check(cond) if cond is not None else self.solver.check()
        self.stats['queries'] += 1
        self.stats['solver_s'] += time.time() - t
        if r == z3.unknown:
            raise Inconclusive('solver returned unknown on a feasibility query: ' + self.solver.reason_unknown())
        if r == z3.sat:
            self.last_model = self.solver.model()
        return r == z3.sat

    def feasible_pc(self, pc, cond=None):
        t = time.time()
        self._sync(pc)
        r = self.solver.check(cond) if cond is not None else self.solver.check()
        self.stats['queries'] += 1
        self.stats['solver_s'] += time.time() - t
        if r == z3.unknown:
            raise Inconclusive('solver returned unknown: ' + self.solver.reason_unknown())
        if r == z3.sat:
            self.last_model = self.solver.model()
        return r == z3.sat

    def check_sat_pc(self, pc, extra):
        """pc: list shared with exploration (kept on the incremental stack); extra: list of further conjuncts"""
        t = time.time()
        self._sync(pc)
        self.solver.push()
        for p in extra:
            self.solver.add(p)
        r = self.solver.check()
        m = self.solver.model() if r == z3.sat else None
        self.solver.pop()
        self.stats['queries'] += 1
        self.stats['solver_s'] += time.time() - t
        if r == z3.unknown:
            raise Inconclusive('solver returned unknown: ' + self.solver.reason_unknown())
        return ('sat', m) if r == z3.sat else ('unsat', None)

    def check_sat(self, conds):
        """-> ('sat', model) | ('unsat', None); raises Inconclusive on unknown"""
        t = time.time()
        self._sync([])
        self.solver.push()
        for p in conds:
            self.solver.add(p)
        r = self.solver.check()
        m = self.solver.model() if r == z3.sat else None
        self.solver.pop()
        self.stats['queries'] += 1
        self.stats['solver_s'] += time.time() - t
        if r == z3.unknown:
            raise Inconclusive('solver returned unknown: ' + self.solver.reason_unknown())
        return ('sat', m) if r == z3.sat else ('unsat', None)

    def concrete_int(self, e):
        e = z3.simplify(e)
        if z3.is_bv_value(e):
            return e.as_long()
        return None

    def concrete_bool(self, e):
        e = z3.simplify(e)
        if z3.is_true(e):
            return True
        if z3.is_false(e):
            return False
        return None

    # -------------------------------------------------------------------------------------------
    # enum tables
    # -------------------------------------------------------------------------------------------
    def enum_base(self, ty):
        h, _ = type_head(ty)
        return h

    def enum_variants(self, ty):
        b = self.enum_base(ty)
        if b in STD_ENUMS:
            return STD_ENUMS[b]
        if b in self.src.enums:
            return self.src.enums[b]
        return None

    def variant_index(self, ty, vname):
        vs = self.enum_variants(ty)
        if vs is None:
            raise Abort('unmodelled', 'unknown enum type %s (variant %s)' % (ty, vname))
        return vs.index(vname)

    def variant_discr(self, ty, idx):
        """discriminant value of variant index (differs only for explicit discriminants)"""
        b = self.enum_base(ty)
        vs = self.enum_variants(ty)
        tbl = STD_ENUM_DISCR.get(b) or self.src.enum_discr.get(b)
        if tbl and vs[idx] in tbl:
            return tbl[vs[idx]]
        return idx

    def mk_enum(self, ty, vname, fields=()):
        idx = self.variant_index(ty, vname)
        return EnumV(strip_path(ty), idx, {idx: {i: f for i, f in enumerate(fields)}})

    def mk_box(self, ref, ty='Box'):
        return Agg('struct', ty, {0: Agg('struct', 'Unique', {0: ref})})

    def some(self, v, ty='Option'):
        return EnumV(ty, 1, {1: {0: v}})

    def none(self, ty='Option'):
        return EnumV(ty, 0, {})

    def option_ite(self, cond, v, ty='Option'):
        """Option that is Some(v) iff cond"""
        c = self.concrete_bool(cond)
        if c is True:
            return self.some(v, ty)
        if c is False:
            return self.none(ty)
        return EnumV(ty, z3.If(cond, z3.BitVecVal(1, 64), z3.BitVecVal(0, 64)), {1: {0: v}})

    # -------------------------------------------------------------------------------------------
    # fresh symbolic values
    # -------------------------------------------------------------------------------------------
    def is_opaque_type(self, ty):
        return any(p.match(ty) for p in self.opaque_types)

    def fresh_str(self, st, cap=None, name='s', alphabet=None, stable=False):
        cap = self.str_cap if cap is None else cap
        fn_ = (lambda n: n) if stable else fresh_name
        n = z3.BitVec(fn_(name + '_len'), LW)
        bs = [z3.BitVec(fn_(name + '_b%d' % i), 8) for i in range(cap)]
        st.assume(z3.ULE(n, cap))
        alpha = alphabet if alphabet is not None else st.extra.get('alphabet')
        for i, b in enumerate(bs):
            if alpha is not None:
                st.assume(z3.Or(z3.UGE(z3.BitVecVal(i, LW), n), z3.Or([b == a for a in alpha])))
            else:
                st.assume(z3.Or(z3.UGE(z3.BitVecVal(i, LW), n), z3.ULT(b, 128)))
        return Str(n, bs)

    def fresh(self, st, ty, name='v'):
        """a fresh symbolic value of the printed type ty (one level; nested parts stay Lazy)"""
        t = strip_path(ty)
        stable = name.startswith('$')
        fn_ = (lambda n: n) if stable else fresh_name
        for rx, fn in self.fresh_hooks:
            if rx.match(t):
                return fn(self, st, t, fn_(name))
        if t in INT_TYPES:
            w, s = INT_TYPES[t]
            return Int(z3.BitVec(fn_(name), w), s)
        if t == 'bool':
            return Bool(z3.Bool(fn_(name)))
        if t == 'f64':
            return Float(z3.FP(fn_(name), F64))
        if t == 'char':
            e = z3.BitVec(fn_(name), 32)
            st.assume(z3.Or(z3.ULT(e, 0xD800), z3.And(z3.UGE(e, 0xE000), z3.ULE(e, 0x10FFFF))))
            return Char(e)
        if t == '()':
            return UNIT
        if t == '&str' or t == 'String' or t == '&mut str':
            return self.fresh_str(st, name=name, stable=stable)
        if self.is_opaque_type(t):
            return Opaque(t, z3.Int(fn_(name + ':opq')))
        head, args = type_head(t)
        if head == 'Box' and args:
            a = st.alloc(Lazy(args[0]))
            st.extra[('cellname', a)] = name + '.box' if stable else '$%d' % a
            return self.mk_box(Ref(a), t)
        if head in ('&', '&mut', '*const', '*mut'):
            inner = args[0]
            if inner == 'str':
                return self.fresh_str(st, name=name, stable=stable)
            a = st.alloc(Lazy(inner))
            null = False
            if head.startswith('*'):
                null = z3.Bool(fn_(name + ':null'))
            return Ref(a, (), null)
        if head == 'tuple':
            return Agg('tuple', t, {i: Lazy(a) for i, a in enumerate(args)}, nm=name if stable else None)
        if head == 'unit':
            return UNIT
        if head == 'array':
            n = int(re.sub(r'_usize$', '', args[1]))
            return Agg('array', t, {i: Lazy(args[0]) for i in range(n)})
        if head == 'Vec' or head == 'slice' or head == 'VecDeque':
            n = z3.BitVec(fn_(name + '_len'), 64)
            st.assume(z3.ULE(n, (1 << 40)))
            return AbsVec(n, fn_(name + ':vec'), args[0] if args else None)
        vs = self.enum_variants(t)
        if vs is not None:
            d = z3.BitVec(fn_(name + '_discr'), 64)
            st.assume(z3.ULT(d, len(vs)))
            return EnumV(t, d, {}, lazy=True, nm=name if stable else None)
        if head == 'closure':
            return Agg('closure', t, {}, lazy=True)
        # any other nominal type: lazily materialised struct
        return Agg('struct', t, {}, lazy=True, nm=name if stable else None)

    # -------------------------------------------------------------------------------------------
    # memory
    # -------------------------------------------------------------------------------------------
    def _force(self, st, v, name=None):
        if isinstance(v, Lazy):
            return self.fresh(st, v.ty, name or 'v')
        return v

    def _walk(self, st, v, path, i, base='$?'):
        """-> (value at path, updated v).  base: stable name of the value v itself"""
        v0 = v
        if isinstance(v, Lazy):
            v = self._force(st, v, base)
        nm = getattr(v, 'nm', None)
        if nm is not None:
            base = nm
        if i == len(path):
            return v, v
        p = path[i]
        k = p[0]
        if k == 'v':
            if not isinstance(v, EnumV):
                raise Abort('unmodelled', 'downcast of non-enum %r' % (v,))
            vidx = p[1] if isinstance(p[1], int) else self.variant_index(v.ty, p[1])
            if i + 1 == len(path):
                return v, v
            f = path[i + 1]
            pl = v.payload.get(vidx, {})
            if f[1] in pl:
                child = pl[f[1]]
            elif v.lazy or True:
                # reading a payload field that was never written: only legal on a lazily materialised enum
                if len(f) > 2 and f[2] is not None:
                    child = Lazy(f[2])
                else:
                    raise Abort('unmodelled', 'payload field without type: %r' % (p,))
            res, newchild = self._walk(st, child, path, i + 2, '%s.%s.%s' % (base, p[1], f[1]))
            if newchild is not child or f[1] not in pl:
                npl = dict(v.payload)
                d = dict(pl)
                d[f[1]] = newchild
                npl[vidx] = d
                v = EnumV(v.ty, v.discr, npl, v.lazy, v.nm)
            return res, v
        if k == 'f':
            idx = p[1]
            if isinstance(v, Agg):
                if idx in v.fields:
                    child = v.fields[idx]
                elif v.lazy and len(p) > 2 and p[2] is not None:
                    child = Lazy(p[2])
                else:
                    raise Abort('unmodelled', 'read of missing field %r of %r' % (p, v))
                res, newchild = self._walk(st, child, path, i + 1, '%s.%s' % (base, idx))
                if newchild is not child or idx not in v.fields:
                    v = v.with_field(idx, newchild)
                return res, v
            if isinstance(v, EnumV):
                # field of an enum without explicit downcast (single-variant access like Option niche)? not expected
                raise Abort('unmodelled', 'field %r of enum without downcast' % (p,))
            raise Abort('unmodelled', 'field %r of %r' % (p, v))
        if k == 'i':
            idx = p[1]
            if isinstance(v, VecV):
                if idx >= len(v.items):
                    raise Abort('panic', 'index %d out of bounds (len %d)' % (idx, len(v.items)))
                child = v.items[idx]
                res, newchild = self._walk(st, child, path, i + 1, '%s.%s' % (base, idx))
                if newchild is not child:
                    items = list(v.items)
                    items[idx] = newchild
                    v = VecV(items, v.elem_ty)
                return res, v
            if isinstance(v, Agg):
                child = v.fields[idx]
                res, newchild = self._walk(st, child, path, i + 1, '%s.%s' % (base, idx))
                if newchild is not child:
                    v = v.with_field(idx, newchild)
                return res, v
            raise Abort('unmodelled', 'index into %r' % (v,))
        raise Abort('unmodelled', 'path element %r' % (p,))

    def load(self, st, addr, path=()):
        root = st.store[addr]
        res, newroot = self._walk(st, root, path, 0, st.extra.get(('cellname', addr), '$%d' % addr))
        if newroot is not root:
            st.store[addr] = newroot
        return res

    def _put(self, st, v, path, i, newval):
        if i == len(path):
            return newval
        v = self._force(st, v)
        p = path[i]
        k = p[0]
        if k == 'v':
            vidx = p[1] if isinstance(p[1], int) else self.variant_index(v.ty, p[1])
            f = path[i + 1]
            pl = v.payload.get(vidx, {})
            child = pl.get(f[1])
            if child is None:
                child = Lazy(f[2]) if len(f) > 2 and f[2] else UNINIT
            nc = self._put(st, child, path, i + 2, newval)
            npl = dict(v.payload)
            d = dict(pl)
            d[f[1]] = nc
            npl[vidx] = d
            return EnumV(v.ty, v.discr, npl, v.lazy, v.nm)
        if k == 'f':
            idx = p[1]
            if isinstance(v, Uninit):
                v = Agg('struct', '?', {}, lazy=True)
            if isinstance(v, Agg):
                child = v.fields.get(idx)
                if child is None:
                    child = Lazy(p[2]) if len(p) > 2 and p[2] else UNINIT
                nc = self._put(st, child, path, i + 1, newval)
                return v.with_field(idx, nc)
            raise Abort('unmodelled', 'store to field %r of %r' % (p, v))
        if k == 'i':
            idx = p[1]
            if isinstance(v, VecV):
                items = list(v.items)
                items[idx] = self._put(st, items[idx], path, i + 1, newval)
                return VecV(items, v.elem_ty)
            if isinstance(v, Agg):
                return v.with_field(idx, self._put(st, v.fields[idx], path, i + 1, newval))
        raise Abort('unmodelled', 'store path element %r in %r' % (p, v))

    def store(self, st, addr, path, val):
        root = st.store.get(addr, UNINIT)
        st.store[addr] = self._put(st, root, path, 0, val)

    def place_addr(self, st, frame, place):
        if place.local not in frame.locals:
            frame.locals[place.local] = st.alloc(UNINIT)
        addr = frame.locals[place.local]
        path = ()
        for p in place.proj:
            k = p[0]
            if k == 'deref':
                v = self.load(st, addr, path)
                if isinstance(v, Ref):
                    if v.null is not False:
                        st.event('deref', v)
                    addr, path = v.addr, v.path
                elif isinstance(v, (Str, VecV, AbsVec)):
                    # fat values are their own referent
                    pass
                elif isinstance(v, Agg) and v.kind == 'box':
                    r = v.fields[0]
                    addr, path = r.addr, r.path
                else:
                    raise Abort('unmodelled', 'deref of %r (%s in %s)' % (v, place, frame.fn.name))
            elif k == 'field':
                path = path + (('f', p[1], p[2]),)
            elif k == 'downcast':
                path = path + (('v', p[1]),)
            elif k == 'constindex':
                if p[3]:
                    raise Abort('unmodelled', 'from-end const index')
                path = path + (('i', p[1]),)
            elif k == 'index':
                iv = self.load(st, frame.locals[p[1]])
                c = self.concrete_int(iv.e)
                if c is None:
                    raise Abort('unmodelled', 'symbolic index projection %s in %s' % (place, frame.fn.name))
                path = path + (('i', c),)
            else:
                raise Abort('unmodelled', 'projection %r' % (p,))
        return addr, path

    def read_place(self, st, frame, place):
        addr, path = self.place_addr(st, frame, place)
        v = self.load(st, addr, path)
        if isinstance(v, Uninit):
            raise Abort('unmodelled', 'read of uninitialised %s in %s' % (place, frame.fn.name))
        return v

    def write_place(self, st, frame, place, val):
        addr, path = self.place_addr(st, frame, place)
        self.store(st, addr, path, val)

    # -------------------------------------------------------------------------------------------
    # operands / constants
    # -------------------------------------------------------------------------------------------
    def eval_operand(self, st, frame, op):
        if op[0] in ('copy', 'move'):
            return self.read_place(st, frame, op[1])
        return self.eval_const(st, frame, op[1])

    def eval_const(self, st, frame, text):
        t = text.strip()
        m = _int_const_re.match(t)
        if m:
            w, s = INT_TYPES[m.group(2)]
            return Int(z3.BitVecVal(int(m.group(1)), w), s)
        if t == 'true':
            return Bool(True)
        if t == 'false':
            return Bool(False)
        if t == '()':
            return UNIT
        m = _float_const_re.match(t)
        if m:
            sort = F64 if m.group(2) == 'f64' else F32
            txt = m.group(1)
            if txt in ('NaN', '-NaN'):
                return Float(z3.fpNaN(sort))
            if txt == 'inf':
                return Float(z3.fpPlusInfinity(sort))
            if txt == '-inf':
                return Float(z3.fpMinusInfinity(sort))
            x = float(txt)
            if sort is F64:
                e = fp_from_python(x)
            else:
                e = z3.FPVal(x, sort)
            if txt.startswith('-') and x == 0:
                e = z3.fpNeg(fp_from_python(0.0)) if sort is F64 else z3.FPVal(-0.0, sort)
            return Float(e)
        if t.startswith('"'):
            return str_const(decode_rust_str(t[1:-1]))
        if t.startswith('b"'):
            b = decode_rust_str(t[2:-1])
            a = st.alloc(VecV([Int(z3.BitVecVal(x, 8), False) for x in b], 'u8'))
            return Ref(a)
        if t.startswith("'"):
            b = decode_rust_str(t[1:-1]).decode('utf-8')
            return Char(z3.BitVecVal(ord(b), 32))
        if t.startswith('ZeroSized: '):
            ty = t[len('ZeroSized: '):]
            if ty.startswith('{closure@'):
                return Agg('closure', strip_path(ty), {})
            if ty.startswith('fn(') or '::' in ty or ty[:1].islower():
                return FnItem(ty)
            return Agg('struct', strip_path(ty), {})
        if t.startswith('fnitem '):
            return FnItem(t[7:])
        m = re.match(r'^.*::promoted\[(\d+)\]$', t)
        if m:
            name = frame.fn.name + '::promoted[%s]' % m.group(1)
            return self.eval_named_const(st, name)
        last = t.split('::')[-1]
        if ('f64' in t) and last in NAMED_F64:
            return Float(NAMED_F64[last])
        m = re.match(r'^(?:.*\b)?(u8|u16|u32|u64|u128|usize|i8|i16|i32|i64|i128|isize)>?::(MAX|MIN|BITS)$', t)
        if m:
            w, s = INT_TYPES[m.group(1)]
            if m.group(2) == 'BITS':
                return Int(z3.BitVecVal(w, 32), False)
            if m.group(2) == 'MAX':
                val = (1 << (w - 1)) - 1 if s else (1 << w) - 1
            else:
                val = -(1 << (w - 1)) if s else 0
            return Int(z3.BitVecVal(val, w), s)
        # crate constant: find by suffix
        cands = [n for n in self.mir.const_index if n == t or n.endswith('::' + t) or t.endswith('::' + n)]
        if not cands:
            tl = '::'.join(t.split('::')[-2:])
            cands = [n for n in self.mir.const_index if n.endswith(tl)]
        if len(cands) == 1:
            return self.eval_named_const(st, cands[0])
        if t.startswith('Slice {') or t.endswith(': &CStr') or t.endswith('&std::ffi::CStr') or t.endswith('&core::ffi::CStr'):
            return Opaque('&CStr', tag=t[:40])           # C string literal: contents never inspected by the kernels
        if self.auto_havoc:
            return Opaque('const', tag=t[:60])
        raise Abort('unmodelled', 'constant %s (%d candidates)' % (t, len(cands)))

    def eval_named_const(self, st, name):
        key = ('const', name)
        if key in st.extra:
            return st.extra[key]
        try:
            fn = self.mir.get(name)
        except KeyError:
            raise Abort('unmodelled', 'constant body %s not in dump' % name)
        sub = State()
        sub.store = st.store       # share cells
        sub.extra = st.extra
        fr = Frame(fn)
        sub.frames = [fr]
        ends = self.run(sub)
        if len(ends) != 1 or ends[0].status != 'return':
            raise Abort('unmodelled', 'constant %s did not evaluate to a single value: %r' % (name, ends))
        v = ends[0].value
        st.store.update(ends[0].st.store)
        st.extra[key] = v
        return v

    # -------------------------------------------------------------------------------------------
    # rvalues
    # -------------------------------------------------------------------------------------------
    def eval_rvalue(self, st, frame, rv, dest_ty=None):
        k = rv[0]
        if k == 'use':
            return self.eval_operand(st, frame, rv[1])
        if k == 'ref' or k == 'rawptr':
            place = rv[2]
            # &(*p) where p holds a fat value (str / slice): the reference is the value itself
            addr, path = self.place_addr(st, frame, place)
            if place.proj and place.proj[-1][0] == 'deref':
                v = self.load(st, addr, path)
                if isinstance(v, (Str,)):
                    return v
            return Ref(addr, path)
        if k == 'binop':
            a = self.eval_operand(st, frame, rv[2])
            b = self.eval_operand(st, frame, rv[3])
            return self.binop(st, rv[1], a, b)
        if k == 'unop':
            a = self.eval_operand(st, frame, rv[2])
            return self.unop(st, rv[1], a)
        if k == 'cast':
            a = self.eval_operand(st, frame, rv[1])
            return self.cast(st, a, rv[2], rv[3])
        if k == 'discr':
            v = self.read_place(st, frame, rv[1])
            if not isinstance(v, EnumV):
                raise Abort('unmodelled', 'discriminant of %r' % (v,))
            # the discriminant has the type of the destination local (isize by default, i8 for Ordering, ...)
            w, sg = INT_TYPES.get(strip_path(dest_ty), (64, True)) if dest_ty else (64, True)

            def fit(e64):
                return e64 if w == 64 else z3.Extract(w - 1, 0, e64)
            if isinstance(v.discr, int):
                return Int(z3.BitVecVal(self.variant_discr(v.ty, v.discr), w), sg)
            b = self.enum_base(v.ty)
            tbl = STD_ENUM_DISCR.get(b) or self.src.enum_discr.get(b)
            if tbl:
                vs = self.enum_variants(v.ty)
                e = z3.BitVecVal(0, w)
                for i, name in enumerate(vs):
                    e = z3.If(v.discr == i, z3.BitVecVal(self.variant_discr(v.ty, i), w), e)
                return Int(e, sg)
            return Int(fit(v.discr), sg)
        if k == 'len':
            v = self.read_place(st, frame, rv[1])
            return self.vec_len(v)
        if k == 'tuple':
            vals = [self.eval_operand(st, frame, o) for o in rv[1]]
            if not vals:
                return UNIT
            return Agg('tuple', dest_ty or 'tuple', {i: v for i, v in enumerate(vals)})
        if k == 'array':
            vals = [self.eval_operand(st, frame, o) for o in rv[1]]
            return Agg('array', dest_ty or 'array', {i: v for i, v in enumerate(vals)})
        if k == 'repeat':
            v = self.eval_operand(st, frame, rv[1])
            n = int(re.sub(r'_usize$', '', rv[2].replace('const ', '')))
            return Agg('array', dest_ty or 'array', {i: v for i in range(n)})
        if k == 'closure':
            vals = {i: self.eval_operand(st, frame, o) for i, (nm, o) in enumerate(rv[2])}
            return Agg('closure', strip_path(rv[1]), vals)
        if k == 'adt':
            return self.eval_adt(st, frame, rv, dest_ty)
        raise Abort('unmodelled', 'rvalue %r' % (rv,))

    STD_STRUCT_FIELDS = {
        'Range': ['start', 'end'], 'RangeTo': ['end'], 'RangeFrom': ['start'], 'RangeInclusive': ['start', 'end', 'exhausted'],
        'RangeToInclusive': ['end'],
    }

    def eval_adt(self, st, frame, rv, dest_ty):
        _, path, fields, style = rv
        segs = []
        for s in split_path(path):
            s = s.strip()
            if s.startswith('<') and s.endswith('>') and find_top(s[1:-1], ' as ') < 0 and segs:
                continue
            segs.append(s)
        vals = [(nm, self.eval_operand(st, frame, o)) for nm, o in fields]
        last = segs[-1]
        if len(segs) >= 2:
            en = strip_path(segs[-2])
            vs = STD_ENUMS.get(en) or self.src.enums.get(en)
            if vs is not None and last in vs:
                idx = vs.index(last)
                if style == 'named':
                    names = self.src.enum_fields.get((en, last))
                    pl = {names.index(nm): v for nm, v in vals}
                else:
                    pl = {i: v for i, (nm, v) in enumerate(vals)}
                ty = strip_path(dest_ty) if dest_ty else en
                return EnumV(ty, idx, {idx: pl})
        # struct
        name = strip_path(last)
        k = name.find('<')
        if k > 0:
            name = name[:k]
        if style == 'named':
            names = self.STD_STRUCT_FIELDS.get(name) or self.src.structs.get(name)
            if names is None:
                raise Abort('unmodelled', 'unknown struct %s' % name)
            want = [nm for nm, v in vals]
            if any(w not in names for w in want):
                for cand in self.src.structs_all.get(name, []):
                    if all(w in cand for w in want):
                        names = cand
                        break
            d = {names.index(nm): v for nm, v in vals}
        else:
            d = {i: v for i, (nm, v) in enumerate(vals)}
        if style == 'unit' and name not in self.src.structs:
            # might be a unit variant printed without enum path; try all enums
            raise Abort('unmodelled', 'unit aggregate %s' % path)
        return Agg('struct', strip_path(dest_ty) if dest_ty else name, d)

    def vec_len(self, v):
        if isinstance(v, VecV):
            return Int(z3.BitVecVal(len(v.items), 64), False)
        if isinstance(v, AbsVec):
            return Int(v.n, False)
        if isinstance(v, Str):
            return Int(z3.ZeroExt(64 - LW, v.n), False)
        if isinstance(v, Agg) and v.kind == 'array':
            return Int(z3.BitVecVal(len(v.fields), 64), False)
        raise Abort('unmodelled', 'len of %r' % (v,))

    def binop(self, st, op, a, b):
        if isinstance(a, Int) and isinstance(b, Int):
            x, y = a.e, b.e
            s = a.signed
            w = a.width
            if op in ('Shl', 'Shr', 'ShlUnchecked', 'ShrUnchecked'):
                if y.size() < w:
                    y = z3.ZeroExt(w - y.size(), y)
                elif y.size() > w:
                    y = z3.Extract(w - 1, 0, y)
                y = y & (w - 1)
                if op.startswith('Shl'):
                    return Int(x << y, s)
                return Int((x >> y) if s else z3.LShR(x, y), s)
            if x.size() != y.size():
                raise Abort('unmodelled', 'binop width mismatch %s' % op)
            if op in ('Add', 'AddUnchecked'):
                return Int(x + y, s)
            if op in ('Sub', 'SubUnchecked'):
                return Int(x - y, s)
            if op in ('Mul', 'MulUnchecked'):
                return Int(x * y, s)
            if op == 'Div':
                return Int(x / y if s else z3.UDiv(x, y), s)
            if op == 'Rem':
                return Int(z3.SRem(x, y) if s else z3.URem(x, y), s)
            if op == 'BitAnd':
                return Int(x & y, s)
            if op == 'BitOr':
                return Int(x | y, s)
            if op == 'BitXor':
                return Int(x ^ y, s)
            if op == 'Eq':
                return Bool(x == y)
            if op == 'Ne':
                return Bool(x != y)
            if op == 'Lt':
                return Bool(x < y if s else z3.ULT(x, y))
            if op == 'Le':
                return Bool(x <= y if s else z3.ULE(x, y))
            if op == 'Gt':
                return Bool(x > y if s else z3.UGT(x, y))
            if op == 'Ge':
                return Bool(x >= y if s else z3.UGE(x, y))
            if op == 'AddWithOverflow':
                r = x + y
                if s:
                    ov = z3.SignExt(1, x) + z3.SignExt(1, y) != z3.SignExt(1, r)
                else:
                    ov = z3.ULT(r, x)
                return Agg('tuple', 'ovf', {0: Int(r, s), 1: Bool(ov)})
            if op == 'SubWithOverflow':
                r = x - y
                if s:
                    ov = z3.SignExt(1, x) - z3.SignExt(1, y) != z3.SignExt(1, r)
                else:
                    ov = z3.ULT(x, y)
                return Agg('tuple', 'ovf', {0: Int(r, s), 1: Bool(ov)})
            if op == 'MulWithOverflow':
                r = x * y
                # widening multiplication (portable SMT-LIB: the bvumul_noovfl predicates are not known to z3 4.8 / cvc5 1.0)
                if s:
                    wide = z3.SignExt(w, x) * z3.SignExt(w, y)
                    ov = wide != z3.SignExt(w, r)
                else:
                    wide = z3.ZeroExt(w, x) * z3.ZeroExt(w, y)
                    ov = z3.Extract(2 * w - 1, w, wide) != 0
                return Agg('tuple', 'ovf', {0: Int(r, s), 1: Bool(ov)})
            if op == 'Cmp':
                lt = x < y if s else z3.ULT(x, y)
                d = z3.If(lt, z3.BitVecVal(0, 64), z3.If(x == y, z3.BitVecVal(1, 64), z3.BitVecVal(2, 64)))
                return EnumV('Ordering', d, {})
        if isinstance(a, Bool) and isinstance(b, Bool):
            if op == 'Eq':
                return Bool(a.e == b.e)
            if op == 'Ne':
                return Bool(a.e != b.e)
            if op == 'BitAnd':
                return Bool(z3.And(a.e, b.e))
            if op == 'BitOr':
                return Bool(z3.Or(a.e, b.e))
            if op == 'BitXor':
                return Bool(z3.Xor(a.e, b.e))
        if isinstance(a, Float) and isinstance(b, Float):
            x, y = a.e, b.e
            if op == 'Add':
                return Float(z3.fpAdd(RNE, x, y))
            if op == 'Sub':
                return Float(z3.fpSub(RNE, x, y))
            if op == 'Mul':
                return Float(z3.fpMul(RNE, x, y))
            if op == 'Div':
                return Float(z3.fpDiv(RNE, x, y))
            if op == 'Eq':
                return Bool(z3.fpEQ(x, y))
            if op == 'Ne':
                return Bool(z3.Not(z3.fpEQ(x, y)))
            if op == 'Lt':
                return Bool(z3.fpLT(x, y))
            if op == 'Le':
                return Bool(z3.fpLEQ(x, y))
            if op == 'Gt':
                return Bool(z3.fpGT(x, y))
            if op == 'Ge':
                return Bool(z3.fpGEQ(x, y))
            if op == 'Rem':
                raise Abort('unmodelled', 'f64 % (fmod) has no SMT-FP counterpart')
        if isinstance(a, Char) and isinstance(b, Char):
            x, y = a.e, b.e
            tbl = {'Eq': x == y, 'Ne': x != y, 'Lt': z3.ULT(x, y), 'Le': z3.ULE(x, y), 'Gt': z3.UGT(x, y), 'Ge': z3.UGE(x, y)}
            if op in tbl:
                return Bool(tbl[op])
        if isinstance(a, Ref) and isinstance(b, Ref) and op in ('Eq', 'Ne'):
            same = (a.addr == b.addr and a.path == b.path)
            return Bool(same if op == 'Eq' else not same)
        if isinstance(a, Opaque) and isinstance(b, Opaque) and op in ('Eq', 'Ne'):
            e = a.id == b.id
            return Bool(e if op == 'Eq' else z3.Not(e))
        raise Abort('unmodelled', 'binop %s on %r, %r' % (op, a, b))

    def unop(self, st, op, a):
        if op == 'Not':
            if isinstance(a, Bool):
                return Bool(z3.Not(a.e))
            if isinstance(a, Int):
                return Int(~a.e, a.signed)
        if op == 'Neg':
            if isinstance(a, Int):
                return Int(-a.e, a.signed)
            if isinstance(a, Float):
                return Float(z3.fpNeg(a.e))
        if op == 'PtrMetadata':
            if isinstance(a, (Str, VecV, AbsVec)):
                return self.vec_len(a)
            if isinstance(a, Ref):
                return self.vec_len(self.load(st, a.addr, a.path))
        raise Abort('unmodelled', 'unop %s on %r' % (op, a))

    def float_to_int(self, x, w, signed):
        """Rust `as`: NaN -> 0, saturate, round toward zero"""
        sort = x.sort()
        if signed:
            lo, hi = -(1 << (w - 1)), (1 << (w - 1)) - 1
            conv = z3.fpToSBV(RTZ, x, z3.BitVecSort(w))
        else:
            lo, hi = 0, (1 << w) - 1
            conv = z3.fpToUBV(RTZ, x, z3.BitVecSort(w))
        # thresholds as exact doubles: hi+1 = 2^(w-1) or 2^w is exactly representable; lo is exactly representable
        hi1 = z3.fpRealToFP(RNE, z3.RealVal(hi + 1), sort)
        lof = z3.fpRealToFP(RNE, z3.RealVal(lo), sort)
        if signed:
            too_low = z3.fpLT(x, lof)
        else:
            too_low = z3.fpLEQ(x, z3.fpRealToFP(RNE, z3.RealVal(-1), sort))
            # (-1, 0) truncates to 0, fpToUBV of negative fractions rounds toward zero -> 0: in range
        return z3.If(z3.fpIsNaN(x), z3.BitVecVal(0, w),
                     z3.If(z3.fpGEQ(x, hi1), z3.BitVecVal(hi, w),
                           z3.If(too_low, z3.BitVecVal(lo, w), conv)))

    def cast(self, st, a, ty, kind):
        t = strip_path(ty)
        if kind.startswith('IntToInt'):
            w, s = INT_TYPES[t]
            if isinstance(a, Bool):
                return Int(z3.If(a.e, z3.BitVecVal(1, w), z3.BitVecVal(0, w)), s)
            if isinstance(a, Char):
                e = a.e
                aw, asg = 32, False
            elif isinstance(a, EnumV):
                e = a.discr_expr()
                aw, asg = 64, True
            else:
                e = a.e
                aw, asg = a.width, a.signed
            st.event('cast', aw, asg, w, s, e)
            if w == aw:
                return Int(e, s)
            if w < aw:
                return Int(z3.Extract(w - 1, 0, e), s)
            return Int(z3.SignExt(w - aw, e) if asg else z3.ZeroExt(w - aw, e), s)
        if kind.startswith('FloatToInt'):
            w, s = INT_TYPES[t]
            r = Int(self.float_to_int(a.e, w, s), s)
            st.event('f2i', w, s, r.e, a.e)
            return r
        if kind.startswith('IntToFloat'):
            sort = F64 if t == 'f64' else F32
            src = (a.e, a.signed) if (sort is F64 and a.width <= 32) else None
            if a.signed:
                return Float(z3.fpSignedToFP(RNE, a.e, sort), src)
            return Float(z3.fpUnsignedToFP(RNE, a.e, sort), src)
        if kind.startswith('FloatToFloat'):
            sort = F64 if t == 'f64' else F32
            return Float(z3.fpFPToFP(RNE, a.e, sort))
        if kind.startswith('PtrToPtr') or kind.startswith('PointerCoercion') or kind.startswith('Transmute') \
                or kind.startswith('PointerExposeProvenance') or kind.startswith('PointerWithExposedProvenance'):
            if kind.startswith('Transmute'):
                if isinstance(a, Float) and t == 'u64':
                    return Int(z3.fpToIEEEBV(a.e), False)
                if isinstance(a, Int) and t == 'f64':
                    return Float(z3.fpBVToFP(a.e, F64))
                if isinstance(a, Int) and t == 'char':
                    return Char(a.e)
                if isinstance(a, Char) and t == 'u32':
                    return Int(a.e, False)
            if isinstance(a, (Ref, Str, VecV, AbsVec, FnItem, Opaque, Agg)):
                return a
        raise Abort('unmodelled', 'cast %r as %s (%s)' % (a, ty, kind))

    # -------------------------------------------------------------------------------------------
    # havoc (assume-guarantee for callees that reach the heap)
    # -------------------------------------------------------------------------------------------
    def havoc(self, pattern, framed=None, ret=None, label=None, effect=None, only_if=None):
        """calls matching pattern return a fresh value of their return type, are recorded as an event, and may
        rewrite every field of lazily materialised `&mut` struct arguments except the framed ones.
        framed: {struct type name: set of field indices that the callee is assumed not to touch}
        ret: optional fn(ex, st, call) -> value; effect: optional fn(ex, st, call) run before returning"""
        framed = framed or {}

        def h(ex, st, call):
            name = label or call.norm
            if only_if is not None and not only_if(ex, st, call):
                return None
            ex.havoc_used.add(name)
            st.event('call', name, tuple(call.args))
            for a in call.args:
                if isinstance(a, Ref):
                    tgt = st.store.get(a.addr)
                    if a.path == () and isinstance(tgt, Agg) and tgt.lazy and tgt.kind == 'struct':
                        keep = framed.get(tgt.ty.split('<')[0], None)
                        if keep is None:
                            continue     # not declared: callee gets the reference read-only
                        allf = ex.src.structs.get(tgt.ty.split('<')[0].split('::')[-1])
                        if allf is not None and all(i in keep for i in range(len(allf))):
                            continue     # every field framed: the object is untouched (also its not yet materialised parts)
                        # the rewritten parts are NEW unknowns: give the cell a fresh generation name, otherwise the lazily
                        # re-materialised fields would reuse the symbols (and the constraints) of the values before the call
                        gen = sum(1 for e_ in st.events if e_[0] == 'call' and e_[1] == name)
                        st.store[a.addr] = Agg(tgt.kind, tgt.ty, {i: v for i, v in tgt.fields.items() if i in keep}, lazy=True,
                                               nm='$hvm:%s.%d.%d' % (name, gen, list(call.args).index(a)))
            if effect is not None:
                effect(ex, st, call)
            if ret is not None:
                v = ret(ex, st, call)
            else:
                ty = call.dest_ty
                if ty is None:
                    fname = None
                    try:
                        fname = ex.resolve_crate_fn(call)
                    except Abort:
                        pass
                    if fname is not None:
                        ty = ex.mir.get(fname).ret_type
                if ty is None:
                    raise Abort('unmodelled', 'havoc of %s: unknown return type' % call.callee)
                k = sum(1 for e_ in st.events if e_[0] == 'call' and e_[1] == name)
                v = ex.fresh(st, ty, '$hv:%s.%d' % (name, k))
            return ex.ret(st, call, v)
        self.overrides.append((re.compile(pattern), h))

    # -------------------------------------------------------------------------------------------
    # crate function resolution
    # -------------------------------------------------------------------------------------------
    def _build_fnkeys(self):
        self._fnkeys = {}
        self._closures = {}
        self._free = {}
        for name in self.mir.fn_index:
            m = re.search(r'<impl at (src/[^:]+):(\d+):(\d+): \d+:\d+>::(.*)$', name)
            if m:
                rest = m.group(4)
                if '{closure#' in rest or '::' in rest:
                    # closure or nested item
                    pass
                else:
                    r = self.src.impl_at(m.group(1), int(m.group(2)), int(m.group(3)))
                    if r:
                        self._fnkeys.setdefault((r[0], r[1], rest), []).append(name)
                    continue
            if '{closure#' in name:
                continue
            last = name.split('::')[-1]
            self._free.setdefault(last, []).append(name)

    def closure_fn(self, closure_ty):
        """closure type text '{closure@src/lib.rs:839:36: 839:41}' -> function name"""
        if self._closures is None or not self._closures:
            self._closures = {}
            for name in self.mir.fn_index:
                if '{closure#' in name:
                    start, _ = self.mir.fn_index[name]
                    head = self.mir.lines[start]
                    m = re.search(r'\(_1: (?:&mut |&)?(\{closure@[^}]*\})', head)
                    if m:
                        self._closures[m.group(1)] = name
        key = closure_ty
        m = re.search(r'\{closure@[^}]*\}', closure_ty)
        if m:
            key = m.group(0)
        return self._closures.get(key)

    def resolve_crate_fn(self, call):
        if self._fnkeys is None:
            self._build_fnkeys()
        segs = call.segs
        method = segs[-1]
        cands = []
        if call.self_ty is not None:
            tb = impl_ty_name(call.self_ty)
            trait = None
            if call.trait:
                trait = call.trait
                k = trait.find('<')
                if k > 0:
                    trait = trait[:k]
            cands = self._fnkeys.get((tb, trait, method), [])
            if not cands and trait is None:
                # inherent call printed as Type::method, may be a trait method too
                for (t, tr, mth), names in self._fnkeys.items():
                    if t == tb and mth == method:
                        cands = cands + names
        else:
            cands = self._free.get(method, [])
            if len(cands) > 1 and len(segs) >= 2:
                c2 = [c for c in cands if c.endswith(segs[-2] + '::' + method)]
                if c2:
                    cands = c2
        if len(cands) == 1:
            return cands[0]
        if len(cands) > 1:
            raise Abort('unmodelled', 'ambiguous callee %s: %s' % (call.callee, cands[:4]))
        return None

    # -------------------------------------------------------------------------------------------
    # execution
    # -------------------------------------------------------------------------------------------
    def control_digest(self, st):
        """decided Result / ControlFlow / Option<Result> cases in all frames' locals (what steers early returns)"""
        out = []
        for f in st.frames:
            for loc, addr in f.locals.items():
                v = st.store.get(addr)
                if isinstance(v, EnumV) and isinstance(v.discr, int) and (v.ty.startswith('Result') or v.ty.startswith('ControlFlow')):
                    out.append((loc, v.discr))
        return tuple(out)

    def concrete_digest(self, st):
        """the concrete (path-determined) parts of all frames' locals: enum discriminants, concrete ints and bools.
        Used by coarse state merging so that states that differ in a decided case are never merged."""
        out = []
        for f in st.frames:
            for loc, addr in f.locals.items():
                v = st.store.get(addr)
                if isinstance(v, EnumV) and isinstance(v.discr, int):
                    d = [v.discr]
                    for pl in v.payload.get(v.discr, {}).values():
                        if isinstance(pl, EnumV) and isinstance(pl.discr, int):
                            d.append(pl.discr)
                    out.append((loc, tuple(d)))
                elif isinstance(v, Bool):
                    c = self.concrete_bool(v.e)
                    if c is not None:
                        out.append((loc, c))
                elif isinstance(v, Int):
                    c = self.concrete_int(v.e)
                    if c is not None:
                        out.append((loc, c))
        return tuple(out)

    def enter_block(self, st, frame, bb):
        n = frame.visits.get(bb, 0) + 1
        if n > self.unwind:
            raise Abort('bound', 'unwinding bound %d exceeded at %s of %s' % (self.unwind, bb, frame.fn.name))
        frame.visits[bb] = n
        frame.block = bb
        frame.idx = 0

    def push_frame(self, st, fname, args, dest, ret_block, on_return=None):
        fn = self.mir.get(fname)
        self.functions_encoded.add(fname)
        fr = Frame(fn)
        if len(args) != len(fn.args):
            raise Abort('unmodelled', 'arity mismatch calling %s' % fname)
        for (loc, ty), v in zip(fn.args, args):
            fr.locals[loc] = st.alloc(v)
        fr.dest = dest
        fr.ret_block = ret_block
        fr.on_return = on_return
        fr.visits = {'bb0': 1}
        if len(st.frames) > 60:
            raise Abort('bound', 'call depth')
        st.frames.append(fr)

    def call_function(self, st, fname, args):
        """start executing crate function fname with args in state st (harness entry)"""
        self.push_frame(st, fname, args, None, None)

    def ret(self, st, call, value):
        """complete a modelled call: write result, continue in caller"""
        fr = st.frames[-1]
        if call.dest is not None:
            self.store(st, call.dest[0], call.dest[1], value)
        if call.ret_block is None:
            raise Abort('diverge', call.callee)
        self.enter_block(st, fr, call.ret_block)
        return [st]

    def invoke(self, st, fname, args, cont):
        """call crate function fname; when it returns, cont(ex, st, value) -> list of states"""
        self.push_frame(st, fname, args, None, None, on_return=cont)
        return [st]

    def invoke_callable(self, st, f, args, cont):
        """f: closure Agg / FnItem / Ref to closure"""
        if isinstance(f, Ref):
            f = self.load(st, f.addr, f.path)
        if isinstance(f, Agg) and f.kind == 'closure':
            fname = self.closure_fn(f.ty)
            if fname is None:
                raise Abort('unmodelled', 'closure body not found for %s' % f.ty)
            fn = self.mir.get(fname)
            self_ty = fn.args[0][1]
            if self_ty.startswith('&'):
                a = st.alloc(f)
                selfarg = Ref(a)
            else:
                selfarg = f
            return self.invoke(st, fname, [selfarg] + list(args), cont)
        if isinstance(f, FnItem):
            cs = self.make_call(st, None, f.path, [], None, None)
            cs.args = list(args)
            name = self.resolve_crate_fn(cs)
            if name is None:
                raise Abort('unmodelled', 'fn item %s' % f.path)
            return self.invoke(st, name, list(args), cont)
        raise Abort('unmodelled', 'call of %r' % (f,))

    def make_call(self, st, frame, callee, arg_ops, dest, ret_block):
        cs = CallSite()
        cs.callee = callee
        cs.norm, cs.segs, cs.generics, cs.self_ty, cs.trait = normalise_callee(callee)
        cs.arg_ops = arg_ops
        cs.args = [self.eval_operand(st, frame, o) for o in arg_ops] if frame is not None else []
        cs.dest = dest
        cs.ret_block = ret_block
        cs.dest_ty = None
        return cs

    def do_call(self, st, frame, term):
        _, dest, callee, arg_ops, ret_block = term
        if callee.startswith('move ') or callee.startswith('copy '):
            raise Abort('unmodelled', 'indirect call %s' % callee)
        d = self.place_addr(st, frame, dest) if dest is not None else None
        cs = self.make_call(st, frame, callee, arg_ops, d, ret_block)
        if dest is not None and not dest.proj:
            cs.dest_ty = frame.fn.locals.get(dest.local)
        if self.trace:
            print('  ' * len(st.frames), 'call', cs.norm, cs.args)
        for rx, h in self.overrides:
            if rx.search(callee) or rx.search(cs.norm):
                r = h(self, st, cs)
                if r is not None:
                    return r
        for rx, h in self.models:
            if rx.search(cs.norm):
                r = h(self, st, cs)
                if r is not None:
                    self.models_used.add(cs.norm)
                    return r
        name = self.resolve_crate_fn(cs) if not self.auto_havoc else self._resolve_quiet(cs)
        if name is not None and (not self.auto_havoc or any(rx.search(cs.norm) for rx in self.execute_real)):
            self.push_frame(st, name, cs.args, d, ret_block)
            return [st]
        if self.auto_havoc:
            return self._auto_havoc_call(st, frame, cs, arg_ops)
        raise Abort('unmodelled', 'callee %s (norm %s) in %s' % (callee, cs.norm, frame.fn.name))

    def _resolve_quiet(self, cs):
        try:
            return self.resolve_crate_fn(cs)
        except Abort:
            return None

    def _auto_havoc_call(self, st, frame, cs, arg_ops):
        """assume-guarantee abstraction of every callee that is neither modelled nor on the execute list: arbitrary result,
        arbitrary new contents behind every `&mut` argument, recorded as an event"""
        self.havoc_used.add('[auto] ' + cs.norm)
        st.event('call', cs.norm, ())
        gen = sum(1 for e_ in st.events if e_[0] == 'call' and e_[1] == cs.norm)
        for ai, (op, a) in enumerate(zip(arg_ops, cs.args)):
            if isinstance(a, Ref) and op[0] in ('copy', 'move') and not op[1].proj:
                ty = frame.fn.locals.get(op[1].local, '')
                if ty.startswith('&mut '):
                    inner = ty[5:]
                    tgt = self.load(st, a.addr, a.path)
                    # new contents are NEW unknowns: a fresh generation name keeps their symbols apart from the old ones
                    nm = '$ahm:%s.%d.%d' % (cs.norm, gen, ai)
                    if isinstance(tgt, Agg) and tgt.lazy and tgt.kind == 'struct':
                        keep = self.auto_frames.get(tgt.ty.split('<')[0], set())
                        self.store(st, a.addr, a.path, Agg(tgt.kind, tgt.ty, {i: v for i, v in tgt.fields.items() if i in keep}, lazy=True, nm=nm))
                    else:
                        self.store(st, a.addr, a.path, self.fresh(st, inner, nm))
        ty = cs.dest_ty
        if ty is None:
            raise Abort('unmodelled', 'auto-havoc of %s: unknown return type' % cs.callee)
        if cs.ret_block is None:
            raise Abort('diverge', cs.callee)
        closures = self._closures_in(st, cs.args) if self.auto_invoke_closures else []
        if not closures:
            return self.ret(st, cs, self.fresh(st, ty, 'ah'))
        # an abstracted callee may call the closures it is given: each is run once on arbitrary arguments (its result is dropped)
        self.havoc_used.add('[auto] closures handed to abstracted callees are invoked once with arbitrary arguments')

        def chain(s, k):
            if k == len(closures):
                return self.ret(s, cs, self.fresh(s, ty, 'ah'))
            f = closures[k]
            fname = self.closure_fn(f.ty)
            if fname is None:
                return chain(s, k + 1)
            fn = self.mir.get(fname)
            cargs = [self.fresh(s, t, 'clarg') for (a, t) in fn.args[1:]]
            return self.invoke_callable(s, f, cargs, lambda e_, s2, val: chain(s2, k + 1))
        return chain(st, 0)

    def _closures_in(self, st, vals, depth=0):
        out = []
        if depth > 3:
            return out
        for v in vals:
            if isinstance(v, Ref) and v.addr in st.store and not v.path:
                v = st.store[v.addr]
            if isinstance(v, Agg):
                if v.kind == 'closure':
                    out.append(v)
                else:
                    out += self._closures_in(st, list(v.fields.values()), depth + 1)
        return out

    def do_return(self, st):
        fr = st.frames.pop()
        if '_0' in fr.locals:
            v = self.load(st, fr.locals['_0'])
        else:
            v = UNIT
        if isinstance(v, Uninit):
            v = UNIT
        if fr.on_return is not None:
            return fr.on_return(self, st, v)
        if not st.frames:
            return [PathEnd('return', st, v)]
        caller = st.frames[-1]
        if fr.dest is not None:
            self.store(st, fr.dest[0], fr.dest[1], v)
        if fr.ret_block is None:
            raise Abort('diverge', fr.fn.name)
        self.enter_block(st, caller, fr.ret_block)
        return [st]

    def split(self, st, cond):
        """-> (state where cond holds or None, state where it does not or None); st itself is reused"""
        c = self.concrete_bool(cond)
        if c is True:
            return st, None
        if c is False:
            return None, st
        t_ok = self.feasible(st, cond)
        tm = self.last_model if t_ok else None
        f_ok = self.feasible(st, z3.Not(cond))
        fm = self.last_model if f_ok else None
        if t_ok and f_ok:
            st2 = st.clone()
            st.assume(cond)
            st.model = tm
            st2.assume(z3.Not(cond))
            st2.model = fm
            return st, st2
        if t_ok:
            st.assume(cond)
            st.model = tm
            return st, None
        if f_ok:
            st.assume(z3.Not(cond))
            st.model = fm
            return None, st
        return None, None

    def step(self, st):
        """run the top frame to the end of its current block; -> list of State | PathEnd"""
        frame = st.frames[-1]
        blk = frame.fn.blocks[frame.block]
        self.mir.parse_block(blk)
        fnl = frame.fn.locals
        for s in blk.stmts[frame.idx:]:
            k = s[0]
            if k == 'assign':
                place = s[1]
                dty = fnl.get(place.local) if not place.proj else (place.proj[-1][2] if place.proj[-1][0] == 'field' else None)
                v = self.eval_rvalue(st, frame, s[2], dty)
                self.write_place(st, frame, place, v)
            elif k == 'setdiscr':
                v = self.read_place(st, frame, s[1])
                self.write_place(st, frame, s[1], EnumV(v.ty, s[2], v.payload, v.lazy, v.nm))
            elif k == 'assume':
                v = self.eval_operand(st, frame, s[1])
                st.assume(v.e)
        t = blk.term
        k = t[0]
        if k == 'goto':
            self.enter_block(st, frame, t[1])
            return [st]
        if k == 'return':
            return self.do_return(st)
        if k == 'call':
            return self.do_call(st, frame, t)
        if k == 'drop':
            self.enter_block(st, frame, t[2])
            return [st]
        if k == 'switch':
            v = self.eval_operand(st, frame, t[1])
            if isinstance(v, Bool):
                e = z3.If(v.e, z3.BitVecVal(1, 8), z3.BitVecVal(0, 8))
            elif isinstance(v, (Int, Char)):
                e = v.e
            else:
                raise Abort('unmodelled', 'switch on %r' % (v,))
            w = e.size()
            c = self.concrete_int(e)
            if c is not None:
                for val, bb in t[2]:
                    if (val % (1 << w)) == c:
                        self.enter_block(st, frame, bb)
                        return [st]
                if t[3] is None:
                    raise Abort('unreachable', 'switch without otherwise')
                self.enter_block(st, frame, t[3])
                return [st]
            out = []
            conds = []
            cands = []
            for val, bb in t[2]:
                cond = e == z3.BitVecVal(val, w)
                conds.append(cond)
                cands.append((cond, bb))
            if t[3] is not None:
                cands.append((z3.And([z3.Not(c) for c in conds]) if conds else z3.BoolVal(True), t[3]))
            feas = []
            for cond, bb in cands:
                if self.feasible(st, cond):
                    feas.append((cond, bb, self.last_model))
            for i, (cond, bb, mdl) in enumerate(feas):
                s2 = st if i == len(feas) - 1 else st.clone()
                s2.assume(cond)
                s2.model = mdl
                f2 = s2.frames[-1]
                try:
                    self.enter_block(s2, f2, bb)
                    out.append(s2)
                except Abort as a:
                    out.append(PathEnd(a.status, s2, None, a.detail))
            return out
        if k == 'assert':
            v = self.eval_operand(st, frame, t[1])
            cond = v.e if t[2] else z3.Not(v.e)
            ok, bad = self.split(st, cond)
            out = []
            if bad is not None:
                out.append(PathEnd('panic', bad, None, 'assert failed: %s in %s' % (t[3], frame.fn.name)))
            if ok is not None:
                self.enter_block(ok, ok.frames[-1], t[4])
                out.append(ok)
            return out
        if k == 'unreachable':
            return [PathEnd('unreachable', st, None, 'unreachable in %s %s' % (frame.fn.name, frame.block))]
        raise Abort('unmodelled', 'terminator %r' % (t,))

    def run(self, st, max_paths=100000):
        work = [st]
        ends = []
        seen_keys = set()
        while work:
            s = work.pop()
            if self.subsume_key is not None and s.frames and s.frames[-1].idx == 0:
                k = self.subsume_key(s)
                if k in seen_keys:
                    self.stats['subsumed'] = self.stats.get('subsumed', 0) + 1
                    continue
                seen_keys.add(k)
            try:
                succ = self.step(s)
            except Abort as a:
                ends.append(PathEnd(a.status, s, None, a.detail))
                continue
            except MirSyntaxError as e:
                ends.append(PathEnd('unmodelled', s, None, 'MIR syntax: %s' % e))
                continue
            for x in succ:
                if isinstance(x, PathEnd):
                    ends.append(x)
                else:
                    work.append(x)
            if len(ends) > max_paths:
                raise Inconclusive('path limit exceeded')
        self.stats['paths'] += len(ends)
        return ends
