"""Bounded byte strings over bit-vectors (no use of z3's sequence theory)."""
import z3
from .values import Str, LW, str_const


def bv(n):
    return z3.BitVecVal(n, LW)


def s_at(a, idx):
    """byte at symbolic index idx (BitVec LW); unconstrained beyond cap -> 0"""
    e = z3.BitVecVal(0, 8)
    for i in reversed(range(a.cap)):
        e = z3.If(idx == bv(i), a.bytes[i], e)
    return e


def s_eq(a, b):
    cs = [a.n == b.n]
    m = min(a.cap, b.cap)
    for i in range(m):
        cs.append(z3.Or(z3.UGE(bv(i), a.n), a.bytes[i] == b.bytes[i]))
    if a.cap != b.cap:
        cs.append(z3.ULE(a.n, m))
    return z3.And(cs)


def s_starts_with(a, p):
    cs = [z3.ULE(p.n, a.n)]
    for i in range(p.cap):
        if i < a.cap:
            cs.append(z3.Or(z3.UGE(bv(i), p.n), a.bytes[i] == p.bytes[i]))
        else:
            cs.append(z3.UGE(bv(i), p.n))
    return z3.And(cs)


def s_ends_with(a, p):
    cs = [z3.ULE(p.n, a.n)]
    off = a.n - p.n
    for i in range(p.cap):
        cs.append(z3.Or(z3.UGE(bv(i), p.n), s_at(a, off + bv(i)) == p.bytes[i]))
    return z3.And(cs)


def s_find_byte(a, ch, start=None):
    """first index >= start with byte ch -> (found, idx)"""
    found = z3.BoolVal(False)
    idx = bv(0)
    for i in reversed(range(a.cap)):
        hit = z3.And(z3.ULT(bv(i), a.n), a.bytes[i] == ch)
        if start is not None:
            hit = z3.And(hit, z3.UGE(bv(i), start))
        found = z3.Or(hit, found)
        idx = z3.If(hit, bv(i), idx)
    return found, idx


def s_rfind_byte(a, ch):
    found = z3.BoolVal(False)
    idx = bv(0)
    for i in range(a.cap):
        hit = z3.And(z3.ULT(bv(i), a.n), a.bytes[i] == ch)
        found = z3.Or(hit, found)
        idx = z3.If(hit, bv(i), idx)
    return found, idx


def s_substr(a, start, length, cap=None):
    cap = a.cap if cap is None else cap
    cs = z3.simplify(start)
    if z3.is_bv_value(cs):
        k = cs.as_long()
        bs = [a.bytes[k + j] if k + j < a.cap else z3.BitVecVal(0, 8) for j in range(cap)]
    else:
        bs = [s_at(a, start + bv(j)) for j in range(cap)]
    return Str(length, bs)


def s_concat(parts):
    """concatenate Str values"""
    parts = list(parts)
    if not parts:
        return str_const(b'')
    acc = parts[0]
    for p in parts[1:]:
        acc = s_concat2(acc, p)
    return acc


def s_concat2(a, b):
    an = z3.simplify(a.n)
    if z3.is_bv_value(an):
        k = an.as_long()
        return Str(z3.simplify(a.n + b.n), list(a.bytes[:k]) + list(b.bytes))
    cap = a.cap + b.cap
    bs = []
    for j in range(cap):
        inb = s_at(b, bv(j) - a.n)
        if j < a.cap:
            bs.append(z3.If(z3.ULT(bv(j), a.n), a.bytes[j], inb))
        else:
            bs.append(inb)
    return Str(a.n + b.n, bs)


def s_contains(a, p):
    """p occurs in a (p concrete-cap small)"""
    alts = []
    for i in range(a.cap + 1):
        cs = [z3.ULE(bv(i) + p.n, a.n)]
        for j in range(p.cap):
            if i + j < a.cap:
                cs.append(z3.Or(z3.UGE(bv(j), p.n), a.bytes[i + j] == p.bytes[j]))
            else:
                cs.append(z3.UGE(bv(j), p.n))
        alts.append(z3.And(cs))
    return z3.Or(alts)


def s_model_bytes(model, s):
    n = model.eval(s.n, model_completion=True).as_long()
    out = bytearray()
    for i in range(min(n, s.cap)):
        out.append(model.eval(s.bytes[i], model_completion=True).as_long())
    return bytes(out)
