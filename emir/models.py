"""Models of std/core functions (documented contract of each API) used by the MIR executor.

Every model that fires is recorded in Executor.models_used and listed in the evidence.
A handler returns a list of successor states (or PathEnd objects), or None when it does not apply.
"""
import re
import z3

from .values import *
from .strings import *

REGISTRY = []


def model(pattern):
    def deco(fn):
        REGISTRY.append((re.compile(pattern), fn))
        return fn
    return deco


def deref(ex, st, v):
    if isinstance(v, Ref):
        return ex.load(st, v.addr, v.path)
    return v


def deref2(ex, st, v):
    v = deref(ex, st, v)
    return deref(ex, st, v)


def as_byte(ex, ch):
    """Char -> BitVec 8; only ASCII pattern chars are modelled"""
    c = ex.concrete_int(ch.e)
    if c is None or c >= 128:
        from .symex import Abort
        raise Abort('unmodelled', 'non-ASCII or symbolic char pattern')
    return z3.BitVecVal(c, 8)


def usize(e):
    """BitVec LW -> Int usize"""
    return Int(z3.ZeroExt(64 - LW, e), False)


def to_lw(i):
    return z3.Extract(LW - 1, 0, i.e)


def unmodelled(msg):
    from .symex import Abort
    raise Abort('unmodelled', msg)


# ------------------------------------------------------------------------------------------------
# identity-like plumbing
# ------------------------------------------------------------------------------------------------
@model(r'^hint::must_use$|^must_use$')
def m_must_use(ex, st, call):
    return ex.ret(st, call, call.args[0])


@model(r'^<.* as IntoIterator>::into_iter$')
def m_into_iter(ex, st, call):
    v = call.args[0]
    t = call.self_ty or ''
    if isinstance(v, Agg) and v.kind == 'iter':
        return ex.ret(st, call, v)
    if isinstance(v, VecV):
        return ex.ret(st, call, Agg('iter', 'IntoIter', {0: v, 1: 0}))
    if isinstance(v, Ref):
        tgt = deref(ex, st, v)
        if isinstance(tgt, VecV):
            return ex.ret(st, call, Agg('iter', 'Iter', {0: v, 1: 0, 2: len(tgt.items)}))
        if isinstance(tgt, Agg) and tgt.kind == 'array':
            return ex.ret(st, call, Agg('iter', 'Iter', {0: v, 1: 0, 2: len(tgt.fields)}))
    if isinstance(v, Agg) and v.kind == 'struct' and v.ty.startswith('Range'):
        return ex.ret(st, call, v)
    return None


@model(r'^<String as Deref>::deref$|^<String as AsRef<str>>::as_ref$|^String::as_str$|^<String as Borrow<str>>::borrow$|^<str as AsRef<str>>::as_ref$')
def m_string_deref(ex, st, call):
    return ex.ret(st, call, deref(ex, st, call.args[0]))


@model(r'^<(str|String|&str) as ToString>::to_string$|^<str as ToOwned>::to_owned$|^<String as Clone>::clone$|^<String as From<&str>>::from$|^<&str as Into<String>>::into$|^<String as Into<String>>::into$|^<impl Into<String> as Into<String>>::into$|^<String as From<String>>::from$|^str::to_string$|^str::to_owned$|^<&str as ToString>::to_string$')
def m_to_string(ex, st, call):
    v = deref2(ex, st, call.args[0])
    if not isinstance(v, Str):
        return None
    return ex.ret(st, call, v)


@model(r'^String::new$')
def m_string_new(ex, st, call):
    return ex.ret(st, call, str_const(b''))


@model(r'^str::is_empty$|^String::is_empty$')
def m_str_is_empty(ex, st, call):
    s = deref(ex, st, call.args[0])
    if not isinstance(s, Str):
        return None
    return ex.ret(st, call, Bool(s.n == 0))


@model(r'^str::len$|^String::len$')
def m_str_len(ex, st, call):
    s = deref(ex, st, call.args[0])
    if not isinstance(s, Str):
        return None
    return ex.ret(st, call, usize(s.n))


@model(r'^str::starts_with$')
def m_starts_with(ex, st, call):
    s = deref(ex, st, call.args[0])
    p = call.args[1]
    if isinstance(p, Char):
        b = as_byte(ex, p)
        if s.cap == 0:
            return ex.ret(st, call, Bool(False))
        return ex.ret(st, call, Bool(z3.And(z3.UGE(s.n, 1), s.bytes[0] == b)))
    p = deref(ex, st, p)
    if isinstance(p, Str):
        return ex.ret(st, call, Bool(s_starts_with(s, p)))
    return None


@model(r'^str::ends_with$')
def m_ends_with(ex, st, call):
    s = deref(ex, st, call.args[0])
    p = call.args[1]
    if isinstance(p, Char):
        b = as_byte(ex, p)
        return ex.ret(st, call, Bool(z3.And(z3.UGE(s.n, 1), s_at(s, s.n - 1) == b)))
    p = deref(ex, st, p)
    if isinstance(p, Str):
        return ex.ret(st, call, Bool(s_ends_with(s, p)))
    return None


@model(r'^str::contains$')
def m_contains(ex, st, call):
    s = deref(ex, st, call.args[0])
    p = call.args[1]
    if isinstance(p, Char):
        f, _ = s_find_byte(s, as_byte(ex, p))
        return ex.ret(st, call, Bool(f))
    p = deref(ex, st, p)
    if isinstance(p, Str):
        return ex.ret(st, call, Bool(s_contains(s, p)))
    return None


@model(r'^str::rfind$')
def m_rfind(ex, st, call):
    s = deref(ex, st, call.args[0])
    p = call.args[1]
    if not isinstance(p, Char):
        return None
    f, i = s_rfind_byte(s, as_byte(ex, p))
    return ex.ret(st, call, ex.option_ite(f, usize(i)))


@model(r'^str::find$')
def m_find(ex, st, call):
    s = deref(ex, st, call.args[0])
    p = call.args[1]
    if not isinstance(p, Char):
        return None
    f, i = s_find_byte(s, as_byte(ex, p))
    return ex.ret(st, call, ex.option_ite(f, usize(i)))


@model(r'^str::get$')
def m_str_get(ex, st, call):
    s = deref(ex, st, call.args[0])
    r = call.args[1]
    if not (isinstance(r, Agg) and isinstance(s, Str)):
        return None
    kind = r.ty
    # ASCII-only strings: every index is a char boundary (validity constraint of the bounded strings)
    if kind.startswith('RangeTo'):
        end = to_lw(r.fields[0])
        ok = z3.And(z3.ULE(r.fields[0].e, z3.ZeroExt(64 - LW, s.n)))
        return ex.ret(st, call, ex.option_ite(ok, s_substr(s, bv(0), end)))
    if kind.startswith('RangeFrom'):
        start = to_lw(r.fields[0])
        ok = z3.ULE(r.fields[0].e, z3.ZeroExt(64 - LW, s.n))
        return ex.ret(st, call, ex.option_ite(ok, s_substr(s, start, s.n - start)))
    if kind.startswith('Range'):
        a, b = r.fields[0], r.fields[1]
        ok = z3.And(z3.ULE(a.e, b.e), z3.ULE(b.e, z3.ZeroExt(64 - LW, s.n)))
        return ex.ret(st, call, ex.option_ite(ok, s_substr(s, to_lw(a), to_lw(b) - to_lw(a))))
    return None


@model(r'^<str as PartialEq>::eq$|^<String as PartialEq>::eq$|^<&str as PartialEq>::eq$|^<String as PartialEq<&str>>::eq$|^<String as PartialEq<str>>::eq$|^<str as PartialEq<String>>::eq$|^<&str as PartialEq<String>>::eq$')
def m_str_eq(ex, st, call):
    a = deref2(ex, st, call.args[0])
    b = deref2(ex, st, call.args[1])
    if isinstance(a, Str) and isinstance(b, Str):
        return ex.ret(st, call, Bool(s_eq(a, b)))
    return None


@model(r'^<str as PartialEq>::ne$|^<String as PartialEq>::ne$|^<&str as PartialEq>::ne$')
def m_str_ne(ex, st, call):
    a = deref2(ex, st, call.args[0])
    b = deref2(ex, st, call.args[1])
    if isinstance(a, Str) and isinstance(b, Str):
        return ex.ret(st, call, Bool(z3.Not(s_eq(a, b))))
    return None


# str::split(char) iterator -----------------------------------------------------------------------
@model(r'^str::split$')
def m_split(ex, st, call):
    s = deref(ex, st, call.args[0])
    p = call.args[1]
    if not isinstance(p, Char):
        return None
    return ex.ret(st, call, Agg('iter', 'Split', {0: s, 1: Bool(False), 2: as_byte(ex, p), 3: bv(0)}))


@model(r'^<Split<char> as Iterator>::next$|^<Split<.*char> as Iterator>::next$')
def m_split_next(ex, st, call):
    r = call.args[0]
    it = deref(ex, st, r)
    s, fin, d, pos = it.fields[0], it.fields[1], it.fields[2], it.fields[3]
    f, i = s_find_byte(s, d, start=pos)
    end = z3.If(f, i, s.n)
    piece = s_substr(s, pos, end - pos)
    newfin = z3.Or(fin.e, z3.Not(f))
    ex.store(st, r.addr, r.path, Agg('iter', 'Split', {0: s, 1: Bool(z3.simplify(newfin)), 2: d, 3: z3.simplify(z3.If(f, i + 1, s.n))}))
    return ex.ret(st, call, ex.option_ite(z3.Not(fin.e), piece))


# formatting --------------------------------------------------------------------------------------
@model(r'^Argument::new_display$')
def m_new_display(ex, st, call):
    v = deref2(ex, st, call.args[0])
    return ex.ret(st, call, Agg('fmtarg', 'display', {0: v}))


@model(r'^Argument::new_debug$')
def m_new_debug(ex, st, call):
    v = deref2(ex, st, call.args[0])
    return ex.ret(st, call, Agg('fmtarg', 'debug', {0: v}))


@model(r'^Arguments::new$|^Arguments::new_const$|^Arguments::from_str$')
def m_arguments_new(ex, st, call):
    tmpl = deref(ex, st, call.args[0])
    if isinstance(tmpl, Str):
        # from_str(&'static str): a literal-only template
        return ex.ret(st, call, Agg('fmtargs', 'literal', {0: tmpl, 1: None}))
    args = deref(ex, st, call.args[1]) if len(call.args) > 1 else None
    return ex.ret(st, call, Agg('fmtargs', 'Arguments', {0: tmpl, 1: args}))


def format_to_str(ex, st, fa):
    if fa.ty == 'literal':
        return fa.fields[0]
    tmpl = fa.fields[0]
    args = fa.fields[1]
    bs = [ex.concrete_int(x.e) for x in tmpl.items]
    parts = []
    i = 0
    argi = 0
    while i < len(bs):
        b = bs[i]
        if b == 0:
            break
        if b == 0xC0:
            a = args.fields[argi]
            argi += 1
            if a.ty != 'display':
                ex.models_used.add('format!: {:?} argument rendered as an arbitrary short string')
                parts.append(ex.fresh_str(st, 4, 'fmt'))
                i += 1
                continue
            v = a.fields[0]
            if isinstance(v, Str):
                parts.append(v)
            elif isinstance(v, Int):
                parts.append(int_to_str(ex, st, v))
            elif isinstance(v, Agg) and v.kind == 'struct' and len(v.fields) == 1 and isinstance(v.fields.get(0), Str):
                ex.models_used.add('format!: Display of a non-string/non-integer argument rendered as an arbitrary short string')
                parts.append(ex.fresh_str(st, 4, 'fmt'))
            else:
                # text of a value the kernel does not inspect (error messages, debug names): arbitrary short string
                ex.models_used.add('format!: Display of a non-string/non-integer argument rendered as an arbitrary short string')
                parts.append(ex.fresh_str(st, 4, 'fmt'))
            i += 1
        elif b < 0x80:
            parts.append(str_const(bytes(bs[i + 1:i + 1 + b])))
            i += 1 + b
        else:
            # width / precision / alternate specs: the text is not reconstructed
            ex.models_used.add('format!: template with width/precision specs rendered as an arbitrary short string')
            return ex.fresh_str(st, 6, 'fmt')
    return s_concat(parts)


def int_to_str(ex, st, v):
    c = ex.concrete_int(v.e)
    if c is not None:
        if v.signed and c >= (1 << (v.width - 1)):
            c -= 1 << v.width
        return str_const(str(c).encode())
    if v.signed:
        unmodelled('Display of symbolic signed integer')
    if getattr(v, 'dec', None) is not None:
        # the integer is the value of the decimal digit string `dec`: its canonical spelling is dec without leading zeros
        d = v.dec
        k = bv(0)
        still = z3.BoolVal(True)
        for i in range(d.cap):
            lead = z3.And(still, z3.ULT(bv(i) + 1, d.n), d.bytes[i] == 48)
            k = z3.If(lead, bv(i + 1), k)
            still = lead
        ex.models_used.add('u32::to_string of a parsed decimal: digit string without leading zeros (structural)')
        return s_substr(d, k, d.n - k)
    # unsigned symbolic: decimal digits as fresh variables tied to x by the (total, functional) positional-notation
    # lemma  x == sum d_k * 10^k,  d_k <= 9  - cheaper for the solver than division by constants
    ndig = {8: 3, 16: 5, 32: 10, 64: 20}[v.width]
    w = v.width
    ww = w + 8
    x = z3.ZeroExt(8, v.e)
    digs = [z3.BitVec(fresh_name('dig%d' % k), 8) for k in range(ndig)]   # least significant first
    acc = z3.BitVecVal(0, ww)
    for k in range(ndig):
        st.assume(z3.ULE(digs[k], 9))
        acc = acc + z3.ZeroExt(ww - 8, digs[k]) * z3.BitVecVal(10 ** k, ww)
    # no wrap-around: the top digit is bounded so that the sum fits in ww bits (ndig digits of 9 need < 2^(w+8))
    st.assume(acc == x)
    n = z3.BitVecVal(1, LW)
    for k in range(1, ndig):
        n = z3.If(digs[k] != 0, z3.BitVecVal(k + 1, LW), n)
    # bytes[j] = '0' + digs[n-1-j]
    bs = []
    for j in range(ndig):
        e = z3.BitVecVal(0, 8)
        for k in range(ndig):
            e = z3.If(n - 1 - bv(j) == bv(k), digs[k] + 48, e)
        bs.append(e)
    return Str(n, bs)


@model(r'^fmt::format$')
def m_format(ex, st, call):
    return ex.ret(st, call, format_to_str(ex, st, call.args[0]))


@model(r'^<u32 as ToString>::to_string$|^<usize as ToString>::to_string$|^<u64 as ToString>::to_string$|^<u8 as ToString>::to_string$|^<u16 as ToString>::to_string$')
def m_int_to_string(ex, st, call):
    return ex.ret(st, call, int_to_str(ex, st, deref(ex, st, call.args[0])))


# Option / Result -----------------------------------------------------------------------------------
def enum_is(v, idx):
    if isinstance(v.discr, int):
        return z3.BoolVal(v.discr == idx)
    return v.discr == idx


def payload(ex, st, v, idx, fld=0):
    pl = v.payload.get(idx, {})
    if fld in pl:
        return ex._force(st, pl[fld])
    unmodelled('payload %d.%d of %r not materialised' % (idx, fld, v))


def opt_payload_or_lazy(ex, st, call, v, idx, argpos=0):
    """payload of a lazily materialised Option/Result; type taken from the call's generic arguments"""
    pl = v.payload.get(idx, {})
    if 0 in pl:
        return ex._force(st, pl[0])
    if v.lazy:
        # type args of Option::<T>:: / Result::<T,E>::
        head, args = type_head(v.ty)
        if args:
            ty = args[0] if (head == 'Option' or idx == 0) else args[1]
            return ex.fresh(st, ty)
        if call.generics and call.generics[0]:
            g = call.generics[0]
            ty = g[0] if (head == 'Option' or idx == 0) else g[1]
            return ex.fresh(st, ty)
    unmodelled('payload of %r' % (v,))


def two_way(ex, st, cond, on_true, on_false):
    """fork on cond; on_true/on_false(st) -> list"""
    t, f = ex.split(st, cond)
    out = []
    if t is not None:
        out += on_true(t)
    if f is not None:
        out += on_false(f)
    return out


@model(r'^Option::and_then$|^Option::map$')
def m_opt_and_then(ex, st, call):
    o, f = call.args
    is_map = call.norm.endswith('map')

    def some(s):
        pv = opt_payload_or_lazy(ex, s, call, o, 1)

        def cont(ex_, s2, val):
            return ex_.ret(s2, call, ex_.some(val) if is_map else val)
        return ex.invoke_callable(s, f, [pv], cont)

    def none(s):
        return ex.ret(s, call, ex.none())
    return two_way(ex, st, enum_is(o, 1), some, none)


@model(r'^Option::unwrap_or$|^Result::unwrap_or$')
def m_unwrap_or(ex, st, call):
    o, d = call.args
    good = 1 if o.ty.startswith('Option') else 0
    c = ex.concrete_bool(enum_is(o, good))
    if c is True:
        return ex.ret(st, call, opt_payload_or_lazy(ex, st, call, o, good))
    if c is False:
        return ex.ret(st, call, d)
    pv = opt_payload_or_lazy(ex, st, call, o, good)
    m = merge(ex, enum_is(o, good), pv, d)
    if m is not None:
        return ex.ret(st, call, m)
    return two_way(ex, st, enum_is(o, good), lambda s: ex.ret(s, call, pv), lambda s: ex.ret(s, call, d))


def merge(ex, cond, a, b):
    """ite over two values of the same shape, or None when shapes differ"""
    if isinstance(a, Int) and isinstance(b, Int) and a.width == b.width:
        return Int(z3.If(cond, a.e, b.e), a.signed)
    if isinstance(a, Bool) and isinstance(b, Bool):
        return Bool(z3.If(cond, a.e, b.e))
    if isinstance(a, Float) and isinstance(b, Float):
        return Float(z3.If(cond, a.e, b.e))
    if isinstance(a, Char) and isinstance(b, Char):
        return Char(z3.If(cond, a.e, b.e))
    if isinstance(a, Str) and isinstance(b, Str):
        cap = max(a.cap, b.cap)
        z = z3.BitVecVal(0, 8)
        bs = [z3.If(cond, a.bytes[i] if i < a.cap else z, b.bytes[i] if i < b.cap else z) for i in range(cap)]
        return Str(z3.If(cond, a.n, b.n), bs)
    return None


@model(r'^Option::unwrap_or_default$')
def m_unwrap_or_default(ex, st, call):
    o = call.args[0]
    c = ex.concrete_bool(enum_is(o, 1))
    if c is True:
        return ex.ret(st, call, opt_payload_or_lazy(ex, st, call, o, 1))
    return None


@model(r'^Option::is_some$')
def m_is_some(ex, st, call):
    o = deref(ex, st, call.args[0])
    return ex.ret(st, call, Bool(enum_is(o, 1)))


@model(r'^Option::is_none$')
def m_is_none(ex, st, call):
    o = deref(ex, st, call.args[0])
    return ex.ret(st, call, Bool(enum_is(o, 0)))


@model(r'^Result::is_ok$')
def m_is_ok(ex, st, call):
    o = deref(ex, st, call.args[0])
    return ex.ret(st, call, Bool(enum_is(o, 0)))


@model(r'^Result::is_err$')
def m_is_err(ex, st, call):
    o = deref(ex, st, call.args[0])
    return ex.ret(st, call, Bool(enum_is(o, 1)))


@model(r'^Option::as_ref$|^Option::as_mut$|^Option::as_deref$')
def m_opt_as_ref(ex, st, call):
    r = call.args[0]
    o = deref(ex, st, r)
    c = ex.concrete_bool(enum_is(o, 1))
    inner = Ref(r.addr, r.path + (('v', 1), ('f', 0, _opt_inner_ty(o))))
    if c is True:
        return ex.ret(st, call, ex.some(inner))
    if c is False:
        return ex.ret(st, call, ex.none())
    return ex.ret(st, call, EnumV('Option', o.discr, {1: {0: inner}}))


def _opt_inner_ty(o):
    head, args = type_head(o.ty)
    return args[0] if args else None


@model(r'^Option::take$')
def m_opt_take(ex, st, call):
    r = call.args[0]
    o = deref(ex, st, r)
    ex.store(st, r.addr, r.path, EnumV(o.ty, 0, {}))
    return ex.ret(st, call, o)


@model(r'^Option::ok_or$')
def m_ok_or(ex, st, call):
    o, e = call.args

    def some(s):
        return ex.ret(s, call, EnumV('Result', 0, {0: {0: opt_payload_or_lazy(ex, s, call, o, 1)}}))

    def none(s):
        return ex.ret(s, call, EnumV('Result', 1, {1: {0: e}}))
    return two_way(ex, st, enum_is(o, 1), some, none)


@model(r'^Option::ok_or_else$')
def m_ok_or_else(ex, st, call):
    o, f = call.args

    def some(s):
        return ex.ret(s, call, EnumV('Result', 0, {0: {0: opt_payload_or_lazy(ex, s, call, o, 1)}}))

    def none(s):
        def cont(ex_, s2, val):
            return ex_.ret(s2, call, EnumV('Result', 1, {1: {0: val}}))
        return ex.invoke_callable(s, f, [], cont)
    return two_way(ex, st, enum_is(o, 1), some, none)


@model(r'^Result::map_err$')
def m_map_err(ex, st, call):
    o, f = call.args

    def ok(s):
        return ex.ret(s, call, EnumV('Result', 0, {0: {0: opt_payload_or_lazy(ex, s, call, o, 0)}}))

    def err(s):
        pv = opt_payload_or_lazy(ex, s, call, o, 1)

        def cont(ex_, s2, val):
            return ex_.ret(s2, call, EnumV('Result', 1, {1: {0: val}}))
        return ex.invoke_callable(s, f, [pv], cont)
    return two_way(ex, st, enum_is(o, 0), ok, err)


@model(r'^Result::ok$')
def m_result_ok(ex, st, call):
    o = call.args[0]

    def ok(s):
        return ex.ret(s, call, ex.some(opt_payload_or_lazy(ex, s, call, o, 0)))

    def err(s):
        return ex.ret(s, call, ex.none())
    return two_way(ex, st, enum_is(o, 0), ok, err)


@model(r'^<Result<.*> as Try>::branch$')
def m_try_branch_result(ex, st, call):
    o = call.args[0]

    def ok(s):
        return ex.ret(s, call, EnumV('ControlFlow', 0, {0: {0: opt_payload_or_lazy(ex, s, call, o, 0)}}))

    def err(s):
        res = EnumV('Result', 1, {1: {0: opt_payload_or_lazy(ex, s, call, o, 1)}})
        return ex.ret(s, call, EnumV('ControlFlow', 1, {1: {0: res}}))
    return two_way(ex, st, enum_is(o, 0), ok, err)


@model(r'^<Option<.*> as Try>::branch$')
def m_try_branch_option(ex, st, call):
    o = call.args[0]

    def some(s):
        return ex.ret(s, call, EnumV('ControlFlow', 0, {0: {0: opt_payload_or_lazy(ex, s, call, o, 1)}}))

    def none(s):
        return ex.ret(s, call, EnumV('ControlFlow', 1, {1: {0: EnumV('Option', 0, {})}}))
    return two_way(ex, st, enum_is(o, 1), some, none)


@model(r'^<Result<.*> as FromResidual<Result<Infallible, .*>>>::from_residual$')
def m_from_residual(ex, st, call):
    r = call.args[0]
    e = opt_payload_or_lazy(ex, st, call, r, 1)
    return ex.ret(st, call, EnumV('Result', 1, {1: {0: e}}))


@model(r'^<Option<.*> as FromResidual<Option<Infallible>>>::from_residual$')
def m_from_residual_opt(ex, st, call):
    return ex.ret(st, call, EnumV('Option', 0, {}))


# mem -----------------------------------------------------------------------------------------------
@model(r'^mem::take$')
def m_mem_take(ex, st, call):
    r = call.args[0]
    old = deref(ex, st, r)
    ty = call.generics[-1][0] if call.generics else ''
    t = strip_path(ty)
    if isinstance(old, (VecV, AbsVec)) or t.startswith('Vec<'):
        new = VecV((), getattr(old, 'elem_ty', None))
    elif isinstance(old, Str):
        new = str_const(b'')
    elif isinstance(old, EnumV) and old.ty.startswith('Option'):
        new = EnumV(old.ty, 0, {})
    elif isinstance(old, Bool):
        new = Bool(False)
    elif isinstance(old, Int):
        new = Int(z3.BitVecVal(0, old.width), old.signed)
    else:
        return None
    ex.store(st, r.addr, r.path, new)
    return ex.ret(st, call, old)


@model(r'^mem::replace$')
def m_mem_replace(ex, st, call):
    r, new = call.args
    old = deref(ex, st, r)
    ex.store(st, r.addr, r.path, new)
    return ex.ret(st, call, old)


@model(r'^mem::swap$')
def m_mem_swap(ex, st, call):
    a, b = call.args
    va = deref(ex, st, a)
    vb = deref(ex, st, b)
    ex.store(st, a.addr, a.path, vb)
    ex.store(st, b.addr, b.path, va)
    return ex.ret(st, call, UNIT)


@model(r'^mem::drop$')
def m_mem_drop(ex, st, call):
    return ex.ret(st, call, UNIT)


# Vec / slices ----------------------------------------------------------------------------------------
@model(r'^Vec::new$|^Vec::with_capacity$')
def m_vec_new(ex, st, call):
    et = None
    if call.generics and call.generics[0]:
        et = call.generics[0][0]
    return ex.ret(st, call, VecV((), et))


@model(r'^<Vec<.*> as Deref>::deref$|^<Vec<.*> as DerefMut>::deref_mut$|^Vec::as_slice$|^Vec::as_mut_slice$|^<Vec<.*> as AsRef<\[.*\]>>::as_ref$')
def m_vec_deref(ex, st, call):
    return ex.ret(st, call, call.args[0])


@model(r'^Vec::len$|^slice::len$')
def m_vec_len(ex, st, call):
    v = deref(ex, st, call.args[0])
    if isinstance(v, Str):
        return None
    return ex.ret(st, call, ex.vec_len(v))


@model(r'^Vec::is_empty$|^slice::is_empty$')
def m_vec_is_empty(ex, st, call):
    v = deref(ex, st, call.args[0])
    return ex.ret(st, call, Bool(ex.vec_len(v).e == 0))


@model(r'^Vec::push$')
def m_vec_push(ex, st, call):
    r, x = call.args
    v = deref(ex, st, r)
    if isinstance(v, VecV):
        ex.store(st, r.addr, r.path, VecV(v.items + (x,), v.elem_ty))
        return ex.ret(st, call, UNIT)
    if isinstance(v, AbsVec):
        st.event('abs_push', v.tok, x)
        ex.store(st, r.addr, r.path, AbsVec(v.n + 1, (v.tok, 'push', len(st.events)), v.elem_ty))
        return ex.ret(st, call, UNIT)
    return None


@model(r'^Vec::pop$')
def m_vec_pop(ex, st, call):
    r = call.args[0]
    v = deref(ex, st, r)
    if isinstance(v, VecV):
        if not v.items:
            return ex.ret(st, call, ex.none())
        ex.store(st, r.addr, r.path, VecV(v.items[:-1], v.elem_ty))
        return ex.ret(st, call, ex.some(v.items[-1]))
    return None


@model(r'^HashMap::clear$|^HashSet::clear$|^VecDeque::clear$|^IndexMap::clear$')
def m_map_clear(ex, st, call):
    r = call.args[0]
    v = deref(ex, st, r)
    st.event('map_clear', getattr(v, 'tok', None))
    if isinstance(v, AbsVec):
        ex.store(st, r.addr, r.path, AbsVec(z3.BitVecVal(0, 64), (v.tok, 'clear', len(st.events)), v.elem_ty))
    else:
        ex.store(st, r.addr, r.path, VecV((), getattr(v, 'elem_ty', None)))
    return ex.ret(st, call, UNIT)


@model(r'^Vec::clear$')
def m_vec_clear(ex, st, call):
    r = call.args[0]
    v = deref(ex, st, r)
    ex.store(st, r.addr, r.path, VecV((), getattr(v, 'elem_ty', None)))
    return ex.ret(st, call, UNIT)


@model(r'^Vec::truncate$')
def m_vec_truncate(ex, st, call):
    r, n = call.args
    v = deref(ex, st, r)
    c = ex.concrete_int(n.e)
    if isinstance(v, VecV) and c is not None:
        ex.store(st, r.addr, r.path, VecV(v.items[:c], v.elem_ty))
        return ex.ret(st, call, UNIT)
    return None


@model(r'^slice::get$|^slice::get_mut$|^Vec::get$|^Vec::get_mut$')
def m_slice_get(ex, st, call):
    r, i = call.args
    v = deref(ex, st, r)
    if not isinstance(i, Int):
        return None
    if isinstance(v, Agg) and v.kind == 'array':
        n = len(v.fields)
    elif isinstance(v, VecV):
        n = len(v.items)
    else:
        return None
    c = ex.concrete_int(i.e)
    if c is not None:
        if c < n:
            return ex.ret(st, call, ex.some(Ref(r.addr, r.path + (('i', c),))))
        return ex.ret(st, call, ex.none())
    # symbolic index: fork over in-range positions
    out = []
    for k in range(n):
        cond = i.e == k
        if ex.feasible(st, cond):
            s2 = st.clone()
            s2.assume(cond)
            out += ex.ret(s2, call, ex.some(Ref(r.addr, r.path + (('i', k),))))
    cond = z3.UGE(i.e, n)
    if ex.feasible(st, cond):
        st.assume(cond)
        out += ex.ret(st, call, ex.none())
    return out


@model(r'^slice::first$|^slice::last$|^Vec::last$|^Vec::first$|^slice::last_mut$|^slice::first_mut$|^Vec::last_mut$')
def m_slice_first_last(ex, st, call):
    r = call.args[0]
    v = deref(ex, st, r)
    if not isinstance(v, VecV):
        return None
    if not v.items:
        return ex.ret(st, call, ex.none())
    k = 0 if 'first' in call.norm else len(v.items) - 1
    return ex.ret(st, call, ex.some(Ref(r.addr, r.path + (('i', k),))))


@model(r'^slice::join$')
def m_join(ex, st, call):
    v = deref(ex, st, call.args[0])
    sep = deref(ex, st, call.args[1])
    if not isinstance(v, VecV):
        return None
    parts = []
    for k, it in enumerate(v.items):
        if k:
            parts.append(sep)
        parts.append(deref(ex, st, it))
    return ex.ret(st, call, s_concat(parts))


@model(r'^slice::iter$|^Vec::iter$|^slice::iter_mut$|^Vec::iter_mut$')
def m_slice_iter(ex, st, call):
    r = call.args[0]
    v = deref(ex, st, r)
    if isinstance(v, VecV):
        return ex.ret(st, call, Agg('iter', 'Iter', {0: r, 1: 0, 2: len(v.items)}))
    if isinstance(v, Agg) and v.kind == 'array':
        return ex.ret(st, call, Agg('iter', 'Iter', {0: r, 1: 0, 2: len(v.fields)}))
    return None


@model(r'^<Iter<.*> as Iterator>::next$|^<slice::Iter<.*> as Iterator>::next$|^<IterMut<.*> as Iterator>::next$')
def m_iter_next(ex, st, call):
    r = call.args[0]
    it = deref(ex, st, r)
    if not (isinstance(it, Agg) and it.kind == 'iter' and it.ty == 'Iter'):
        return None
    base, pos, end = it.fields[0], it.fields[1], it.fields[2]
    if pos >= end:
        return ex.ret(st, call, ex.none())
    ex.store(st, r.addr, r.path, Agg('iter', 'Iter', {0: base, 1: pos + 1, 2: end}))
    return ex.ret(st, call, ex.some(Ref(base.addr, base.path + (('i', pos),))))


@model(r'^<Iter<.*> as DoubleEndedIterator>::next_back$')
def m_iter_next_back(ex, st, call):
    r = call.args[0]
    it = deref(ex, st, r)
    base, pos, end = it.fields[0], it.fields[1], it.fields[2]
    if pos >= end:
        return ex.ret(st, call, ex.none())
    ex.store(st, r.addr, r.path, Agg('iter', 'Iter', {0: base, 1: pos, 2: end - 1}))
    return ex.ret(st, call, ex.some(Ref(base.addr, base.path + (('i', end - 1),))))


@model(r'^<.* as Iterator>::enumerate$|^Iterator::enumerate$')
def m_enumerate(ex, st, call):
    return ex.ret(st, call, Agg('iter', 'Enumerate', {0: call.args[0], 1: 0}))


@model(r'^<Enumerate<.*> as Iterator>::next$')
def m_enumerate_next(ex, st, call):
    r = call.args[0]
    it = deref(ex, st, r)
    inner, cnt = it.fields[0], it.fields[1]
    if isinstance(inner, Agg) and inner.ty == 'Iter':
        base, pos, end = inner.fields[0], inner.fields[1], inner.fields[2]
        if pos >= end:
            return ex.ret(st, call, ex.none())
        ninner = Agg('iter', 'Iter', {0: base, 1: pos + 1, 2: end})
        ex.store(st, r.addr, r.path, Agg('iter', 'Enumerate', {0: ninner, 1: cnt + 1}))
        item = Agg('tuple', 'tuple', {0: Int(z3.BitVecVal(cnt, 64), False), 1: Ref(base.addr, base.path + (('i', pos),))})
        return ex.ret(st, call, ex.some(item))
    return None


@model(r'^<.* as Iterator>::rev$')
def m_rev(ex, st, call):
    it = call.args[0]
    if isinstance(it, Agg) and it.ty == 'Iter':
        return ex.ret(st, call, Agg('iter', 'RevIter', dict(it.fields)))
    return None


@model(r'^<Rev<.*> as Iterator>::next$')
def m_rev_next(ex, st, call):
    r = call.args[0]
    it = deref(ex, st, r)
    if it.ty != 'RevIter':
        return None
    base, pos, end = it.fields[0], it.fields[1], it.fields[2]
    if pos >= end:
        return ex.ret(st, call, ex.none())
    ex.store(st, r.addr, r.path, Agg('iter', 'RevIter', {0: base, 1: pos, 2: end - 1}))
    return ex.ret(st, call, ex.some(Ref(base.addr, base.path + (('i', end - 1),))))


def iter_items(ex, st, it):
    """list of item values an 'Iter'/'RevIter'/'Enumerate' iterator will still yield"""
    if it.ty == 'Iter':
        base, pos, end = it.fields[0], it.fields[1], it.fields[2]
        return [Ref(base.addr, base.path + (('i', k),)) for k in range(pos, end)]
    if it.ty == 'RevIter':
        base, pos, end = it.fields[0], it.fields[1], it.fields[2]
        return [Ref(base.addr, base.path + (('i', k),)) for k in reversed(range(pos, end))]
    if it.ty == 'Enumerate':
        inner = iter_items(ex, st, it.fields[0])
        c0 = it.fields[1]
        return [Agg('tuple', 'tuple', {0: Int(z3.BitVecVal(c0 + k, 64), False), 1: x}) for k, x in enumerate(inner)]
    if it.ty == 'IntoIter':
        return list(it.fields[0].items[it.fields[1]:])
    unmodelled('iterator %r' % (it,))


def _iter_search(ex, st, call, items, f, combine, default, by_ref=False):
    """sequentially call closure f on items; combine(ex, st, k, item, result) -> (stop_cond z3 Bool, value)"""
    def go(s, k):
        if k == len(items):
            return ex.ret(s, call, default)
        arg = items[k]
        if by_ref:
            a = s.alloc(arg)
            arg_v = Ref(a)
        else:
            arg_v = arg

        def cont(ex_, s2, res):
            stop, val = combine(ex_, s2, k, items[k], res)
            return two_way(ex_, s2, stop, lambda s3: ex_.ret(s3, call, val), lambda s3: go(s3, k + 1))
        return ex.invoke_callable(s, f, [arg_v], cont)
    return go(st, 0)


@model(r'^<.* as Iterator>::find_map$')
def m_find_map(ex, st, call):
    r, f = call.args
    it = deref(ex, st, r) if isinstance(r, Ref) else r
    items = iter_items(ex, st, it)
    return _iter_search(ex, st, call, items, f, lambda ex_, s, k, item, res: (enum_is(res, 1), res), ex.none())


@model(r'^<.* as Iterator>::find$')
def m_iter_find(ex, st, call):
    r, f = call.args
    it = deref(ex, st, r) if isinstance(r, Ref) else r
    items = iter_items(ex, st, it)
    return _iter_search(ex, st, call, items, f, lambda ex_, s, k, item, res: (res.e, ex_.some(item)), ex.none(), by_ref=True)


@model(r'^<.* as Iterator>::any$')
def m_iter_any(ex, st, call):
    r, f = call.args
    it = deref(ex, st, r) if isinstance(r, Ref) else r
    items = iter_items(ex, st, it)
    return _iter_search(ex, st, call, items, f, lambda ex_, s, k, item, res: (res.e, Bool(True)), Bool(False))


@model(r'^<.* as Iterator>::all$')
def m_iter_all(ex, st, call):
    r, f = call.args
    it = deref(ex, st, r) if isinstance(r, Ref) else r
    items = iter_items(ex, st, it)
    return _iter_search(ex, st, call, items, f, lambda ex_, s, k, item, res: (z3.Not(res.e), Bool(False)), Bool(True))


@model(r'^<.* as Iterator>::position$')
def m_iter_position(ex, st, call):
    r, f = call.args
    it = deref(ex, st, r) if isinstance(r, Ref) else r
    items = iter_items(ex, st, it)
    return _iter_search(ex, st, call, items, f,
                        lambda ex_, s, k, item, res: (res.e, ex_.some(Int(z3.BitVecVal(k, 64), False))), ex.none())


# Clone / Copy of plain data ------------------------------------------------------------------------
@model(r'^<.* as Clone>::clone$')
def m_clone(ex, st, call):
    v = deref(ex, st, call.args[0])
    if isinstance(v, (Int, Bool, Float, Char, Str, Unit)):
        return ex.ret(st, call, v)
    if isinstance(v, Opaque):
        st.event('clone', v)
        return ex.ret(st, call, v)
    if isinstance(v, (VecV, AbsVec)):
        return ex.ret(st, call, v)
    if isinstance(v, EnumV) and v.ty.startswith('Option') and isinstance(v.discr, int) and v.discr == 0:
        return ex.ret(st, call, v)
    return None


@model(r'^<(u8|u16|u32|u64|usize|i32|i64|bool|char|f64) as PartialEq>::eq$')
def m_prim_eq(ex, st, call):
    a = deref(ex, st, call.args[0])
    b = deref(ex, st, call.args[1])
    return ex.ret(st, call, ex.binop(st, 'Eq', a, b))


# f64 helpers -----------------------------------------------------------------------------------------
@model(r'^f64::is_nan$')
def m_is_nan(ex, st, call):
    return ex.ret(st, call, Bool(z3.fpIsNaN(call.args[0].e)))


@model(r'^f64::is_infinite$')
def m_is_inf(ex, st, call):
    return ex.ret(st, call, Bool(z3.fpIsInf(call.args[0].e)))


@model(r'^f64::is_finite$')
def m_is_finite(ex, st, call):
    x = call.args[0].e
    return ex.ret(st, call, Bool(z3.Not(z3.Or(z3.fpIsInf(x), z3.fpIsNaN(x)))))


@model(r'^f64::abs$')
def m_fabs(ex, st, call):
    return ex.ret(st, call, Float(z3.fpAbs(call.args[0].e)))


@model(r'^f64::trunc$|^math::trunc$|^libm::trunc$')
def m_ftrunc(ex, st, call):
    return ex.ret(st, call, Float(z3.fpRoundToIntegral(RTZ, call.args[0].e)))


@model(r'^f64::floor$|^math::floor$|^libm::floor$')
def m_ffloor(ex, st, call):
    return ex.ret(st, call, Float(z3.fpRoundToIntegral(z3.RTN(), call.args[0].e)))


@model(r'^f64::ceil$|^math::ceil$|^libm::ceil$')
def m_fceil(ex, st, call):
    return ex.ret(st, call, Float(z3.fpRoundToIntegral(z3.RTP(), call.args[0].e)))


@model(r'^f64::fract$')
def m_ffract(ex, st, call):
    x = call.args[0].e
    return ex.ret(st, call, Float(z3.fpSub(RNE, x, z3.fpRoundToIntegral(RTZ, x))))


@model(r'^f64::to_bits$')
def m_to_bits(ex, st, call):
    x = call.args[0].e
    # from_bits(b).to_bits() == b (bit pattern preserved by moves)
    if z3.is_app(x) and x.decl().kind() == z3.Z3_OP_FPA_TO_FP and x.num_args() == 1 and z3.is_bv(x.arg(0)):
        return ex.ret(st, call, Int(x.arg(0), False))
    xs = z3.simplify(x)
    if z3.is_fp_value(xs):
        if xs.isNaN():
            return ex.ret(st, call, Int(z3.BitVecVal(0x7ff8000000000000, 64), False))
        b = z3.simplify(z3.fpToIEEEBV(xs))
        if z3.is_bv_value(b):
            return ex.ret(st, call, Int(b, False))
    # NaN payloads are not distinguished by the SMT FP theory: a NaN maps to an arbitrary NaN pattern
    bits = z3.BitVec(fresh_name('bits'), 64)
    st.assume(z3.fpBVToFP(bits, F64) == x)
    return ex.ret(st, call, Int(bits, False))


@model(r'^f64::is_sign_negative$')
def m_sign_neg(ex, st, call):
    return ex.ret(st, call, Bool(z3.fpIsNegative(call.args[0].e)))


@model(r'^f64::is_sign_positive$')
def m_sign_pos(ex, st, call):
    return ex.ret(st, call, Bool(z3.fpIsPositive(call.args[0].e)))


# integer helpers ------------------------------------------------------------------------------------
@model(r'^(u8|u16|u32|u64|usize)::checked_add$')
def m_checked_add(ex, st, call):
    a, b = call.args
    r = a.e + b.e
    ok = z3.UGE(r, a.e)
    return ex.ret(st, call, ex.option_ite(ok, Int(r, False)))


@model(r'^(u8|u16|u32|u64|usize)::checked_sub$')
def m_checked_sub(ex, st, call):
    a, b = call.args
    return ex.ret(st, call, ex.option_ite(z3.UGE(a.e, b.e), Int(a.e - b.e, False)))


@model(r'^(u8|u16|u32|u64|usize)::saturating_sub$')
def m_saturating_sub(ex, st, call):
    a, b = call.args
    return ex.ret(st, call, Int(z3.If(z3.UGE(a.e, b.e), a.e - b.e, z3.BitVecVal(0, a.width)), False))


@model(r'^(u8|u16|u32|u64|usize)::saturating_add$')
def m_saturating_add(ex, st, call):
    a, b = call.args
    w = a.width
    return ex.ret(st, call, Int(z3.If(z3.UGE(a.e + b.e, a.e), a.e + b.e, z3.BitVecVal((1 << w) - 1, w)), False))


@model(r'^(u8|u16|u32|u64|usize|i32|i64)::wrapping_add$')
def m_wrapping_add(ex, st, call):
    a, b = call.args
    return ex.ret(st, call, Int(a.e + b.e, a.signed))


@model(r'^(u8|u16|u32|u64|usize|i32|i64)::wrapping_sub$')
def m_wrapping_sub(ex, st, call):
    a, b = call.args
    return ex.ret(st, call, Int(a.e - b.e, a.signed))


@model(r'^cmp::max$|^<(u8|u16|u32|u64|usize) as Ord>::max$')
def m_max(ex, st, call):
    a, b = call.args
    if isinstance(a, Int):
        lt = (a.e < b.e) if a.signed else z3.ULT(a.e, b.e)
        return ex.ret(st, call, Int(z3.If(lt, b.e, a.e), a.signed))
    return None


@model(r'^cmp::min$|^<(u8|u16|u32|u64|usize) as Ord>::min$')
def m_min(ex, st, call):
    a, b = call.args
    if isinstance(a, Int):
        lt = (a.e < b.e) if a.signed else z3.ULT(a.e, b.e)
        return ex.ret(st, call, Int(z3.If(lt, a.e, b.e), a.signed))
    return None


@model(r'^u64::trailing_zeros$')
def m_trailing_zeros(ex, st, call):
    x = call.args[0].e
    e = z3.BitVecVal(64, 32)
    for i in reversed(range(64)):
        e = z3.If(z3.Extract(i, i, x) == 1, z3.BitVecVal(i, 32), e)
    return ex.ret(st, call, Int(e, False))


@model(r'^<(u8|u16|u32|u64|usize) as TryFrom<(u8|u16|u32|u64|usize)>>::try_from$|^<(u8|u16|u32|u64|usize) as TryInto<(u8|u16|u32|u64|usize)>>::try_into$')
def m_try_from(ex, st, call):
    a = call.args[0]
    m = re.match(r'^<(\w+) as (TryFrom|TryInto)<(\w+)>>', call.norm)
    if m.group(2) == 'TryFrom':
        tgt = m.group(1)
    else:
        tgt = m.group(3)
    w, s = INT_TYPES[tgt]
    if w >= a.width:
        return ex.ret(st, call, EnumV('Result', 0, {0: {0: Int(z3.ZeroExt(w - a.width, a.e) if w > a.width else a.e, False)}}))
    ok = z3.ULE(a.e, (1 << w) - 1)
    val = Int(z3.Extract(w - 1, 0, a.e), False)
    c = ex.concrete_bool(ok)
    d = z3.If(ok, z3.BitVecVal(0, 64), z3.BitVecVal(1, 64))
    return ex.ret(st, call, EnumV('Result', d, {0: {0: val}, 1: {0: Opaque('TryFromIntError', 0)}}))


@model(r'^<(u8|u16|u32|u64|usize) as From<(u8|u16|u32|bool)>>::from$|^<(u8|u16|u32|u64|usize) as Into<(u16|u32|u64|usize)>>::into$')
def m_int_from(ex, st, call):
    a = call.args[0]
    m = re.match(r'^<(\w+) as (From|Into)<(\w+)>>', call.norm)
    tgt = m.group(1) if m.group(2) == 'From' else m.group(3)
    w, s = INT_TYPES[tgt]
    if isinstance(a, Bool):
        return ex.ret(st, call, Int(z3.If(a.e, z3.BitVecVal(1, w), z3.BitVecVal(0, w)), s))
    return ex.ret(st, call, Int(z3.ZeroExt(w - a.width, a.e) if w > a.width else a.e, s))


@model(r'^<f64 as From<(u8|u16|u32|i32)>>::from$')
def m_f64_from(ex, st, call):
    a = call.args[0]
    return ex.ret(st, call, Float(z3.fpSignedToFP(RNE, a.e, F64) if a.signed else z3.fpUnsignedToFP(RNE, a.e, F64)))


# panics ----------------------------------------------------------------------------------------------
@model(r'^panicking::panic|^panic_fmt$|^core::panicking|^panicking::|^option::unwrap_failed$|^result::unwrap_failed$|^option::expect_failed$|^slice::index::|^panic_bounds_check$|^panic_const')
def m_panic(ex, st, call):
    from .symex import PathEnd
    return [PathEnd('panic', st, None, 'explicit panic: %s' % call.callee)]


@model(r'^<&(u8|u16|u32|u64|usize|i32|i64|bool|char|f64) as PartialEq>::eq$|^<&&(u8|u16|u32|u64|usize|i32|i64|bool|char|f64) as PartialEq>::eq$')
def m_ref_prim_eq(ex, st, call):
    a = deref2(ex, st, deref(ex, st, call.args[0]))
    b = deref2(ex, st, deref(ex, st, call.args[1]))
    return ex.ret(st, call, ex.binop(st, 'Eq', a, b))


@model(r'^<&(u8|u16|u32|u64|usize|i32|i64|bool|char|f64) as PartialEq>::ne$')
def m_ref_prim_ne(ex, st, call):
    a = deref2(ex, st, deref(ex, st, call.args[0]))
    b = deref2(ex, st, deref(ex, st, call.args[1]))
    return ex.ret(st, call, ex.binop(st, 'Ne', a, b))


@model(r'^mem::discriminant$|^discriminant$')
def m_discriminant(ex, st, call):
    v = deref(ex, st, call.args[0])
    if not isinstance(v, EnumV):
        return None
    return ex.ret(st, call, Agg('struct', 'Discriminant', {0: Int(v.discr_expr(), True)}))


@model(r'^<Discriminant<.*> as PartialEq>::eq$')
def m_discriminant_eq(ex, st, call):
    a = deref(ex, st, call.args[0])
    b = deref(ex, st, call.args[1])
    return ex.ret(st, call, Bool(a.fields[0].e == b.fields[0].e))


@model(r'^RangeInclusive::new$')
def m_range_incl_new(ex, st, call):
    a, b = call.args
    return ex.ret(st, call, Agg('struct', 'RangeInclusive', {0: a, 1: b, 2: Bool(False)}))


@model(r'^RangeInclusive::contains$|^Range::contains$|^<RangeInclusive<.*> as RangeBounds<.*>>::contains$|^<Range<.*> as RangeBounds<.*>>::contains$')
def m_range_contains(ex, st, call):
    r = deref(ex, st, call.args[0])
    x = deref(ex, st, call.args[1])
    lo, hi = r.fields[0], r.fields[1]
    incl = r.ty.startswith('RangeInclusive')
    if isinstance(x, Int):
        s = x.signed
        ge = (x.e >= lo.e) if s else z3.UGE(x.e, lo.e)
        if incl:
            le = (x.e <= hi.e) if s else z3.ULE(x.e, hi.e)
        else:
            le = (x.e < hi.e) if s else z3.ULT(x.e, hi.e)
        return ex.ret(st, call, Bool(z3.And(ge, le)))
    if isinstance(x, Float):
        le = z3.fpLEQ(x.e, hi.e) if incl else z3.fpLT(x.e, hi.e)
        return ex.ret(st, call, Bool(z3.And(z3.fpLEQ(lo.e, x.e), le)))
    return None


@model(r'^(u8|u16|u32|u64|usize|i32|i64)::wrapping_neg$')
def m_wrapping_neg(ex, st, call):
    a = call.args[0]
    return ex.ret(st, call, Int(-a.e, a.signed))


@model(r'^Vec::retain$')
def m_vec_retain(ex, st, call):
    r, f = call.args
    v = deref(ex, st, r)
    if not isinstance(v, VecV):
        return None
    items = list(v.items)

    def go(s, k, kept):
        if k == len(items):
            ex.store(s, r.addr, r.path, VecV(kept, v.elem_ty))
            return ex.ret(s, call, UNIT)
        a = s.alloc(items[k])

        def cont(ex_, s2, res):
            return two_way(ex_, s2, res.e, lambda s3: go(s3, k + 1, kept + [items[k]]), lambda s3: go(s3, k + 1, kept))
        return ex.invoke_callable(s, f, [Ref(a)], cont)
    return go(st, 0, [])


@model(r'^Vec::dedup_by$')
def m_vec_dedup_by(ex, st, call):
    """removes every element for which same_bucket(&mut element, &mut last kept element) is true (consecutive duplicates only)"""
    r, f = call.args
    v = deref(ex, st, r)
    if not isinstance(v, VecV):
        return None
    items = list(v.items)

    def go(s, k, kept):
        if k == len(items):
            ex.store(s, r.addr, r.path, VecV(kept, v.elem_ty))
            return ex.ret(s, call, UNIT)
        if not kept:
            return go(s, k + 1, [items[k]])
        a = s.alloc(items[k])
        b = s.alloc(kept[-1])

        def cont(ex_, s2, res):
            return two_way(ex_, s2, res.e, lambda s3: go(s3, k + 1, kept), lambda s3: go(s3, k + 1, kept + [items[k]]))
        return ex.invoke_callable(s, f, [Ref(a), Ref(b)], cont)
    return go(st, 0, [])


@model(r'^math::fract$|^libm::fract$')
def m_math_fract(ex, st, call):
    x = call.args[0].e
    return ex.ret(st, call, Float(z3.fpSub(RNE, x, z3.fpRoundToIntegral(RTZ, x))))


@model(r'^<.* as CheapClone>::cheap_clone$')
def m_cheap_clone(ex, st, call):
    v = deref(ex, st, call.args[0])
    if isinstance(v, Opaque):
        st.event('clone', v)
        return ex.ret(st, call, v)
    if isinstance(v, (Str, Int, Bool, Float)):
        return ex.ret(st, call, v)
    return None


@model(r'^HashMap::is_empty$|^HashSet::is_empty$|^VecDeque::is_empty$|^IndexMap::is_empty$')
def m_map_is_empty(ex, st, call):
    v = deref(ex, st, call.args[0])
    if isinstance(v, (AbsVec, VecV)):
        return ex.ret(st, call, Bool(ex.vec_len(v).e == 0))
    return None


@model(r'^HashMap::len$|^HashSet::len$|^VecDeque::len$|^IndexMap::len$')
def m_map_len(ex, st, call):
    v = deref(ex, st, call.args[0])
    if isinstance(v, (AbsVec, VecV)):
        return ex.ret(st, call, ex.vec_len(v))
    return None


@model(r'^HashMap::entry$')
def m_map_entry(ex, st, call):
    r, k = call.args
    v = deref(ex, st, r)
    if isinstance(v, AbsVec):
        return ex.ret(st, call, Agg('entry', 'Entry', {0: r, 1: k}))
    return None


@model(r'^Entry::or_insert_with$')
def m_entry_or_insert_with(ex, st, call):
    ent, f = call.args
    if not (isinstance(ent, Agg) and ent.kind == 'entry'):
        return None
    r, k = ent.fields[0], ent.fields[1]
    m = deref(ex, st, r)
    vty = call.generics[0][1] if call.generics and len(call.generics[0]) > 1 else (m.elem_ty or '')
    out = []
    # occupied: some earlier insert stored a value under this key (abstract map: value unknown)
    kth = sum(1 for e_ in st.events if e_[0] in ('map_get', 'map_insert'))
    present = z3.Bool('$key_present.%s.%d' % (m.tok if isinstance(m.tok, str) else 'm', kth))
    t, fl = ex.split(st, z3.And(present, m.n != 0))
    if t is not None:
        val = ex.fresh(t, vty, '$mapval.%d' % kth) if vty else Opaque('map value', z3.Int('$mapval.%d' % kth))
        t.event('map_get', m.tok, k, val)
        a = t.alloc(val)
        out += ex.ret(t, call, Ref(a))
    if fl is not None:
        def cont(ex_, s2, val):
            s2.event('map_insert', m.tok, k, val)
            mm = deref(ex_, s2, r)
            ex_.store(s2, r.addr, r.path, AbsVec(mm.n + 1, (mm.tok, 'ins', len(s2.events)), mm.elem_ty))
            a = s2.alloc(val)
            return ex_.ret(s2, call, Ref(a))
        out += ex.invoke_callable(fl, f, [], cont)
    return out


@model(r'^Box::new$')
def m_box_new(ex, st, call):
    a = st.alloc(call.args[0])
    return ex.ret(st, call, ex.mk_box(Ref(a)))


@model(r'^<Box<.*> as Drop>::drop$|^<Vec<.*> as Drop>::drop$|^<Rc<.*> as Drop>::drop$')
def m_drop_noop(ex, st, call):
    return ex.ret(st, call, UNIT)


@model(r'^<Box<.*> as AsRef<.*>>::as_ref$|^<Box<.*> as Deref>::deref$|^<Box<.*> as DerefMut>::deref_mut$|^<Box<.*> as AsMut<.*>>::as_mut$')
def m_box_as_ref(ex, st, call):
    b = deref(ex, st, call.args[0])
    if isinstance(b, Agg) and 0 in b.fields and isinstance(b.fields[0], Agg) and isinstance(b.fields[0].fields.get(0), Ref):
        return ex.ret(st, call, b.fields[0].fields[0])
    return None


# ------------------------------------------------------------------------------------------------
# abstract vectors (AbsVec): iteration is abstracted to ONE arbitrary iteration, predicates to arbitrary results
# ------------------------------------------------------------------------------------------------
def _abs_elem(ex, st, v):
    a = st.alloc(Lazy(v.elem_ty) if v.elem_ty else Opaque('elem'))
    return Ref(a)


@model(r'^slice::iter$|^Vec::iter$|^<&Vec<.*> as IntoIterator>::into_iter$|^<&\[.*\] as IntoIterator>::into_iter$|^<&Rc<\[.*\]> as IntoIterator>::into_iter$')
def m_abs_iter(ex, st, call):
    r = call.args[0]
    v = deref(ex, st, r)
    if isinstance(v, AbsVec):
        ex.models_used.add('iteration over an abstract vector = one arbitrary iteration (index < len), then exit')
        return ex.ret(st, call, Agg('iter', 'AbsIter', {0: v, 1: False}))
    return None


@model(r'^<.* as Iterator>::enumerate$|^Iterator::enumerate$')
def m_abs_enumerate(ex, st, call):
    it = call.args[0]
    if isinstance(it, Agg) and it.ty == 'AbsIter':
        return ex.ret(st, call, Agg('iter', 'AbsEnumerate', dict(it.fields)))
    return None


@model(r'^<.* as Iterator>::next$')
def m_abs_next(ex, st, call):
    r = call.args[0]
    it = deref(ex, st, r)
    if not (isinstance(it, Agg) and it.ty in ('AbsIter', 'AbsEnumerate')):
        return None
    v, done = it.fields[0], it.fields[1]
    if done:
        return ex.ret(st, call, ex.none())
    out = []
    s_none = st.clone()
    out += ex.ret(s_none, call, ex.none())
    # one arbitrary iteration
    i = z3.BitVec(fresh_name('iter_index'), 64)
    if ex.feasible(st, z3.ULT(i, v.n)):
        st.assume(z3.ULT(i, v.n))
        ex.store(st, r.addr, r.path, Agg('iter', it.ty, {0: v, 1: True}))
        elem = _abs_elem(ex, st, v)
        item = elem if it.ty == 'AbsIter' else Agg('tuple', 'tuple', {0: Int(i, False), 1: elem})
        out += ex.ret(st, call, ex.some(item))
    return out


@model(r'^<.* as Iterator>::(any|all)$')
def m_abs_any(ex, st, call):
    r = call.args[0]
    it = deref(ex, st, r) if isinstance(r, Ref) else r
    if isinstance(it, Agg) and it.ty in ('AbsIter', 'AbsEnumerate'):
        ex.models_used.add('Iterator::any/all over an abstract vector: arbitrary result')
        return ex.ret(st, call, Bool(z3.Bool(fresh_name('abs_pred'))))
    return None


@model(r'^<.* as Iterator>::(position|find|find_map|rposition)$')
def m_abs_find(ex, st, call):
    r = call.args[0]
    it = deref(ex, st, r) if isinstance(r, Ref) else r
    if isinstance(it, Agg) and it.ty in ('AbsIter', 'AbsEnumerate'):
        v = it.fields[0]
        ex.models_used.add('Iterator::position over an abstract vector: arbitrary index < len or None')
        if 'position' in call.norm:
            i = z3.BitVec(fresh_name('pos'), 64)
            found = z3.Bool(fresh_name('found'))
            st.assume(z3.Implies(found, z3.ULT(i, v.n)))
            return ex.ret(st, call, ex.option_ite(found, Int(i, False)))
    return None


@model(r'^slice::get$|^Vec::get$|^slice::first$|^slice::last$|^Vec::first$|^Vec::last$')
def m_abs_get(ex, st, call):
    v = deref(ex, st, call.args[0])
    if isinstance(v, AbsVec):
        if len(call.args) > 1 and isinstance(call.args[1], Int):
            ok = z3.ULT(call.args[1].e, v.n)
        else:
            ok = v.n != 0
        return ex.ret(st, call, ex.option_ite(ok, _abs_elem(ex, st, v)))
    return None


def _prioritise(names):
    front = [x for x in REGISTRY if x[1].__name__ in names]
    rest = [x for x in REGISTRY if x[1].__name__ not in names]
    REGISTRY[:] = front + rest


_prioritise({'m_abs_iter', 'm_abs_enumerate', 'm_abs_next', 'm_abs_any', 'm_abs_find', 'm_abs_get'})


# ------------------------------------------------------------------------------------------------
# more plumbing for compiler kernels
# ------------------------------------------------------------------------------------------------
@model(r'^<Rc<.*> as Deref>::deref$|^<Rc<.*> as AsRef<.*>>::as_ref$|^<Rc<.*> as Borrow<.*>>::borrow$')
def m_rc_deref(ex, st, call):
    v = deref(ex, st, call.args[0])
    if isinstance(v, Agg) and v.kind == 'rc':
        return ex.ret(st, call, v.fields[0])
    if isinstance(v, Opaque) and v.ty.startswith('Rc<'):
        key = ('rc_target', str(v.id))
        if key not in st.extra:
            inner = v.ty[3:-1]
            a = st.alloc(Lazy(inner))
            st.extra[('cellname', a)] = '$rc.%s' % v.id
            st.extra[key] = a
        return ex.ret(st, call, Ref(st.extra[key]))
    return None


@model(r'^<.* as Into<JsString>>::into$|^<JsString as From<.*>>::from$|^JsString::from$|^JsString::new$')
def m_into_jsstring(ex, st, call):
    ex.models_used.add('conversion into JsString -> string token carrying the same content')
    tok = Opaque('JsString')
    src = deref2(ex, st, call.args[0]) if call.args else None
    if isinstance(src, Str):
        st.extra[('jsstr', str(tok.id))] = src
    return ex.ret(st, call, tok)


@model(r'^<.* as Iterator>::map$|^<.* as Iterator>::filter$|^<.* as Iterator>::cloned$|^<.* as Iterator>::copied$|^<.* as Iterator>::filter_map$|^<.* as Iterator>::rev$|^<.* as Iterator>::skip$|^<.* as Iterator>::take$')
def m_abs_adaptor(ex, st, call):
    it = call.args[0]
    if isinstance(it, Agg) and it.ty in ('AbsIter', 'AbsEnumerate', 'AbsAdapted'):
        v = it.fields[0]
        exact = call.norm.endswith('::map') or call.norm.endswith('::cloned') or call.norm.endswith('::copied') or call.norm.endswith('::rev')
        if exact:
            n = v.n
        else:
            n = z3.BitVec(fresh_name('adapted_len'), 64)
            st.assume(z3.ULE(n, v.n))
        ex.models_used.add('iterator adaptor over an abstract vector: length tracked, elements arbitrary')
        return ex.ret(st, call, Agg('iter', 'AbsAdapted', {0: AbsVec(n, fresh_name('adapted'), None), 1: False}))
    return None


@model(r'^<.* as Iterator>::collect$|^<.* as Iterator>::count$')
def m_abs_collect(ex, st, call):
    it = call.args[0]
    if isinstance(it, Agg) and it.ty in ('AbsIter', 'AbsEnumerate', 'AbsAdapted'):
        v = it.fields[0]
        if call.norm.endswith('count'):
            return ex.ret(st, call, Int(v.n, False))
        return ex.ret(st, call, AbsVec(v.n, fresh_name('collected'), None))
    return None


def _has_ref(v, depth=0):
    if isinstance(v, Ref):
        return True
    if depth > 6:
        return True
    if isinstance(v, Agg):
        return any(_has_ref(x, depth + 1) for x in v.fields.values())
    if isinstance(v, EnumV):
        return any(_has_ref(x, depth + 1) for pl in v.payload.values() for x in pl.values())
    if isinstance(v, VecV):
        return any(_has_ref(x, depth + 1) for x in v.items)
    return False


@model(r'^<.* as Clone>::clone$')
def m_clone_tree(ex, st, call):
    v = deref(ex, st, call.args[0])
    if isinstance(v, (Agg, EnumV, VecV)) and not _has_ref(v):
        return ex.ret(st, call, v)
    return None


@model(r'^Option::or$')
def m_opt_or(ex, st, call):
    a, b = call.args
    return two_way(ex, st, enum_is(a, 1), lambda s: ex.ret(s, call, a), lambda s: ex.ret(s, call, b))


@model(r'^Option::cloned$|^Option::copied$')
def m_opt_cloned(ex, st, call):
    o = call.args[0]

    def some(s):
        return ex.ret(s, call, ex.some(deref(ex, s, opt_payload_or_lazy(ex, s, call, o, 1))))
    return two_way(ex, st, enum_is(o, 1), some, lambda s: ex.ret(s, call, ex.none()))


@model(r'^Option::unwrap_or_else$|^Option::map_or$|^Option::map_or_else$|^Option::is_some_and$|^Option::is_none_or$')
def m_opt_closure_family(ex, st, call):
    o = call.args[0]
    kind = call.norm.split('::')[-1]
    if kind == 'unwrap_or_else':
        f = call.args[1]
        return two_way(ex, st, enum_is(o, 1), lambda s: ex.ret(s, call, opt_payload_or_lazy(ex, s, call, o, 1)),
                       lambda s: ex.invoke_callable(s, f, [], lambda e_, s2, v: e_.ret(s2, call, v)))
    if kind == 'map_or':
        d, f = call.args[1], call.args[2]
        return two_way(ex, st, enum_is(o, 1),
                       lambda s: ex.invoke_callable(s, f, [opt_payload_or_lazy(ex, s, call, o, 1)], lambda e_, s2, v: e_.ret(s2, call, v)),
                       lambda s: ex.ret(s, call, d))
    if kind == 'map_or_else':
        d, f = call.args[1], call.args[2]
        return two_way(ex, st, enum_is(o, 1),
                       lambda s: ex.invoke_callable(s, f, [opt_payload_or_lazy(ex, s, call, o, 1)], lambda e_, s2, v: e_.ret(s2, call, v)),
                       lambda s: ex.invoke_callable(s, d, [], lambda e_, s2, v: e_.ret(s2, call, v)))
    if kind == 'is_some_and':
        f = call.args[1]
        return two_way(ex, st, enum_is(o, 1),
                       lambda s: ex.invoke_callable(s, f, [opt_payload_or_lazy(ex, s, call, o, 1)], lambda e_, s2, v: e_.ret(s2, call, v)),
                       lambda s: ex.ret(s, call, Bool(False)))
    if kind == 'is_none_or':
        f = call.args[1]
        return two_way(ex, st, enum_is(o, 1),
                       lambda s: ex.invoke_callable(s, f, [opt_payload_or_lazy(ex, s, call, o, 1)], lambda e_, s2, v: e_.ret(s2, call, v)),
                       lambda s: ex.ret(s, call, Bool(True)))
    return None


@model(r'^HashMap::get$|^HashMap::get_mut$|^IndexMap::get$')
def m_map_get(ex, st, call):
    m = deref(ex, st, call.args[0])
    if isinstance(m, (AbsVec, Opaque)):
        ex.models_used.add('HashMap::get on an abstract map: arbitrary Option')
        found = z3.Bool(fresh_name('map_hit'))
        if isinstance(m, AbsVec):
            st.assume(z3.Implies(found, m.n != 0))
        vty = None
        if isinstance(m, Opaque):
            h, a = type_head(m.ty)
            vty = a[1] if len(a) > 1 else None
        a_ = st.alloc(Lazy(vty) if vty else Opaque('map value'))
        return ex.ret(st, call, ex.option_ite(found, Ref(a_)))
    return None


@model(r'^HashMap::contains_key$|^HashSet::contains$')
def m_map_contains(ex, st, call):
    m = deref(ex, st, call.args[0])
    if isinstance(m, (AbsVec, Opaque)):
        found = z3.Bool(fresh_name('map_has'))
        if isinstance(m, AbsVec):
            st.assume(z3.Implies(found, m.n != 0))
        return ex.ret(st, call, Bool(found))
    return None


_prioritise({'m_abs_adaptor', 'm_abs_collect'})


@model(r'^JsString::as_str$|^<JsString as Deref>::deref$|^<JsString as AsRef<str>>::as_ref$|^<JsString as Borrow<str>>::borrow$')
def m_jsstring_as_str(ex, st, call):
    v = deref(ex, st, call.args[0])
    if isinstance(v, Opaque):
        key = ('jsstr', str(v.id))
        if key not in st.extra:
            st.extra[key] = ex.fresh_str(st, 4, 'jsstr')
            ex.models_used.add('JsString::as_str of an opaque string token: arbitrary short text')
        return ex.ret(st, call, st.extra[key])
    if isinstance(v, Str):
        return ex.ret(st, call, v)
    return None


@model(r'^<(HashSet|HashMap|Vec|VecDeque|IndexMap)<.*> as Default>::default$|^HashMap::new$|^HashSet::new$|^HashMap::default$|^VecDeque::new$')
def m_collection_default(ex, st, call):
    if call.norm.startswith('<Vec') or call.norm.startswith('Vec'):
        return ex.ret(st, call, VecV(()))
    return ex.ret(st, call, AbsVec(z3.BitVecVal(0, 64), fresh_name('emptymap'), None))


@model(r'^HashSet::insert$|^HashMap::insert$')
def m_map_insert(ex, st, call):
    r = call.args[0]
    m = deref(ex, st, r)
    if isinstance(m, AbsVec):
        grew = z3.Bool(fresh_name('inserted_new'))
        n2 = z3.If(grew, m.n + 1, m.n)
        ex.store(st, r.addr, r.path, AbsVec(n2, (m.tok, 'ins', len(st.events)), m.elem_ty))
        st.event('map_insert', m.tok, tuple(call.args[1:]))
        if call.norm.startswith('HashSet'):
            return ex.ret(st, call, Bool(grew))
        old = st.alloc(Lazy(m.elem_ty) if m.elem_ty else Opaque('old map value'))
        return ex.ret(st, call, ex.option_ite(z3.Not(grew), ex.load(st, old)))
    return None


@model(r'^Rc::new$')
def m_rc_new(ex, st, call):
    return ex.ret(st, call, Agg('rc', 'Rc', {0: Ref(st.alloc(call.args[0]))}))


@model(r'^JsString::is_empty$|^JsString::len$')
def m_jsstring_len(ex, st, call):
    v = deref(ex, st, call.args[0])
    if isinstance(v, Opaque):
        key = ('jsstr', str(v.id))
        if key not in st.extra:
            st.extra[key] = ex.fresh_str(st, 4, 'jsstr')
            ex.models_used.add('JsString::as_str of an opaque string token: arbitrary short text')
        s = st.extra[key]
        if call.norm.endswith('is_empty'):
            return ex.ret(st, call, Bool(s.n == 0))
        return ex.ret(st, call, usize(s.n))
    return None


@model(r'^slice::binary_search_by_key$')
def m_binary_search_by_key(ex, st, call):
    r, keyref, f = call.args
    v = deref(ex, st, r)
    if not isinstance(v, VecV):
        return None
    target = deref(ex, st, keyref)
    items = list(v.items)

    def go(s, k, keys):
        if k == len(items):
            tv = ex.concrete_int(target.e)
            ks = [ex.concrete_int(x.e) for x in keys]
            if tv is None or any(x is None for x in ks):
                unmodelled('binary_search_by_key with symbolic keys')
            if any(ks[i] >= ks[i + 1] for i in range(len(ks) - 1)):
                # precondition of binary search: the slice is sorted by key.  Unsorted input is a finding for the caller.
                from .symex import PathEnd
                return [PathEnd('panic', s, None, 'binary_search_by_key on a slice that is not strictly sorted by key: %r' % ks)]
            for i, x in enumerate(ks):
                if x == tv:
                    return ex.ret(s, call, EnumV('Result', 0, {0: {0: Int(z3.BitVecVal(i, 64), False)}}))
            ins = sum(1 for x in ks if x < tv)
            return ex.ret(s, call, EnumV('Result', 1, {1: {0: Int(z3.BitVecVal(ins, 64), False)}}))
        return ex.invoke_callable(s, f, [Ref(r.addr, r.path + (('i', k),))], lambda e_, s2, val: go(s2, k + 1, keys + [val]))
    return go(st, 0, [])


@model(r'^slice::partition_point$')
def m_partition_point(ex, st, call):
    """index of the first element for which the predicate is false (the slice is assumed partitioned, as the std contract requires)"""
    r, f = call.args
    v = deref(ex, st, r)
    if not isinstance(v, VecV):
        return None
    n = len(v.items)

    def go(s, k):
        if k == n:
            return ex.ret(s, call, Int(z3.BitVecVal(n, 64), False))

        def cont(e_, s2, val):
            return two_way(e_, s2, val.e, lambda s3: go(s3, k + 1), lambda s3: e_.ret(s3, call, Int(z3.BitVecVal(k, 64), False)))
        return ex.invoke_callable(s, f, [Ref(r.addr, r.path + (('i', k),))], cont)
    return go(st, 0)


@model(r'^Option::is_none_or$')
def m_is_none_or(ex, st, call):
    o, f = call.args
    return two_way(ex, st, enum_is(o, 1),
                   lambda s: ex.invoke_callable(s, f, [opt_payload_or_lazy(ex, s, call, o, 1)], lambda e_, s2, v: e_.ret(s2, call, v)),
                   lambda s: ex.ret(s, call, Bool(True)))


_prioritise({'m_is_none_or'})


# ------------------------------------------------------------------------------------------------
# str::bytes / str::parse::<u32> / u8 helpers
# ------------------------------------------------------------------------------------------------
@model(r'^str::bytes$')
def m_str_bytes(ex, st, call):
    s = deref(ex, st, call.args[0])
    if not isinstance(s, Str):
        return None
    return ex.ret(st, call, Agg('iter', 'Bytes', {0: s, 1: 0}))


@model(r'^<Bytes as Iterator>::next$|^<Bytes<.*> as Iterator>::next$')
def m_bytes_next(ex, st, call):
    r = call.args[0]
    it = deref(ex, st, r)
    if not (isinstance(it, Agg) and it.ty == 'Bytes'):
        return None
    s, pos = it.fields[0], it.fields[1]
    if pos >= s.cap:
        return ex.ret(st, call, ex.none())
    ex.store(st, r.addr, r.path, Agg('iter', 'Bytes', {0: s, 1: pos + 1}))
    return ex.ret(st, call, ex.option_ite(z3.ULT(bv(pos), s.n), Int(s.bytes[pos], False)))


@model(r'^u8::is_ascii_digit$')
def m_is_ascii_digit(ex, st, call):
    b = deref(ex, st, call.args[0])
    return ex.ret(st, call, Bool(z3.And(z3.UGE(b.e, 48), z3.ULE(b.e, 57))))


@model(r'^str::parse$|^JsString::parse$')
def m_str_parse(ex, st, call):
    s = deref(ex, st, call.args[0])
    if isinstance(s, Opaque) and ('jsstr', str(s.id)) in st.extra:
        s = st.extra[('jsstr', str(s.id))]
    ty = call.generics[-1][0] if call.generics else None
    if not isinstance(s, Str) or ty not in ('u32',):
        return None
    # u32::from_str: optional leading '+', then one or more ASCII digits, value <= u32::MAX
    plus = z3.And(z3.UGE(s.n, 1), s.bytes[0] == 43) if s.cap > 0 else z3.BoolVal(False)
    start = z3.If(plus, bv(1), bv(0))
    ok = z3.UGT(s.n, start)
    val = z3.BitVecVal(0, 64)
    over = z3.BoolVal(False)
    for i in range(s.cap):
        active = z3.And(z3.ULT(bv(i), s.n), z3.UGE(bv(i), start))
        isd = z3.And(z3.UGE(s.bytes[i], 48), z3.ULE(s.bytes[i], 57))
        ok = z3.And(ok, z3.Or(z3.Not(active), isd))
        nv = val * 10 + z3.ZeroExt(56, s.bytes[i] - 48)
        over = z3.Or(over, z3.And(active, z3.UGT(nv, z3.BitVecVal(0xFFFFFFFF, 64))))
        # keep val bounded once overflowed so that 64 bits never wrap (cap may exceed 19 digits)
        val = z3.If(active, z3.If(z3.UGT(nv, z3.BitVecVal(0xFFFFFFFF, 64)), z3.BitVecVal(0x100000000, 64), nv), val)
    good = z3.And(ok, z3.Not(over))
    d = z3.If(good, z3.BitVecVal(0, 64), z3.BitVecVal(1, 64))
    digits = s_substr(s, start, s.n - start)
    return ex.ret(st, call, EnumV('Result', d, {0: {0: Int(z3.Extract(31, 0, val), False, dec=digits)}, 1: {0: Opaque('ParseIntError', 0)}}))


# ------------------------------------------------------------------------------------------------
# more str / String API (bounded ASCII strings)
# ------------------------------------------------------------------------------------------------
def _pat_byte(ex, st, p):
    if isinstance(p, Char):
        return as_byte(ex, p)
    return None


def _tuple2(a, b):
    return Agg('tuple', 'tuple', {0: a, 1: b})


@model(r'^str::rsplit_once$|^str::split_once$')
def m_split_once(ex, st, call):
    s = deref(ex, st, call.args[0])
    b = _pat_byte(ex, st, call.args[1])
    if b is None or not isinstance(s, Str):
        return None
    f, i = (s_rfind_byte if 'rsplit' in call.norm else s_find_byte)(s, b)
    left = Str(i, s.bytes)
    right = s_substr(s, i + 1, s.n - i - 1)
    return ex.ret(st, call, ex.option_ite(f, _tuple2(left, right)))


@model(r'^str::strip_prefix$|^str::strip_suffix$')
def m_strip_affix(ex, st, call):
    s = deref(ex, st, call.args[0])
    p = call.args[1]
    if isinstance(p, Char):
        p = Str(bv(1), [as_byte(ex, p)])
    else:
        p = deref(ex, st, p)
    if not (isinstance(s, Str) and isinstance(p, Str)):
        return None
    if 'prefix' in call.norm:
        return ex.ret(st, call, ex.option_ite(s_starts_with(s, p), s_substr(s, p.n, s.n - p.n)))
    return ex.ret(st, call, ex.option_ite(s_ends_with(s, p), Str(s.n - p.n, s.bytes)))


@model(r'^str::trim_end_matches$|^str::trim_start_matches$|^str::trim_matches$')
def m_trim_matches(ex, st, call):
    s = deref(ex, st, call.args[0])
    b = _pat_byte(ex, st, call.args[1])
    if b is None or not isinstance(s, Str):
        return None
    lo = bv(0)
    hi = s.n
    if 'trim_end' not in call.norm:
        still = z3.BoolVal(True)
        for i in range(s.cap):
            hit = z3.And(still, z3.ULT(bv(i), s.n), s.bytes[i] == b)
            lo = z3.If(hit, bv(i + 1), lo)
            still = hit
    if 'trim_start' not in call.norm:
        # longest suffix of b's (not overlapping the trimmed prefix)
        still = z3.BoolVal(True)
        cnt = bv(0)
        for k in range(s.cap):
            idx = s.n - 1 - bv(k)
            hit = z3.And(still, z3.ULT(bv(k), s.n - lo), s_at(s, idx) == b)
            cnt = z3.If(hit, bv(k + 1), cnt)
            still = hit
        hi = s.n - cnt
    return ex.ret(st, call, s_substr(s, lo, hi - lo))


@model(r'^str::is_char_boundary$')
def m_is_char_boundary(ex, st, call):
    s = deref(ex, st, call.args[0])
    i = call.args[1]
    return ex.ret(st, call, Bool(z3.ULE(i.e, z3.ZeroExt(64 - LW, s.n))))


@model(r'^<str as Index<Range(To|From|Full|Inclusive|ToInclusive)?<usize>>>::index$|^str::index::<impl Index<.*> for str>::index$|^<String as Index<Range(To|From)?<usize>>>::index$')
def m_str_index(ex, st, call):
    s = deref(ex, st, call.args[0])
    r = call.args[1]
    if not (isinstance(r, Agg) and isinstance(s, Str)):
        return None
    from .symex import PathEnd
    n64 = z3.ZeroExt(64 - LW, s.n)
    if r.ty.startswith('RangeTo'):
        ok = z3.ULE(r.fields[0].e, n64)
        val = s_substr(s, bv(0), to_lw(r.fields[0]))
    elif r.ty.startswith('RangeFrom'):
        ok = z3.ULE(r.fields[0].e, n64)
        val = s_substr(s, to_lw(r.fields[0]), s.n - to_lw(r.fields[0]))
    else:
        a, b = r.fields[0], r.fields[1]
        ok = z3.And(z3.ULE(a.e, b.e), z3.ULE(b.e, n64))
        val = s_substr(s, to_lw(a), to_lw(b) - to_lw(a))
    good, bad = ex.split(st, ok)
    out = []
    if bad is not None:
        out.append(PathEnd('panic', bad, None, 'string slice index out of range'))
    if good is not None:
        out += ex.ret(good, call, val)
    return out


@model(r'^String::push_str$')
def m_push_str(ex, st, call):
    r, p = call.args
    s = deref(ex, st, r)
    p = deref(ex, st, p)
    if isinstance(s, Str) and isinstance(p, Str):
        ex.store(st, r.addr, r.path, s_concat2(s, p))
        return ex.ret(st, call, UNIT)
    return None


@model(r'^String::push$')
def m_push_char(ex, st, call):
    r, c = call.args
    s = deref(ex, st, r)
    if isinstance(s, Str) and isinstance(c, Char):
        ex.store(st, r.addr, r.path, s_concat2(s, Str(bv(1), [as_byte(ex, c)])))
        return ex.ret(st, call, UNIT)
    return None


@model(r'^String::with_capacity$')
def m_string_with_capacity(ex, st, call):
    return ex.ret(st, call, str_const(b''))


@model(r'^String::truncate$')
def m_string_truncate(ex, st, call):
    r, n = call.args
    s = deref(ex, st, r)
    if isinstance(s, Str):
        k = to_lw(n)
        ex.store(st, r.addr, r.path, Str(z3.If(z3.ULT(k, s.n), k, s.n), s.bytes))
        return ex.ret(st, call, UNIT)
    return None


@model(r'^String::pop$')
def m_string_pop(ex, st, call):
    r = call.args[0]
    s = deref(ex, st, r)
    if isinstance(s, Str):
        last = s_at(s, s.n - 1)
        ex.store(st, r.addr, r.path, Str(z3.If(s.n == 0, bv(0), s.n - 1), s.bytes))
        return ex.ret(st, call, ex.option_ite(s.n != 0, Char(z3.ZeroExt(24, last))))
    return None


@model(r'^<String as Add<&str>>::add$')
def m_string_add(ex, st, call):
    a, b = call.args
    b = deref(ex, st, b)
    if isinstance(a, Str) and isinstance(b, Str):
        return ex.ret(st, call, s_concat2(a, b))
    return None


@model(r'^<Split<char> as Iterator>::collect$|^<Split<.*char> as Iterator>::collect$')
def m_split_collect(ex, st, call):
    it = call.args[0]
    if not (isinstance(it, Agg) and it.ty == 'Split'):
        return None
    s, fin, d, pos = it.fields[0], it.fields[1], it.fields[2], it.fields[3]
    out = []

    def go(state, pos_, items, depth):
        if depth > ex.unwind:
            from .symex import PathEnd
            return [PathEnd('bound', state, None, 'split(..).collect(): more pieces than the unwinding bound')]
        f, i = s_find_byte(s, d, start=pos_)
        end = z3.If(f, i, s.n)
        piece = s_substr(s, pos_, end - pos_)
        return two_way(ex, state, f, lambda s2: go(s2, z3.simplify(i + 1), items + [piece], depth + 1),
                       lambda s2: ex.ret(s2, call, VecV(items + [piece], '&str')))
    return go(st, pos, [], 0)


@model(r'^Vec::insert$')
def m_vec_insert(ex, st, call):
    r, i, x = call.args
    v = deref(ex, st, r)
    c = ex.concrete_int(i.e)
    if isinstance(v, VecV) and c is not None and c <= len(v.items):
        ex.store(st, r.addr, r.path, VecV(v.items[:c] + (x,) + v.items[c:], v.elem_ty))
        return ex.ret(st, call, UNIT)
    return None


@model(r'^Vec::remove$')
def m_vec_remove(ex, st, call):
    r, i = call.args
    v = deref(ex, st, r)
    c = ex.concrete_int(i.e)
    if isinstance(v, VecV) and c is not None and c < len(v.items):
        ex.store(st, r.addr, r.path, VecV(v.items[:c] + v.items[c + 1:], v.elem_ty))
        return ex.ret(st, call, v.items[c])
    return None


# ------------------------------------------------------------------------------------------------
# association-list maps: VecV whose elem_ty is '__map__' and whose items are (key, value) tuples
# ------------------------------------------------------------------------------------------------
def val_eq(a, b):
    """structural equality of two values as a z3 Bool (ints, bools, opaque tokens, structs/tuples of those)"""
    if isinstance(a, Int) and isinstance(b, Int):
        return a.e == b.e
    if isinstance(a, Bool) and isinstance(b, Bool):
        return a.e == b.e
    if isinstance(a, Opaque) and isinstance(b, Opaque):
        return a.id == b.id
    if isinstance(a, Agg) and isinstance(b, Agg) and set(a.fields) == set(b.fields):
        return z3.And([val_eq(a.fields[i], b.fields[i]) for i in a.fields] + [z3.BoolVal(True)])
    if isinstance(a, Str) and isinstance(b, Str):
        return s_eq(a, b)
    unmodelled('equality of %r and %r' % (a, b))


def is_mapv(v):
    return isinstance(v, VecV) and v.elem_ty == '__map__'


def map_lookup(ex, st, m, key, on_hit, on_miss):
    """fork over which entry of the association list equals key"""
    out = []
    rest = st
    for k, ent in enumerate(m.items):
        if rest is None:
            break
        hit, rest = ex.split(rest, val_eq(ent.fields[0], key))
        if hit is not None:
            out += on_hit(hit, k)
    if rest is not None:
        out += on_miss(rest)
    return out


@model(r'^HashMap::entry$')
def m_mapv_entry(ex, st, call):
    r, k = call.args
    if is_mapv(deref(ex, st, r)):
        return ex.ret(st, call, Agg('entry', 'MapEntry', {0: r, 1: k}))
    return None


@model(r'^Entry::or_default$|^Entry::or_insert$|^Entry::or_insert_with$')
def m_mapv_or_default(ex, st, call):
    ent = call.args[0]
    if not (isinstance(ent, Agg) and ent.ty == 'MapEntry'):
        return None
    r, key = ent.fields[0], ent.fields[1]
    m = deref(ex, st, r)

    def hit(s, k):
        return ex.ret(s, call, Ref(r.addr, r.path + (('i', k), ('f', 1, None))))

    def miss(s):
        if call.norm.endswith('or_default'):
            dv = VecV(())
        elif call.norm.endswith('or_insert'):
            dv = call.args[1]
        else:
            unmodelled('or_insert_with on an association-list map')
        mm = deref(ex, s, r)
        ex.store(s, r.addr, r.path, VecV(mm.items + (Agg('tuple', 'tuple', {0: key, 1: dv}),), '__map__'))
        return ex.ret(s, call, Ref(r.addr, r.path + (('i', len(mm.items)), ('f', 1, None))))
    return map_lookup(ex, st, m, key, hit, miss)


@model(r'^HashMap::insert$')
def m_mapv_insert(ex, st, call):
    r, key, val = call.args
    m = deref(ex, st, r)
    if not is_mapv(m):
        return None

    def hit(s, k):
        mm = deref(ex, s, r)
        old = mm.items[k].fields[1]
        items = list(mm.items)
        items[k] = Agg('tuple', 'tuple', {0: mm.items[k].fields[0], 1: val})
        ex.store(s, r.addr, r.path, VecV(items, '__map__'))
        return ex.ret(s, call, ex.some(old))

    def miss(s):
        mm = deref(ex, s, r)
        ex.store(s, r.addr, r.path, VecV(mm.items + (Agg('tuple', 'tuple', {0: key, 1: val}),), '__map__'))
        return ex.ret(s, call, ex.none())
    return map_lookup(ex, st, m, key, hit, miss)


@model(r'^HashMap::remove$')
def m_mapv_remove(ex, st, call):
    r, kref = call.args
    m = deref(ex, st, r)
    if not is_mapv(m):
        return None
    key = deref(ex, st, kref)

    def hit(s, k):
        mm = deref(ex, s, r)
        ex.store(s, r.addr, r.path, VecV(mm.items[:k] + mm.items[k + 1:], '__map__'))
        return ex.ret(s, call, ex.some(mm.items[k].fields[1]))
    return map_lookup(ex, st, m, key, hit, lambda s: ex.ret(s, call, ex.none()))


@model(r'^HashMap::get$|^HashMap::get_mut$')
def m_mapv_get(ex, st, call):
    r, kref = call.args
    m = deref(ex, st, r)
    if not is_mapv(m):
        return None
    key = deref(ex, st, kref)
    return map_lookup(ex, st, m, key, lambda s, k: ex.ret(s, call, ex.some(Ref(r.addr, r.path + (('i', k), ('f', 1, None))))),
                      lambda s: ex.ret(s, call, ex.none()))


@model(r'^HashMap::contains_key$')
def m_mapv_contains(ex, st, call):
    r, kref = call.args
    m = deref(ex, st, r)
    if not is_mapv(m):
        return None
    key = deref(ex, st, kref)
    return map_lookup(ex, st, m, key, lambda s, k: ex.ret(s, call, Bool(True)), lambda s: ex.ret(s, call, Bool(False)))


@model(r'^VecDeque::push_back$')
def m_deque_push_back(ex, st, call):
    r, x = call.args
    v = deref(ex, st, r)
    if isinstance(v, VecV):
        ex.store(st, r.addr, r.path, VecV(v.items + (x,), v.elem_ty))
        return ex.ret(st, call, UNIT)
    return None


@model(r'^VecDeque::push_front$')
def m_deque_push_front(ex, st, call):
    r, x = call.args
    v = deref(ex, st, r)
    if isinstance(v, VecV):
        ex.store(st, r.addr, r.path, VecV((x,) + v.items, v.elem_ty))
        return ex.ret(st, call, UNIT)
    return None


@model(r'^VecDeque::pop_front$')
def m_deque_pop_front(ex, st, call):
    r = call.args[0]
    v = deref(ex, st, r)
    if isinstance(v, VecV):
        if not v.items:
            return ex.ret(st, call, ex.none())
        ex.store(st, r.addr, r.path, VecV(v.items[1:], v.elem_ty))
        return ex.ret(st, call, ex.some(v.items[0]))
    return None


@model(r'^VecDeque::pop_back$')
def m_deque_pop_back(ex, st, call):
    r = call.args[0]
    v = deref(ex, st, r)
    if isinstance(v, VecV):
        if not v.items:
            return ex.ret(st, call, ex.none())
        ex.store(st, r.addr, r.path, VecV(v.items[:-1], v.elem_ty))
        return ex.ret(st, call, ex.some(v.items[-1]))
    return None


@model(r'^<IntoIter<.*> as Iterator>::next$|^<vec::IntoIter<.*> as Iterator>::next$')
def m_into_iter_next(ex, st, call):
    r = call.args[0]
    it = deref(ex, st, r)
    if not (isinstance(it, Agg) and it.ty == 'IntoIter'):
        return None
    v, pos = it.fields[0], it.fields[1]
    if pos >= len(v.items):
        return ex.ret(st, call, ex.none())
    ex.store(st, r.addr, r.path, Agg('iter', 'IntoIter', {0: v, 1: pos + 1}))
    return ex.ret(st, call, ex.some(v.items[pos]))


_prioritise({'m_mapv_entry', 'm_mapv_or_default', 'm_mapv_insert', 'm_mapv_remove', 'm_mapv_get', 'm_mapv_contains'})


# vec![..] macro expansion of this toolchain: Box::new_uninit + in-place array write + box_assume_init_into_vec_unsafe
@model(r'^Box::new_uninit$')
def m_box_new_uninit(ex, st, call):
    a = st.alloc(Agg('struct', 'MaybeUninit', {}, lazy=True))
    return ex.ret(st, call, ex.mk_box(Ref(a)))


@model(r'^boxed::box_assume_init_into_vec_unsafe$|^box_assume_init_into_vec_unsafe$')
def m_box_into_vec(ex, st, call):
    b = call.args[0]
    r = b.fields[0].fields[0]
    v = ex.load(st, r.addr, r.path)
    try:
        arr = v.fields[1].fields[0].fields[0]
    except (KeyError, AttributeError):
        unmodelled('vec! expansion: unexpected MaybeUninit layout %r' % (v,))
    items = [arr.fields[i] for i in sorted(arr.fields)]
    return ex.ret(st, call, VecV(items))


@model(r'^slice::into_vec$|^<\[.*\]>::into_vec$')
def m_slice_into_vec(ex, st, call):
    b = call.args[0]
    if isinstance(b, Agg) and 0 in b.fields and isinstance(b.fields[0], Agg):
        r = b.fields[0].fields.get(0)
        if isinstance(r, Ref):
            v = ex.load(st, r.addr, r.path)
            if isinstance(v, Agg) and v.kind == 'array':
                return ex.ret(st, call, VecV([v.fields[i] for i in sorted(v.fields)]))
    return None


# association-list sets (VecV with elem_ty '__set__')
@model(r'^HashSet::insert$')
def m_setv_insert(ex, st, call):
    r, key = call.args
    m = deref(ex, st, r)
    if not (isinstance(m, VecV) and m.elem_ty == '__set__'):
        return None
    out = []
    rest = st
    for ent in m.items:
        if rest is None:
            break
        hit, rest = ex.split(rest, val_eq(ent, key))
        if hit is not None:
            out += ex.ret(hit, call, Bool(False))
    if rest is not None:
        mm = deref(ex, rest, r)
        ex.store(rest, r.addr, r.path, VecV(mm.items + (key,), '__set__'))
        out += ex.ret(rest, call, Bool(True))
    return out


@model(r'^<IntoIter<.*> as Iterator>::filter$|^<vec::IntoIter<.*> as Iterator>::filter$')
def m_into_iter_filter(ex, st, call):
    it, f = call.args
    if isinstance(it, Agg) and it.ty == 'IntoIter':
        return ex.ret(st, call, Agg('iter', 'FilterIntoIter', {0: it.fields[0], 1: it.fields[1], 2: f}))
    return None


@model(r'^<Filter<.*> as Iterator>::collect$')
def m_filter_collect(ex, st, call):
    it = call.args[0]
    if not (isinstance(it, Agg) and it.ty == 'FilterIntoIter'):
        return None
    items = list(it.fields[0].items[it.fields[1]:])
    f = it.fields[2]
    fa = st.alloc(f)      # FnMut closure called through &mut

    def go(s, k, kept):
        if k == len(items):
            return ex.ret(s, call, VecV(kept))
        a = s.alloc(items[k])

        def cont(ex_, s2, res):
            return two_way(ex_, s2, res.e, lambda s3: go(s3, k + 1, kept + [items[k]]), lambda s3: go(s3, k + 1, kept))
        fv = ex.load(s, fa)
        fname = ex.closure_fn(fv.ty)
        fn = ex.mir.get(fname)
        selfarg = Ref(fa) if fn.args[0][1].startswith('&') else fv
        return ex.invoke(s, fname, [selfarg, Ref(a)], cont)
    return go(st, 0, [])


_prioritise({'m_setv_insert', 'm_into_iter_filter', 'm_filter_collect'})


# map(...).collect() over concrete-length vectors
@model(r'^<Iter<.*> as Iterator>::map$|^<IntoIter<.*> as Iterator>::map$|^<vec::IntoIter<.*> as Iterator>::map$')
def m_concrete_map(ex, st, call):
    it, f = call.args
    if isinstance(it, Agg) and it.ty in ('Iter', 'IntoIter'):
        return ex.ret(st, call, Agg('iter', 'MapAdaptor', {0: it, 1: f}))
    return None


@model(r'^<Range<.*> as Iterator>::map$|^<ops::Range<.*> as Iterator>::map$')
def m_range_map(ex, st, call):
    it, f = call.args
    if isinstance(it, Agg) and it.ty.startswith('Range') and 0 in it.fields and 1 in it.fields:
        return ex.ret(st, call, Agg('iter', 'MapAdaptor', {0: it, 1: f}))
    return None


@model(r'^<Map<.*> as Iterator>::collect$')
def m_range_map_collect(ex, st, call):
    """(a..b).map(f).collect() with symbolic bounds: f runs only if a < b - ONE arbitrary iteration i in [a, b) is executed (the
    iterations are independent for the properties checked here); the result is a vector of b - a elements whose contents are unknown"""
    ad = call.args[0]
    if not (isinstance(ad, Agg) and ad.ty == 'MapAdaptor' and isinstance(ad.fields[0], Agg) and ad.fields[0].ty.startswith('Range')):
        return None
    rg = ad.fields[0]
    a, b = rg.fields[0], rg.fields[1]
    f = ad.fields[1]

    def some(s):
        i = z3.BitVec(fresh_name('range_i'), a.e.size())
        s.assume(z3.And(z3.ULE(a.e, i), z3.ULT(i, b.e)))
        return ex.invoke_callable(s, f, [Int(i, a.signed)], lambda e_, s2, val: e_.ret(s2, call, AbsVec(b.e - a.e, fresh_name('collected'), None)))
    return two_way(ex, st, z3.ULT(a.e, b.e), some, lambda s: ex.ret(s, call, VecV(())))


@model(r'^<Map<.*> as Iterator>::collect$')
def m_map_collect(ex, st, call):
    ad = call.args[0]
    if not (isinstance(ad, Agg) and ad.ty == 'MapAdaptor'):
        return None
    items = iter_items(ex, st, ad.fields[0])
    f = ad.fields[1]

    def go(s, k, acc):
        if k == len(items):
            return ex.ret(s, call, VecV(acc))
        return ex.invoke_callable(s, f, [items[k]], lambda e_, s2, val: go(s2, k + 1, acc + [val]))
    return go(st, 0, [])


_prioritise({'m_concrete_map', 'm_range_map_collect', 'm_map_collect'})


@model(r'^Vec::pop$')
def m_abs_vec_pop(ex, st, call):
    r = call.args[0]
    v = deref(ex, st, r)
    if not isinstance(v, AbsVec):
        return None

    def some(s):
        vv = deref(ex, s, r)
        nm = '$pop%d' % len(s.events)      # path-deterministic name of the popped element
        s.event('abs_pop', vv.tok, nm)
        ex.store(s, r.addr, r.path, AbsVec(vv.n - 1, (vv.tok, 'pop', len(s.events)), vv.elem_ty))
        elem = ex.fresh(s, vv.elem_ty, nm) if vv.elem_ty else Opaque('elem')
        return ex.ret(s, call, ex.some(elem))
    return two_way(ex, st, v.n != 0, some, lambda s: ex.ret(s, call, ex.none()))


_prioritise({'m_abs_vec_pop'})


def val_eq2(ex, st, a, b):
    """structural equality including enums with symbolic discriminants"""
    a = deref(ex, st, a) if isinstance(a, Ref) else a
    b = deref(ex, st, b) if isinstance(b, Ref) else b
    if isinstance(a, Char) and isinstance(b, Char):
        return a.e == b.e
    if isinstance(a, Float) and isinstance(b, Float):
        return z3.fpEQ(a.e, b.e)
    if isinstance(a, Unit) and isinstance(b, Unit):
        return z3.BoolVal(True)
    if isinstance(a, EnumV) and isinstance(b, EnumV):
        da, db = a.discr_expr(), b.discr_expr()
        cs = [da == db]
        for vi in set(a.payload) | set(b.payload):
            pa, pb = a.payload.get(vi, {}), b.payload.get(vi, {})
            for fi in set(pa) & set(pb):
                cs.append(z3.Implies(z3.And(da == vi, db == vi), val_eq2(ex, st, pa[fi], pb[fi])))
            if set(pa) != set(pb) and (pa or pb):
                # one side has an unmaterialised payload: only sound if that variant is excluded on that side
                missing_side = da if not pa else db
                other = db if not pa else da
                cs.append(z3.Or(missing_side != vi, other != vi))
        return z3.And(cs)
    if isinstance(a, Agg) and isinstance(b, Agg) and set(a.fields) == set(b.fields):
        return z3.And([val_eq2(ex, st, a.fields[i], b.fields[i]) for i in a.fields] + [z3.BoolVal(True)])
    return val_eq(a, b)


@model(r'^<Option<(char|u8|u16|u32|u64|usize|i32|i64|bool|&str|String)> as PartialEq>::(eq|ne)$|^<\((usize|u32), char\) as PartialEq>::(eq|ne)$')
def m_option_prim_eq(ex, st, call):
    a = deref(ex, st, call.args[0])
    b = deref(ex, st, call.args[1])
    e = val_eq2(ex, st, a, b)
    return ex.ret(st, call, Bool(e if call.norm.endswith('::eq') else z3.Not(e)))


@model(r'^(u8|u16|u32|u64|usize)::saturating_mul$')
def m_saturating_mul(ex, st, call):
    a, b = call.args
    w = a.width
    wide = z3.ZeroExt(w, a.e) * z3.ZeroExt(w, b.e)
    ov = z3.Extract(2 * w - 1, w, wide) != 0
    return ex.ret(st, call, Int(z3.If(ov, z3.BitVecVal((1 << w) - 1, w), z3.Extract(w - 1, 0, wide)), False))


@model(r'^(u8|u16|u32|u64|usize)::checked_mul$')
def m_checked_mul(ex, st, call):
    a, b = call.args
    w = a.width
    wide = z3.ZeroExt(w, a.e) * z3.ZeroExt(w, b.e)
    ov = z3.Extract(2 * w - 1, w, wide) != 0
    return ex.ret(st, call, ex.option_ite(z3.Not(ov), Int(z3.Extract(w - 1, 0, wide), False)))


# ------------------------------------------------------------------------------------------------
# orderings
# ------------------------------------------------------------------------------------------------
def ordering_value(lt, eq):
    """EnumV Ordering from z3 Bools (variant indices: Less=0, Equal=1, Greater=2)"""
    d = z3.If(lt, z3.BitVecVal(0, 64), z3.If(eq, z3.BitVecVal(1, 64), z3.BitVecVal(2, 64)))
    return EnumV('Ordering', d, {})


@model(r'^<f64 as PartialOrd>::partial_cmp$|^f64::partial_cmp$')
def m_f64_partial_cmp(ex, st, call):
    a = deref(ex, st, call.args[0])
    b = deref(ex, st, call.args[1])
    if not (isinstance(a, Float) and isinstance(b, Float)):
        return None
    nan = z3.Or(z3.fpIsNaN(a.e), z3.fpIsNaN(b.e))
    o = ordering_value(z3.fpLT(a.e, b.e), z3.fpEQ(a.e, b.e))
    return ex.ret(st, call, EnumV('Option<Ordering>', z3.If(nan, z3.BitVecVal(0, 64), z3.BitVecVal(1, 64)), {1: {0: o}}))


@model(r'^f64::total_cmp$')
def m_f64_total_cmp(ex, st, call):
    return None


@model(r'^str::encode_utf16$')
def m_encode_utf16(ex, st, call):
    s = deref(ex, st, call.args[0])
    if isinstance(s, Str):
        return ex.ret(st, call, Agg('iter', 'Utf16', {0: s}))
    return None


def _lex_lt(a, b):
    res = None
    m = min(a.cap, b.cap)
    res = z3.ULT(a.n, b.n)
    for i in reversed(range(m)):
        both = z3.And(z3.ULT(bv(i), a.n), z3.ULT(bv(i), b.n))
        res = z3.If(both, z3.If(a.bytes[i] == b.bytes[i], res, z3.ULT(a.bytes[i], b.bytes[i])),
                    z3.And(z3.UGE(bv(i), a.n), z3.ULT(bv(i), b.n)))
    return res


@model(r'^<EncodeUtf16 as Iterator>::cmp$|^<EncodeUtf16<.*> as Iterator>::cmp$|^<str as Ord>::cmp$|^<String as Ord>::cmp$|^<&str as Ord>::cmp$|^<Bytes as Iterator>::cmp$|^<Chars as Iterator>::cmp$')
def m_str_cmp(ex, st, call):
    a = deref2(ex, st, call.args[0])
    b = deref2(ex, st, call.args[1])
    if isinstance(a, Agg) and a.kind == 'iter' and isinstance(a.fields.get(0), Str):
        a = a.fields[0]
    if isinstance(b, Agg) and b.kind == 'iter' and isinstance(b.fields.get(0), Str):
        b = b.fields[0]
    if isinstance(a, Str) and isinstance(b, Str):
        ex.models_used.add('lexicographic comparison of bounded ASCII strings (UTF-16 code-unit order = byte order for ASCII)')
        return ex.ret(st, call, ordering_value(_lex_lt(a, b), s_eq(a, b)))
    return None


@model(r'^<(u8|u16|u32|u64|usize|i32|i64) as Ord>::cmp$|^<(u8|u16|u32|u64|usize|i32|i64) as PartialOrd>::partial_cmp$')
def m_int_cmp(ex, st, call):
    a = deref(ex, st, call.args[0])
    b = deref(ex, st, call.args[1])
    lt = (a.e < b.e) if a.signed else z3.ULT(a.e, b.e)
    o = ordering_value(lt, a.e == b.e)
    if call.norm.endswith('partial_cmp'):
        return ex.ret(st, call, ex.some(o))
    return ex.ret(st, call, o)


@model(r'^str::as_bytes$|^String::as_bytes$')
def m_as_bytes(ex, st, call):
    s_ = deref(ex, st, call.args[0])
    if not isinstance(s_, Str):
        return None
    # a byte slice of concrete length: fork on the (bounded) length
    out = []
    rest = st
    for n in range(s_.cap + 1):
        if rest is None:
            break
        hit, rest = ex.split(rest, s_.n == n)
        if hit is not None:
            a = hit.alloc(VecV([Int(b, False) for b in s_.bytes[:n]], 'u8'))
            out += ex.ret(hit, call, Ref(a))
    return out


@model(r'^<Iter<u8> as Iterator>::copied$|^<Iter<.*> as Iterator>::copied$|^<Iter<.*> as Iterator>::cloned$')
def m_iter_copied(ex, st, call):
    it = call.args[0]
    if isinstance(it, Agg) and it.ty == 'Iter':
        return ex.ret(st, call, Agg('iter', 'CopiedIter', dict(it.fields)))
    return None


@model(r'^<Copied<.*> as Iterator>::next$|^<Cloned<.*> as Iterator>::next$')
def m_copied_next(ex, st, call):
    r = call.args[0]
    it = deref(ex, st, r)
    if not (isinstance(it, Agg) and it.ty == 'CopiedIter'):
        return None
    base, pos, end = it.fields[0], it.fields[1], it.fields[2]
    if pos >= end:
        return ex.ret(st, call, ex.none())
    ex.store(st, r.addr, r.path, Agg('iter', 'CopiedIter', {0: base, 1: pos + 1, 2: end}))
    return ex.ret(st, call, ex.some(ex.load(st, base.addr, base.path + (('i', pos),))))


@model(r'^u8::is_ascii_digit$|^char::is_ascii_digit$')
def m_is_ascii_digit2(ex, st, call):
    b = deref(ex, st, call.args[0])
    if isinstance(b, Char):
        return ex.ret(st, call, Bool(z3.And(z3.UGE(b.e, 48), z3.ULE(b.e, 57))))
    return ex.ret(st, call, Bool(z3.And(z3.UGE(b.e, 48), z3.ULE(b.e, 57))))


_OPS = {'add': 'Add', 'sub': 'Sub', 'mul': 'Mul', 'div': 'Div', 'rem': 'Rem', 'bitand': 'BitAnd', 'bitor': 'BitOr', 'bitxor': 'BitXor', 'shl': 'Shl', 'shr': 'Shr'}


@model(r'^<&?&?(u8|u16|u32|u64|usize|i8|i16|i32|i64|isize) as (Add|Sub|Mul|Div|Rem|BitAnd|BitOr|BitXor|Shl|Shr)(<.*>)?>::(add|sub|mul|div|rem|bitand|bitor|bitxor|shl|shr)$')
def m_int_operator_trait(ex, st, call):
    a = deref2(ex, st, call.args[0])
    b = deref2(ex, st, call.args[1])
    if not (isinstance(a, Int) and isinstance(b, Int)):
        return None
    op = _OPS[call.norm.split('::')[-1]]
    from .symex import PathEnd
    if op in ('Add', 'Sub', 'Mul'):
        r = ex.binop(st, op + 'WithOverflow', a, b)
        val, ov = r.fields[0], r.fields[1].e
        ok, bad = ex.split(st, z3.Not(ov))
        out = []
        if bad is not None:
            out.append(PathEnd('panic', bad, None, 'arithmetic overflow in %s' % call.norm))
        if ok is not None:
            out += ex.ret(ok, call, val)
        return out
    if op in ('Div', 'Rem'):
        ok, bad = ex.split(st, b.e != 0)
        out = []
        if bad is not None:
            out.append(PathEnd('panic', bad, None, 'division by zero in %s' % call.norm))
        if ok is not None:
            out += ex.ret(ok, call, ex.binop(ok, op, a, b))
        return out
    return ex.ret(st, call, ex.binop(st, op, a, b))


@model(r'^<Option<.*> as PartialEq>::(eq|ne)$|^<\(.*\) as PartialEq>::(eq|ne)$')
def m_option_generic_eq(ex, st, call):
    a = deref(ex, st, call.args[0])
    b = deref(ex, st, call.args[1])
    try:
        e = val_eq2(ex, st, a, b)
    except Exception:
        return None
    return ex.ret(st, call, Bool(e if call.norm.endswith('::eq') else z3.Not(e)))
