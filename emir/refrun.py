"""Re-execution DFS for reference functions written in Python over symbolic values.

fn(br) is ordinary Python; every data-dependent decision goes through br(cond) -> bool.  explore() runs fn
once per feasible decision sequence (under a base path condition) and returns [(conds, result)].
"""
import z3


def explore(ex, base_pc, fn, max_leaves=10000):
    results = []
    stack = [[]]
    while stack:
        prefix = stack.pop()
        taken = []
        conds = []
        mdl = [None]

        def br(cond):
            c = z3.simplify(cond) if not isinstance(cond, bool) else z3.BoolVal(cond)
            if z3.is_true(c):
                return True
            if z3.is_false(c):
                return False
            i = len(taken)
            if i < len(prefix):
                d = prefix[i]
                mdl[0] = None
            else:
                m = mdl[0]
                if m is None:
                    if not ex.feasible_pc(base_pc + conds):
                        raise RuntimeError('reference reached an infeasible point')
                    m = ex.last_model
                d = z3.is_true(m.eval(c, model_completion=True))
                other = z3.Not(c) if d else c
                if ex.feasible_pc(base_pc + conds, other):
                    stack.append(taken + [not d])
                mdl[0] = m
            taken.append(d)
            conds.append(c if d else z3.Not(c))
            return d
        r = fn(br)
        results.append((list(conds), r))
        if len(results) > max_leaves:
            raise RuntimeError('reference exploration exceeded leaf limit')
    return results
