"""Check driver: MIR dump cache, replay crate, obligations, external solver cross-check, evidence, findings."""
import hashlib
import json
import os
import re
import shutil
import subprocess
import sys
import time

import z3

VERIF = os.path.dirname(os.path.dirname(os.path.abspath(__file__)))
REPO = os.environ.get('VERIF_REPO', '/repo')
CACHE = os.path.join(VERIF, '.cache')
NIGHTLY = 'nightly'


class Inconclusive(Exception):
    pass


def repo_hash(extra=''):
    h = hashlib.sha256()
    h.update(extra.encode())
    files = ['Cargo.toml', 'Cargo.lock']
    for dp, dn, fn in os.walk(os.path.join(REPO, 'src')):
        dn.sort()
        for f in sorted(fn):
            if f.endswith('.rs'):
                files.append(os.path.relpath(os.path.join(dp, f), REPO))
    for rel in files:
        p = os.path.join(REPO, rel)
        if os.path.exists(p):
            h.update(rel.encode())
            with open(p, 'rb') as f:
                h.update(f.read())
    return h.hexdigest()[:20]


def _env():
    e = dict(os.environ)
    e['CARGO_NET_OFFLINE'] = 'true'
    e.pop('RUSTFLAGS', None)
    return e


def mir_dump(features=()):
    """-> path of the MIR dump of /repo's current working tree (regenerated whenever any source byte changes)."""
    feat = ','.join(features)
    hv = repo_hash('mir:' + feat)
    os.makedirs(CACHE, exist_ok=True)
    out = os.path.join(CACHE, 'mir-%s-%s.txt' % (feat or 'default', hv))
    if os.path.exists(out) and os.path.getsize(out) > 1000000:
        return out, hv, 0.0
    # drop dumps of older source states (disk)
    for f in os.listdir(CACHE):
        if f.startswith('mir-%s-' % (feat or 'default')) and f.endswith('.txt'):
            os.remove(os.path.join(CACHE, f))
    tgt = os.path.join(CACHE, 'mir-target-' + (feat.replace(',', '_') or 'default'))
    cmd = ['cargo', '+' + NIGHTLY, 'rustc', '--offline', '--lib', '--target-dir', tgt]
    if features:
        cmd += ['--features', feat]
    # the cfg nonce only forces rustc to run again for this source state; no code refers to it
    cmd += ['--', '-Zunpretty=mir', '-C', 'debug-assertions=off', '-C', 'overflow-checks=on', '-A', 'warnings',
            '--cfg', 'verif_mir_%s' % hv, '--check-cfg', 'cfg(verif_mir_%s)' % hv]
    t = time.time()
    tmp = out + '.tmp'
    with open(tmp, 'w') as fo:
        p = subprocess.run(cmd, cwd=REPO, stdout=fo, stderr=subprocess.PIPE, env=_env(), text=True)
    if p.returncode != 0 or os.path.getsize(tmp) < 1000000:
        msg = p.stderr[-3000:]
        os.remove(tmp)
        raise Inconclusive('MIR dump failed (does /repo compile?):\n' + msg)
    os.rename(tmp, out)
    return out, hv, time.time() - t


# ------------------------------------------------------------------------------------------------
# replay crate (real code, stable toolchain)
# ------------------------------------------------------------------------------------------------
_replay_built = {}


def replay_bin(profile='dev'):
    if profile in _replay_built:
        return _replay_built[profile]
    tgt = os.path.join(CACHE, 'replay-target')
    cmd = ['cargo', 'build', '--offline', '--manifest-path', os.path.join(VERIF, 'replay', 'Cargo.toml'),
           '--target-dir', tgt]
    if profile == 'release':
        cmd.append('--release')
    p = subprocess.run(cmd, stdout=subprocess.PIPE, stderr=subprocess.STDOUT, env=_env(), text=True)
    if p.returncode != 0:
        raise Inconclusive('replay crate does not build against /repo:\n' + p.stdout[-3000:])
    b = os.path.join(tgt, 'release' if profile == 'release' else 'debug', 'replay')
    _replay_built[profile] = b
    return b


def replay(requests, profile='dev', timeout=120):
    """requests: list of JSON-able dicts; -> list of reply dicts (one per request) from the real code"""
    b = replay_bin(profile)
    inp = '\n'.join(json.dumps(r) for r in requests) + '\n'
    p = subprocess.run([b], input=inp, stdout=subprocess.PIPE, stderr=subprocess.PIPE, text=True, timeout=timeout)
    outs = [json.loads(l) for l in p.stdout.splitlines() if l.strip()]
    if len(outs) != len(requests):
        raise Inconclusive('replay binary answered %d of %d requests (exit %s): %s' % (len(outs), len(requests), p.returncode, p.stderr[-2000:]))
    return outs


# ------------------------------------------------------------------------------------------------
# external solvers
# ------------------------------------------------------------------------------------------------
def smt2_of(conds):
    s = z3.Solver()
    for c in conds:
        s.add(c)
    return s.to_smt2()


def _run_batch(label, cmd_prefix, batch, logic, timeout_s):
    """-> (seconds, number of obligations the solver did not decide within its per-query limit)"""
    parts = ['(set-logic %s)' % logic]
    names = []
    for name, conds, exp in batch:
        body = smt2_of(conds)
        body = re.sub(r'^\(set-info[^\n]*\n', '', body, flags=re.M)
        body = re.sub(r'^\(set-logic[^\n]*\n', '', body, flags=re.M)
        body = body.replace('(check-sat)', '')
        parts.append('(push 1)')
        parts.append(body)
        parts.append('(check-sat)')
        parts.append('(pop 1)')
        names.append((name, exp))
    text = '\n'.join(parts) + '\n'
    os.makedirs(os.path.join(CACHE, 'smt'), exist_ok=True)
    path = os.path.join(CACHE, 'smt', 'batch-%s-%d-%d.smt2' % (label, os.getpid(), int(time.time() * 1000) % 100000000))
    with open(path, 'w') as f:
        f.write(text)
    t = time.time()
    try:
        p = subprocess.run(cmd_prefix + [path], stdout=subprocess.PIPE, stderr=subprocess.STDOUT, text=True, timeout=min(timeout_s * max(1, len(batch)) + 60, 3 * 3600))
    except subprocess.TimeoutExpired:
        raise Inconclusive('%s timed out on cross-check batch %s' % (label, path))
    dt = time.time() - t
    lines = [l.strip() for l in p.stdout.splitlines() if l.strip()]
    if any(l.startswith('(error') for l in lines):
        raise Inconclusive('%s reported an error on %s: %s' % (label, path, [l for l in lines if l.startswith('(error')][:3]))
    verdicts = [l for l in lines if l in ('sat', 'unsat', 'unknown', 'timeout')]
    if len(verdicts) != len(batch):
        raise Inconclusive('%s gave %d verdicts for %d queries (%s): %s' % (label, len(verdicts), len(batch), path, lines[-3:]))
    undecided = 0
    for (name, exp), v in zip(names, verdicts):
        if v in ('unknown', 'timeout'):
            undecided += 1       # the independent solver ran out of its per-query budget: recorded, not a verdict
        elif v != exp:
            raise Inconclusive('solver disagreement on %s: z3-5.1.0 says %s, %s says %s (%s)' % (name, exp, label, v, path))
    os.remove(path)
    return dt, undecided


def cross_check(batch, timeout_s=300, logic='ALL', tier='thorough', seed=0, quick_z3=150, quick_cvc5=30):
    """batch: list of (name, [z3 conds], expected 'sat'|'unsat').
    Re-decide with the independent binaries /usr/bin/z3 4.8.12 and cvc5 1.0.3.  thorough: every obligation with z3 4.8.12 (at most 4000) and a seeded sample of 400 with cvc5;
    quick: a seeded sample (quick_z3 / quick_cvc5 obligations).  Any error line or disagreement -> Inconclusive; an obligation
    the second solver cannot decide within its per-query budget is counted in `*_undecided_*` (z3 5.1.0's verdict stands)."""
    import random
    stats = dict(queries=len(batch), z3_old_queries=0, cvc5_queries=0, z3_old_s=0.0, cvc5_s=0.0)
    if not batch:
        return stats
    rnd = random.Random(seed + 7)
    # thorough: every obligation, up to 4000 per solver (beyond that a seeded sample of 4000: stated in the evidence)
    cap1 = 4000 if tier == 'thorough' else quick_z3
    cap2 = 400 if tier == 'thorough' else quick_cvc5      # cvc5 needs minutes (and gigabytes) for some bit-vector string obligations
    b1 = batch if len(batch) <= cap1 else rnd.sample(batch, cap1)
    b2 = batch if len(batch) <= cap2 else rnd.sample(batch, cap2)
    stats['sampled'] = len(batch) > min(cap1, cap2)

    def split(b):
        # pure bit-vector obligations go out under QF_BV (much faster in cvc5), the rest under `logic`
        bvq, rest = [], []
        for item in b:
            txt = smt2_of(item[1])
            (rest if ('FloatingPoint' in txt or 'fp.' in txt or 'to_fp' in txt or 'RoundingMode' in txt or 'Int' in txt.replace('BitVec', '')) else bvq).append(item)
        return bvq, rest
    per = 10 if tier == 'quick' else 30
    for label, cmd, b in (('z3old', ['/usr/bin/z3', '-t:%d' % (per * 1000)], b1),
                          ('cvc5', ['cvc5', '--lang', 'smt2', '--incremental', '--tlimit-per=%d' % (per * 1000)], b2)):
        bvq, rest = split(b)
        dt = 0.0
        und = 0
        # one solver process per 200 obligations: a long incremental session makes cvc5 grow to tens of gigabytes
        for lab2, qs, lg in ((label + '-bv', bvq, 'QF_BV'), (label, rest, logic)):
            for i in range(0, len(qs), 200):
                d_, u_ = _run_batch(lab2, cmd, qs[i:i + 200], lg, per)
                dt += d_
                und += u_
        key = 'z3_old' if label == 'z3old' else 'cvc5'
        stats[key + '_s'] = round(dt, 2)
        stats[key + '_queries'] = len(b)
        stats[key + '_undecided_within_%ds' % per] = und
    return stats


# ------------------------------------------------------------------------------------------------
# findings
# ------------------------------------------------------------------------------------------------
def load_known_findings():
    p = os.path.join(VERIF, 'known_findings.json')
    if not os.path.exists(p):
        return {'known': [], 'fixed': []}
    return json.load(open(p))


class Report:
    """collects what one check run did; writes evidence; decides the exit code"""

    def __init__(self, pid, tier, seed):
        self.pid = pid
        self.tier = tier
        self.seed = seed
        self.t0 = time.time()
        self.paths = 0
        self.queries = 0
        self.solver_s = 0.0
        self.validated = 0
        self.obligations = []     # dicts
        self.samples = []
        self.functions = set()
        self.models = set()
        self.havoc = set()
        self.bounds = {}
        self.assumptions = []
        self.outside = []
        self.vacuity = []
        self.violations = []      # (key, description, replay path)
        self._vkeys = set()
        self.dup_violations = 0
        self.known_hits = []
        self.inconclusive = []
        self.cross = dict(queries=0, z3_old_s=0.0, cvc5_s=0.0)
        self.extra = {}
        kf = load_known_findings()
        self.known = {k['key']: k for k in kf.get('known', []) if k.get('property') == pid}

    def absorb(self, ex):
        self.paths += ex.stats['paths']
        self.queries += ex.stats['queries']
        self.solver_s += ex.stats['solver_s']
        self.functions |= set(ex.functions_encoded)
        self.models |= set(ex.models_used)
        self.havoc |= set(ex.havoc_used)

    def obligation(self, name, verdict, bound='', time_s=0.0, detail=None):
        d = dict(obligation=name, verdict=verdict, bound=bound, solver_s=round(time_s, 3))
        if detail is not None:
            d['detail'] = detail
        self.obligations.append(d)

    def sample(self, s):
        if len(self.samples) < 12:
            self.samples.append(s)

    def violation(self, key, what, replay_path):
        if key in self.known:
            self.known_hits.append((key, what))
        elif key in self._vkeys:
            self.dup_violations += 1         # same role again: reported once
        else:
            self._vkeys.add(key)
            self.violations.append((key, what, replay_path))

    def seen(self, key):
        """has this violation role been reported already (lets checks skip further replays)"""
        return key in self._vkeys

    def inconc(self, msg):
        self.inconclusive.append(msg)

    def write_replay(self, name, data):
        d = os.path.join(VERIF, 'replays')
        os.makedirs(d, exist_ok=True)
        p = os.path.join(d, '%s-%s.json' % (self.pid, name))
        with open(p, 'w') as f:
            json.dump(data, f, indent=1, sort_keys=True)
        return p

    def _by_kernel(self):
        import re as _re
        d = {}
        for o in self.obligations:
            k = _re.sub(r'(path|paths|ref) [0-9./]+', '', o['obligation']).strip()
            k = _re.sub(r'\s+', ' ', k)
            e = d.setdefault(k, {'unsat': 0, 'sat': 0})
            e[o['verdict']] = e.get(o['verdict'], 0) + 1
        return d

    def finish(self):
        wall = time.time() - self.t0
        ev = {
            'property_id': self.pid,
            'tier': self.tier,
            'seed': self.seed,
            'level': 'model_checking',
            'wall_s': round(wall, 2),
            'violations': len(self.violations),
            'assumptions': self.assumptions,
            'coverage': {
                'states': max(self.paths, 0),
                'transitions': max(self.queries, 0),
                'traces_validated_against_impl': self.validated,
                'samples': (self.samples or [o for o in self.obligations[:5]]),
                'obligations': len(self.obligations),
                'discharged': len([o for o in self.obligations if o['verdict'] in ('unsat', 'holds')]),
                'obligation_list': self.obligations[:400],
                'obligations_by_kernel': self._by_kernel(),
                'functions_encoded': sorted(self.functions),
                'std_models_used': sorted(self.models),
                'havoc_list': sorted(self.havoc),
                'bounds': self.bounds,
                'solver_time_s': round(self.solver_s, 2),
                'cross_check': self.cross,
                'vacuity_witnesses': self.vacuity,
                'outside_claim': self.outside,
                'known_findings_hit': [k for k, _ in self.known_hits],
                'inconclusive': self.inconclusive,
                'explanation': 'states = feasible symbolic paths explored by the MIR executor; transitions = solver queries '
                               'discharged (z3 5.1.0); obligations are re-decided by z3 4.8.12 and cvc5 1.0.3',
            },
        }
        ev['coverage'].update(self.extra)
        os.makedirs(os.path.join(VERIF, 'evidence'), exist_ok=True)
        with open(os.path.join(VERIF, 'evidence', self.pid + '.json'), 'w') as f:
            json.dump(ev, f, indent=1, sort_keys=True, default=str)
        seen = set()
        for key, what in self.known_hits:
            if key not in seen:
                print('KNOWN-FINDING: property=%s %s (%s)' % (self.pid, key, what))
                seen.add(key)
        for key, what, rp in self.violations:
            print('VIOLATION property=%s replay=%s' % (self.pid, rp))
            print('  ' + key + ': ' + what)
        if self.inconclusive:
            for m in self.inconclusive:
                print('INCONCLUSIVE property=%s %s' % (self.pid, m))
        print('%s %s: %d paths, %d solver queries (%.1fs), %d obligations, %d validated against the real code, %.1fs wall' % (
            self.pid, self.tier, self.paths, self.queries, self.solver_s, len(self.obligations), self.validated, wall))
        if self.violations:
            return 1
        if self.inconclusive:
            return 2
        return 0
