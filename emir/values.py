"""Symbolic value domain of the MIR executor."""
import itertools
import re
import z3

from .mirparse import split_top, find_top, match_close

_counter = itertools.count()


def fresh_name(prefix):
    return '%s!%d' % (prefix, next(_counter))


class V:
    pass


class Unit(V):
    def __repr__(self):
        return '()'


UNIT = Unit()


class Int(V):
    """dec: when the value was produced by parsing a decimal digit string, that digit string (Str) - lets
    `to_string` be modelled structurally (strip leading zeros) instead of by division"""
    __slots__ = ('e', 'signed', 'dec')

    def __init__(self, e, signed, dec=None):
        self.e = e
        self.signed = signed
        self.dec = dec

    @property
    def width(self):
        return self.e.size()

    def __repr__(self):
        return 'Int(%s,%s%d)' % (z3.simplify(self.e), 'i' if self.signed else 'u', self.width)


class Bool(V):
    __slots__ = ('e',)

    def __init__(self, e):
        if isinstance(e, bool):
            e = z3.BoolVal(e)
        self.e = e

    def __repr__(self):
        return 'Bool(%s)' % z3.simplify(self.e)


class Float(V):
    """src: (BitVec, signed) when the value is the exact image of an integer under an IntToFloat cast"""
    __slots__ = ('e', 'src')

    def __init__(self, e, src=None):
        self.e = e
        self.src = src

    def __repr__(self):
        return 'Float(%s)' % self.e


class Char(V):
    __slots__ = ('e',)

    def __init__(self, e):
        self.e = e

    def __repr__(self):
        return 'Char(%s)' % z3.simplify(self.e)


class Agg(V):
    """struct / tuple / array / closure. fields: dict index -> V (treated as immutable)."""
    __slots__ = ('kind', 'ty', 'fields', 'lazy', 'nm')

    def __init__(self, kind, ty, fields, lazy=False, nm=None):
        self.kind = kind
        self.ty = ty
        self.fields = fields
        self.lazy = lazy
        self.nm = nm      # stable name of a lazily materialised value (children are named after it, not after the cell)

    def with_field(self, i, v):
        d = dict(self.fields)
        d[i] = v
        return Agg(self.kind, self.ty, d, self.lazy, self.nm)

    def __repr__(self):
        return 'Agg(%s %s %r%s)' % (self.kind, self.ty, self.fields, ' lazy' if self.lazy else '')


class EnumV(V):
    """discr: python int (concrete variant index) or z3 BitVec(64).  payload: {variant_idx: {field_idx: V}}"""
    __slots__ = ('ty', 'discr', 'payload', 'lazy', 'nm')

    def __init__(self, ty, discr, payload=None, lazy=False, nm=None):
        self.ty = ty
        self.discr = discr
        self.payload = payload or {}
        self.lazy = lazy
        self.nm = nm

    def discr_expr(self):
        if isinstance(self.discr, int):
            return z3.BitVecVal(self.discr, 64)
        return self.discr

    def __repr__(self):
        d = self.discr if isinstance(self.discr, int) else z3.simplify(self.discr)
        return 'Enum(%s #%s %r)' % (self.ty, d, self.payload)


class Ref(V):
    """reference or raw pointer to a place.  null: python False or z3 Bool (raw pointers)."""
    __slots__ = ('addr', 'path', 'null', 'meta')

    def __init__(self, addr, path=(), null=False, meta=None):
        self.addr = addr
        self.path = tuple(path)
        self.null = null
        self.meta = meta

    def __repr__(self):
        return 'Ref(@%d%s%s)' % (self.addr, ''.join('.%s' % (p,) for p in self.path), ' null?' if self.null is not False else '')


class Str(V):
    """bounded byte string: n (BitVec 16) bytes used of `bytes` (tuple of BitVec 8)."""
    __slots__ = ('n', 'bytes')

    def __init__(self, n, bytes_):
        self.n = n
        self.bytes = tuple(bytes_)

    @property
    def cap(self):
        return len(self.bytes)

    def __repr__(self):
        return 'Str(n=%s cap=%d)' % (z3.simplify(self.n), self.cap)


LW = 16  # bit width of string lengths


def str_const(b):
    return Str(z3.BitVecVal(len(b), LW), [z3.BitVecVal(x, 8) for x in b])


class VecV(V):
    """vector / slice with a concrete number of symbolic elements"""
    __slots__ = ('items', 'elem_ty')

    def __init__(self, items, elem_ty=None):
        self.items = tuple(items)
        self.elem_ty = elem_ty

    def __repr__(self):
        return 'Vec%r' % (list(self.items),)


class AbsVec(V):
    """vector of which only the length is tracked (contents never inspected by the kernel)."""
    __slots__ = ('n', 'tok', 'elem_ty')

    def __init__(self, n, tok, elem_ty=None):
        self.n = n          # BitVec 64
        self.tok = tok      # identity of the contents (python object / int)
        self.elem_ty = elem_ty

    def __repr__(self):
        return 'AbsVec(len=%s tok=%s)' % (z3.simplify(self.n), self.tok)


class Opaque(V):
    """uninterpreted token with identity"""
    __slots__ = ('ty', 'id', 'tag')

    def __init__(self, ty, id_=None, tag=None):
        self.ty = ty
        self.id = id_ if id_ is not None else z3.Int(fresh_name('opq'))
        self.tag = tag

    def __repr__(self):
        return 'Opaque(%s %s%s)' % (self.ty, self.id, ' ' + str(self.tag) if self.tag else '')


class Lazy(V):
    __slots__ = ('ty',)

    def __init__(self, ty):
        self.ty = ty

    def __repr__(self):
        return 'Lazy(%s)' % self.ty


class FnItem(V):
    __slots__ = ('path',)

    def __init__(self, path):
        self.path = path

    def __repr__(self):
        return 'FnItem(%s)' % self.path


class Uninit(V):
    def __repr__(self):
        return 'Uninit'


UNINIT = Uninit()

# ------------------------------------------------------------------------------------------------
# types
# ------------------------------------------------------------------------------------------------
INT_TYPES = {
    'u8': (8, False), 'u16': (16, False), 'u32': (32, False), 'u64': (64, False), 'u128': (128, False),
    'usize': (64, False),
    'i8': (8, True), 'i16': (16, True), 'i32': (32, True), 'i64': (64, True), 'i128': (128, True),
    'isize': (64, True),
}

F64 = z3.Float64()
F32 = z3.Float32()
RNE = z3.RNE()
RTZ = z3.RTZ()


def strip_path(ty):
    """normalise a printed type: drop module paths and lifetimes ('std::vec::Vec<value::JsValue>' -> 'Vec<JsValue>')"""
    ty = ty.strip()
    ty = re.sub(r'<impl [^<>]*>::', '', ty)
    ty = re.sub(r"'\w+\s*,\s*", '', ty)
    ty = re.sub(r"<'\w+>", '', ty)
    ty = re.sub(r"&'\w+ ", '&', ty)
    ty = re.sub(r'\b(?:[a-z_][a-z0-9_]*::)+', '', ty)
    return ty


def type_head(ty):
    """('Vec', ['JsValue']) for 'Vec<JsValue>'; ('&', [..]) for refs; ('tuple', [...]); ('array', [elem, n]); ('slice',[elem])"""
    ty = strip_path(ty)
    if ty.startswith('&mut '):
        return ('&mut', [ty[5:].strip()])
    if ty.startswith('&'):
        return ('&', [ty[1:].strip()])
    if ty.startswith('*const '):
        return ('*const', [ty[7:].strip()])
    if ty.startswith('*mut '):
        return ('*mut', [ty[5:].strip()])
    if ty.startswith('(') and ty.endswith(')'):
        inner = ty[1:-1].strip()
        if inner == '':
            return ('unit', [])
        return ('tuple', split_top(inner, ','))
    if ty.startswith('[') and ty.endswith(']'):
        inner = ty[1:-1]
        k = find_top(inner, '; ')
        if k >= 0:
            return ('array', [inner[:k].strip(), inner[k + 2:].strip()])
        return ('slice', [inner.strip()])
    if ty.startswith('{closure@'):
        return ('closure', [ty])
    k = ty.find('<')
    if k >= 0 and ty.endswith('>'):
        return (ty[:k], split_top(ty[k + 1:-1], ','))
    return (ty, [])


STD_ENUMS = {
    'Option': ['None', 'Some'],
    'Result': ['Ok', 'Err'],
    'Ordering': ['Less', 'Equal', 'Greater'],
    'ControlFlow': ['Continue', 'Break'],
    'Cow': ['Borrowed', 'Owned'],
    'Entry': ['Occupied', 'Vacant'],
    'Bound': ['Included', 'Excluded', 'Unbounded'],
    'Value': ['Null', 'Bool', 'Number', 'String', 'Array', 'Object'],      # serde_json::Value
}
STD_ENUM_DISCR = {'Ordering': {'Less': -1, 'Equal': 0, 'Greater': 1}}
