"""Light scanner over the repository's Rust sources: enum variants, struct fields, impl headers.

MIR prints enum variants by name in places/aggregates and by index in switchInt, and struct fields by
index (plus type); this module supplies the name<->index maps from the *current* source, after
#[cfg] stripping for the feature set the dump was built with.
"""
import os
import re


def strip_comments(src):
    out = []
    i = 0
    n = len(src)
    while i < n:
        c = src[i]
        if c == '/' and i + 1 < n and src[i + 1] == '/':
            j = src.find('\n', i)
            if j < 0:
                j = n
            out.append(' ' * (j - i))
            i = j
            continue
        if c == '/' and i + 1 < n and src[i + 1] == '*':
            depth = 1
            j = i + 2
            while j < n and depth:
                if src.startswith('/*', j):
                    depth += 1
                    j += 2
                elif src.startswith('*/', j):
                    depth -= 1
                    j += 2
                else:
                    j += 1
            seg = src[i:j]
            out.append(''.join('\n' if ch == '\n' else ' ' for ch in seg))
            i = j
            continue
        if c == '"':
            j = i + 1
            while j < n:
                if src[j] == '\\':
                    j += 2
                    continue
                if src[j] == '"':
                    break
                j += 1
            seg = src[i:j + 1]
            out.append('"' + ''.join('\n' if ch == '\n' else '_' for ch in seg[1:-1]) + '"')
            i = j + 1
            continue
        if c == 'r' and i + 1 < n and src[i + 1] in '#"' and (i == 0 or not (src[i - 1].isalnum() or src[i - 1] == '_')):
            m = re.match(r'r(#*)"', src[i:])
            if m:
                hashes = m.group(1)
                endtok = '"' + hashes
                j = src.find(endtok, i + len(m.group(0)))
                if j >= 0:
                    seg = src[i:j + len(endtok)]
                    out.append(''.join('\n' if ch == '\n' else '_' for ch in seg))
                    i = j + len(endtok)
                    continue
        if c == "'":
            # char literal or lifetime
            if i + 1 < n and src[i + 1] == '\\':
                j = src.find("'", i + 3)
                if src[i + 2] == "'":
                    j = i + 3
                out.append("'_" + '_' * (j - i - 2) + "'")
                i = j + 1
                continue
            if i + 2 < n and src[i + 2] == "'":
                out.append("'_'")
                i += 3
                continue
        out.append(c)
        i += 1
    return ''.join(out)


OPEN = {'(': ')', '[': ']', '{': '}'}
CLOSE = {v: k for k, v in OPEN.items()}


def _match(src, i):
    depth = 0
    n = len(src)
    j = i
    while j < n:
        c = src[j]
        if c in OPEN:
            depth += 1
        elif c in CLOSE:
            depth -= 1
            if depth == 0:
                return j
        j += 1
    raise ValueError('unbalanced')


def _split_items(body):
    """split at top-level commas; angle brackets tracked heuristically (no comparison ops in decls)."""
    parts = []
    depth = 0
    adepth = 0
    last = 0
    i = 0
    n = len(body)
    while i < n:
        c = body[i]
        if c in OPEN:
            depth += 1
        elif c in CLOSE:
            depth -= 1
        elif c == '<':
            adepth += 1
        elif c == '>' and i > 0 and body[i - 1] != '-' and body[i - 1] != '=':
            adepth = max(0, adepth - 1)
        elif c == ',' and depth == 0 and adepth == 0:
            parts.append(body[last:i])
            last = i + 1
        i += 1
    parts.append(body[last:])
    return [p for p in (q.strip() for q in parts) if p]


def eval_cfg(expr, features):
    """expr: text inside #[cfg(...)]"""
    expr = expr.strip()
    m = re.match(r'^(not|any|all)\s*\((.*)\)$', expr, re.S)
    if m:
        subs = _split_items(m.group(2))
        vals = [eval_cfg(s, features) for s in subs]
        if m.group(1) == 'not':
            return not vals[0]
        if m.group(1) == 'any':
            return any(vals)
        return all(vals)
    m = re.match(r'^feature\s*=\s*"(.*)"$', expr)
    if m:
        return m.group(1).replace('_', '-') in features or m.group(1) in features
    if expr == 'test' or expr == 'kani' or expr == 'debug_assertions' or expr == 'doc':
        return False
    m = re.match(r'^target_arch\s*=\s*"(.*)"$', expr)
    if m:
        return m.group(1) == 'x86_64'
    m = re.match(r'^target_os\s*=\s*"(.*)"$', expr)
    if m:
        return m.group(1) == 'linux'
    m = re.match(r'^target_pointer_width\s*=\s*"(.*)"$', expr)
    if m:
        return m.group(1) == '64'
    if expr in ('unix',):
        return True
    if expr in ('windows',):
        return False
    return False


def _strip_attrs(item, features):
    """remove leading attributes; return (text, enabled)"""
    enabled = True
    item = item.strip()
    while item.startswith('#'):
        o = item.find('[')
        c = _match(item, o)
        attr = item[o + 1:c].strip()
        m = re.match(r'^cfg\s*\((.*)\)$', attr, re.S)
        if m and not eval_cfg(m.group(1), features):
            enabled = False
        item = item[c + 1:].strip()
    return item, enabled


class RustSrc:
    def __init__(self, root, features=('std', 'regex', 'console')):
        self.root = root
        self.features = set(features)
        self.enums = {}      # name -> [variant names]   (declaration order, cfg-stripped)
        self.enum_fields = {}  # (enum, variant) -> [field names] for struct-like variants, or int arity
        self.enum_discr = {}  # name -> {variant: explicit discriminant}
        self.structs = {}    # name -> [field names] (tuple structs: '0','1',..)
        self.struct_types = {}  # name -> [field type text]
        self.structs_all = {}   # name -> [field-name lists] (several structs may share a name in different modules)
        self.files = {}
        self.raw = {}
        for dp, dn, fn in os.walk(os.path.join(root, 'src')):
            for f in fn:
                if f.endswith('.rs'):
                    p = os.path.join(dp, f)
                    rel = os.path.relpath(p, root)
                    raw = open(p, encoding='utf-8').read()
                    self.raw[rel] = raw
                    self.files[rel] = strip_comments(raw)
        for rel, src in self.files.items():
            self._scan(rel, src)

    def _scan(self, rel, src):
        for m in re.finditer(r'\b(enum|struct)\s+([A-Za-z_]\w*)\s*(<[^{;(]*>)?\s*(where[^{;]*)?([{(;])', src):
            kind, name, _, _, opener = m.groups()
            if opener == ';':
                if kind == 'struct':
                    self.structs.setdefault(name, [])
                    self.struct_types.setdefault(name, [])
                continue
            o = m.end() - 1
            c = _match(src, o)
            body = src[o + 1:c]
            items = _split_items(body)
            if kind == 'enum':
                variants = []
                for it in items:
                    txt, en = _strip_attrs(it, self.features)
                    if not en:
                        continue
                    mv = re.match(r'^([A-Za-z_]\w*)', txt)
                    if not mv:
                        continue
                    v = mv.group(1)
                    variants.append(v)
                    rest = txt[mv.end():].strip()
                    if rest.startswith('{'):
                        cc = _match(rest, 0)
                        fl = []
                        for f in _split_items(rest[1:cc]):
                            ft, fe = _strip_attrs(f, self.features)
                            if not fe:
                                continue
                            ft = re.sub(r'^pub(\s*\([^)]*\))?\s+', '', ft)
                            fl.append(ft.split(':')[0].strip())
                        self.enum_fields[(name, v)] = fl
                    elif rest.startswith('('):
                        cc = _match(rest, 0)
                        self.enum_fields[(name, v)] = len(_split_items(rest[1:cc]))
                    else:
                        self.enum_fields[(name, v)] = 0
                        md = re.match(r'^=\s*(-?\d+)', rest)
                        if md:
                            self.enum_discr.setdefault(name, {})[v] = int(md.group(1))
                if name not in self.enums:
                    self.enums[name] = variants
            else:
                fields = []
                types = []
                if opener == '{':
                    for f in items:
                        ft, fe = _strip_attrs(f, self.features)
                        if not fe:
                            continue
                        ft = re.sub(r'^pub(\s*\([^)]*\))?\s+', '', ft)
                        k = ft.find(':')
                        fields.append(ft[:k].strip())
                        types.append(ft[k + 1:].strip())
                else:
                    idx = 0
                    for f in items:
                        ft, fe = _strip_attrs(f, self.features)
                        if not fe:
                            continue
                        ft = re.sub(r'^pub(\s*\([^)]*\))?\s+', '', ft)
                        fields.append(str(idx))
                        types.append(ft)
                        idx += 1
                self.structs_all.setdefault(name, []).append(fields)
                if name not in self.structs:
                    self.structs[name] = fields
                    self.struct_types[name] = types

    # -- impl header lookup --------------------------------------------------------------------
    def impl_at(self, rel, line, col):
        """Return (self_type, trait_or_None) for the impl block / derive at file:line:col (1-based)."""
        src = self.files.get(rel)
        if src is None:
            return None
        lines = src.split('\n')
        ln = lines[line - 1]
        tail = ln[col - 1:]
        if tail.lstrip().startswith('impl') or tail.lstrip().startswith('unsafe impl'):
            # join following lines until '{'
            text = tail
            k = line
            while '{' not in text and k < len(lines):
                text += ' ' + lines[k]
                k += 1
            head = text[:text.find('{')]
            head = re.sub(r'^\s*(unsafe\s+)?impl\s*', '', head)
            if head.startswith('<'):
                # skip generics
                depth = 0
                for i, ch in enumerate(head):
                    if ch == '<':
                        depth += 1
                    elif ch == '>' and head[i - 1] != '-':
                        depth -= 1
                        if depth == 0:
                            head = head[i + 1:]
                            break
            head = head.split(' where ')[0].strip()
            m = re.match(r'^(.*?)\s+for\s+(.*)$', head)
            if m:
                trait = m.group(1).strip()
                ty = m.group(2).strip()
            else:
                trait = None
                ty = head
            return (_base_name(ty), _base_name(trait) if trait else None)
        # derive: tail starts with the trait name inside #[derive(..)]
        m = re.match(r'^([A-Za-z_]\w*)', tail)
        if m:
            trait = m.group(1)
            # the item is the next struct/enum declaration after this line
            k = line - 1
            text = '\n'.join(lines[k:k + 40])
            mi = re.search(r'\b(?:enum|struct|union)\s+([A-Za-z_]\w*)', text)
            if mi:
                return (mi.group(1), trait)
        return None


def _base_name(ty):
    ty = ty.strip()
    ty = re.sub(r"^&\s*('\w+\s+)?(mut\s+)?", '', ty)
    # strip generics
    k = ty.find('<')
    if k >= 0:
        ty = ty[:k]
    return ty.split('::')[-1].strip()
